/-
  Run-time support of the definitions written by `translator/pyvec.py` (`Generated/KernelsConf.lean`): the VECTOR
  sub-language of T14 — per-pixel bodies of numba `prange` map kernels written as vectorised numpy over one axis
  (`pandora/cost_volume_confidence/{ambiguity,risk,interval_bounds}.py`).  Extends `Model/PyLoops.lean`.

  * scalars  `PyLoops.Fl` (exact rationals + NaN, +inf, -inf; no rounding), `Int`, `Bool`;
             `fdiv`: IEEE division (`x / 0 = ±inf`, `0 / 0 = nan`; the zero of `max_cost - min_cost` is `+0`).
             (numba compiles these kernels with `parallel=True`: a float division by zero follows IEEE there — observed:
             a constant cost volume yields NaN, not ZeroDivisionError.)
  * vectors  1-D numpy arrays are `List`s (`List Fl`, `List Int`, `List Bool`); 2-D arrays are lists of rows.
             Every numpy operation whose operands must agree in shape is TESTED by the generated code (`sameLen`,
             `reshapeOk`, `reshapeRowsOk`, `nonEmpty`, `inRange` …): the flag `pyOk` is the conjunction of these tests and
             the function returns `Res.shapeError` when it is false (numpy/numba would raise, or read foreign memory).
             The equality theorems state `Res.ok …`.
             Subscripts `v[i]`, `m[:, j]`, `v[idx]` are tested against `0 ≤ i < n` — Python's negative wrap-around is
             NOT used by these kernels and is conservatively treated as an error.
  Core Lean only.
-/
import PandoraModel.Model.PyLoops

namespace Pandora.PyVec
open Pandora Pandora.PyLoops

/-- what a translated vector kernel returns: its value, or "a numpy operation met operands of the wrong shape" -/
inductive Res (α : Type) where
  | ok : α → Res α
  | shapeError : Res α
  deriving DecidableEq, Repr

/-! ### scalars -/

def ofInt (i : Int) : Fl := .fin (i : Rat)

/-- IEEE division (`-0` is not modelled: a zero divisor is `+0`) -/
def fdiv : Fl → Fl → Fl
  | .fin a, .fin b =>
    if b = 0 then (if a = 0 then .nan else if 0 < a then .pinf else .ninf) else .fin (a / b)
  | .nan, _ => .nan
  | _, .nan => .nan
  | .fin _, .pinf => .fin 0
  | .fin _, .ninf => .fin 0
  | .pinf, .fin b => if 0 ≤ b then .pinf else .ninf
  | .ninf, .fin b => if 0 ≤ b then .ninf else .pinf
  | .pinf, .pinf => .nan
  | .pinf, .ninf => .nan
  | .ninf, .pinf => .nan
  | .ninf, .ninf => .nan

/-! ### shapes -/

def len {α : Type} (v : List α) : Int := (v.length : Int)

def sameLen {α β : Type} (a : List α) (b : List β) : Bool := a.length == b.length

def nonEmpty {α : Type} (v : List α) : Bool := !v.isEmpty

/-- `0 ≤ i < n` -/
def inRange (n i : Int) : Bool := decide (0 ≤ i) && decide (i < n)

/-! ### element-wise operations (numpy broadcasting of a scalar) -/

/-- `a ∘ b`, both vectors -/
def zip2 {α β γ : Type} (f : α → β → γ) (a : List α) (b : List β) : List γ := List.zipWith f a b
/-- `a ∘ s`, `s` a scalar -/
def mapR {α β γ : Type} (f : α → β → γ) (a : List α) (s : β) : List γ := a.map (fun x => f x s)
/-- `s ∘ b`, `s` a scalar -/
def mapL {α β γ : Type} (f : α → β → γ) (s : α) (b : List β) : List γ := b.map (fun x => f s x)

def intsToFl (v : List Int) : List Fl := v.map ofInt

/-- `x[mask] = c` (the new value of `x`) -/
def maskSet {α : Type} (v : List α) (mask : List Bool) (c : α) : List α :=
  List.zipWith (fun x b => if b then c else x) v mask

/-- `x[mask]` -/
def select {α : Type} (v : List α) (mask : List Bool) : List α :=
  (List.zipWith (fun x b => (x, b)) v mask).filterMap (fun p => if p.2 then some p.1 else none)

/-! ### construction, layout -/

/-- `np.repeat(v, n)` -/
def repeatEach {α : Type} (v : List α) (n : Int) : List α := v.flatMap (List.replicate n.toNat)
/-- `np.repeat(s, n)`, `s` a scalar -/
def full {α : Type} (s : α) (n : Int) : List α := List.replicate n.toNat s
/-- `np.arange(n)` -/
def arange (n : Int) : List Int := (List.range n.toNat).map (fun (i : Nat) => (i : Int))

/-- `n` rows of `k` cells read row by row -/
def chunks {α : Type} (k : Nat) : Nat → List α → List (List α)
  | 0, _ => []
  | n + 1, l => l.take k :: chunks k n (l.drop k)

/-- `v.reshape((r, c))` -/
def reshape2 {α : Type} (v : List α) (r c : Int) : List (List α) := chunks c.toNat r.toNat v
def reshapeOk {α : Type} (v : List α) (r c : Int) : Bool :=
  decide (0 ≤ r) && decide (0 ≤ c) && (r.toNat * c.toNat == v.length)
/-- `v.reshape((-1, c))` -/
def reshapeRows {α : Type} (v : List α) (c : Int) : List (List α) := chunks c.toNat (v.length / c.toNat) v
def reshapeRowsOk {α : Type} (v : List α) (c : Int) : Bool := decide (0 < c) && (v.length % c.toNat == 0)

/-- `m[:, j]` -/
def column {α : Type} (d : α) (m : List (List α)) (j : Int) : List α := m.map (fun r => r.getD j.toNat d)
/-- `m.T` for a matrix with `ncols` columns -/
def transpose {α : Type} (d : α) (ncols : Int) (m : List (List α)) : List (List α) :=
  (List.range ncols.toNat).map (fun (j : Nat) => column d m (j : Int))
/-- `m.flatten()` -/
def flatten {α : Type} (m : List (List α)) : List α := List.flatten m

/-- `v = np.zeros(n); for i in range(n): v[i] = f i` -/
def tabulate {α : Type} (n : Int) (f : Int → α) : List α := (List.range n.toNat).map (fun (i : Nat) => f (i : Int))
/-- a test made in every iteration of `for i in range(n)` -/
def allRange (n : Int) (p : Int → Bool) : Bool := (List.range n.toNat).all (fun (i : Nat) => p (i : Int))

/-- `v[i]` -/
def getAt {α : Type} (d : α) (v : List α) (i : Int) : α := v.getD i.toNat d
/-- `v[idx]`, `idx` an integer vector -/
def gather {α : Type} (d : α) (v : List α) (idx : List Int) : List α := idx.map (getAt d v)
def gatherOk {α : Type} (v : List α) (idx : List Int) : Bool := idx.all (inRange (len v))

/-! ### reductions -/

/-- `np.sum(mask)` -/
def countTrue (m : List Bool) : Int := ((m.count true : Nat) : Int)

/-- `np.sum(m, axis=0)` of a Boolean matrix with `ncols` columns -/
def colCounts (m : List (List Bool)) (ncols : Int) : List Int :=
  (List.range ncols.toNat).map (fun (j : Nat) => countTrue (column false m (j : Int)))

def nanminAux : List Fl → Option Fl
  | [] => none
  | x :: xs =>
    match nanminAux xs with
    | none => if x.isNan then none else some x
    | some m => if x.isNan then some m else some (if Fl.le x m then x else m)

def nanmaxAux : List Fl → Option Fl
  | [] => none
  | x :: xs =>
    match nanmaxAux xs with
    | none => if x.isNan then none else some x
    | some m => if x.isNan then some m else some (if Fl.le m x then x else m)

/-- `np.nanmin(v)` (NaN when every entry is NaN; the generated code tests `nonEmpty v`) -/
def nanmin (v : List Fl) : Fl := (nanminAux v).getD .nan
def nanmax (v : List Fl) : Fl := (nanmaxAux v).getD .nan

def sumFl (v : List Fl) : Fl := v.foldr Fl.add (.fin 0)

/-- `np.nanmean(v)` -/
def nanmean (v : List Fl) : Fl :=
  let xs := v.filter (fun x => !x.isNan)
  if xs.isEmpty then .nan else fdiv (sumFl xs) (ofInt (len xs))

/-- `np.nanmin` / `np.nanmax` of an integer vector (the generated code tests `nonEmpty`) -/
def iminL : List Int → Int
  | [] => 0
  | [x] => x
  | x :: xs => let m := iminL xs; if x ≤ m then x else m
def imaxL : List Int → Int
  | [] => 0
  | [x] => x
  | x :: xs => let m := imaxL xs; if m ≤ x then x else m

end Pandora.PyVec
