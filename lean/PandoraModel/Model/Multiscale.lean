/-
  Executable model of the multiscale bookkeeping (core Lean only):
    * sizes of the pyramid levels (`pyramid_gaussian`: ceil(n / factor) per level),
    * the interval arithmetic of `run_prepare` / `matching_cost_prepare` / `run_multiscale`,
    * `FixedZoomPyramid.disparity_range`: NaN-masking of invalid pixels, window min/max ± marge on the
      interior pixels, user interval elsewhere, `zoom(order=0)` by the scale factor, and the crop to the
      finer image done by `cv_masked`.
  The radiometry of the coarse levels (Gaussian pyramid) is not modelled.
-/
import PandoraModel.Model.Basic
import PandoraModel.Model.Flags

namespace Pandora.Multiscale

/-- `ceil(n / f)` -/
def ceilDiv (n f : Nat) : Nat := (n + f - 1) / f

/-- sizes of the pyramid levels, finest (original) first: each level is `ceil(previous / factor)` -/
def levelSizesFine (n f : Nat) : Nat → List Nat
  | 0 => []
  | k + 1 => n :: levelSizesFine (ceilDiv n f) f k

/-- sizes in processing order: coarsest first, the original size last -/
def levelSizes (n f numScales : Nat) : List Nat := (levelSizesFine n f numScales).reverse

/-- Python `int(x)` of a float: truncation toward zero -/
def ratTrunc (q : Rat) : Int := if 0 ≤ q then q.floor else q.ceil

/-- `run_prepare`: the stored interval bound is `user / factor ^ num_scales` ... -/
def prepareBound (user : Rat) (f numScales : Nat) : Rat := user / ((f : Rat) ^ numScales)

/-- ... and every `matching_cost_prepare` / `run_multiscale` multiplies by the factor; after `k`
    multiplications -/
def boundAfter (user : Rat) (f numScales k : Nat) : Rat := prepareBound user f numScales * ((f : Rat) ^ k)

/-- index of the coarse sample that `scipy.ndimage.zoom(a, f, order=0)` copies into output index `i`
    (input length `n`, output length `f * n`): nearest sample of `i * (n - 1) / (f * n - 1)` -/
def zoomIndex (n f i : Nat) : Nat :=
  if f * n ≤ 1 then 0 else (2 * i * (n - 1) + (f * n - 1)) / (2 * (f * n - 1))

abbrev Grid (α : Type) := List (List α)

def Grid.get {α} [Inhabited α] (g : Grid α) (r c : Nat) : α := (g.getD r []).getD c default
def Grid.rows {α} (g : Grid α) : Nat := g.length
def Grid.cols {α} (g : Grid α) : Nat := (g.getD 0 []).length

/-- disparity map with invalid pixels (any of bits 0,1,6,7,8,9) set to NaN -/
def maskInvalid (disp : Grid Val) (flags : Grid Nat) : Grid Val :=
  (List.range disp.rows).map fun r => (List.range disp.cols).map fun c =>
    if Flags.isInvalid (flags.get r c) then Val.nan else disp.get r c

/-- NaN-ignoring minimum / maximum of a list of cells (`np.nanmin`): NaN when there is no number -/
def nanMin (vs : List Val) : Val :=
  vs.foldl (fun acc v => match acc, v with
    | Val.nan, x => x
    | x, Val.nan => x
    | Val.num a, Val.num b => Val.num (if b < a then b else a)) Val.nan

def nanMax (vs : List Val) : Val :=
  vs.foldl (fun acc v => match acc, v with
    | Val.nan, x => x
    | x, Val.nan => x
    | Val.num a, Val.num b => Val.num (if a < b then b else a)) Val.nan

/-- the `w × w` window centred on `(r, c)` (offset = (w-1)/2) -/
def window (g : Grid Val) (off r c : Nat) : List Val :=
  (List.range (2 * off + 1)).flatMap fun dr => (List.range (2 * off + 1)).map fun dc =>
    g.get (r - off + dr) (c - off + dc)

def addRat (v : Val) (q : Rat) : Val := v.map (· + q)

/-- coarse-level ranges before upsampling: user interval (truncated) on the border and on invalid
    pixels, window min − marge / max + marge elsewhere -/
def coarseRanges (disp : Grid Val) (flags : Grid Nat) (window_size marge : Nat) (userMin userMax : Rat) :
    Grid Val × Grid Val :=
  let off := (window_size - 1) / 2
  let masked := maskInvalid disp flags
  let rows := disp.rows
  let cols := disp.cols
  let umin : Val := Val.num (ratTrunc userMin)
  let umax : Val := Val.num (ratTrunc userMax)
  let cell (r c : Nat) (isMin : Bool) : Val :=
    let interior := off ≤ r && r + off < rows && off ≤ c && c + off < cols
    if !interior then (if isMin then umin else umax)
    else if (masked.get r c).isNan then (if isMin then umin else umax)
    else if isMin then addRat (nanMin (window masked off r c)) (-(marge : Rat))
    else addRat (nanMax (window masked off r c)) (marge : Rat)
  ((List.range rows).map fun r => (List.range cols).map fun c => cell r c true,
   (List.range rows).map fun r => (List.range cols).map fun c => cell r c false)

/-- `zoom(g, f, order=0)` -/
def zoom0 (g : Grid Val) (f : Nat) : Grid Val :=
  let rows := g.rows
  let cols := g.cols
  (List.range (f * rows)).map fun i => (List.range (f * cols)).map fun j =>
    g.get (zoomIndex rows f i) (zoomIndex cols f j)

/-- what the next (finer) level searches at each of its pixels: `disparity_range` upsampled,
    multiplied by the factor in `matching_cost_prepare`, cropped to the finer image by `cv_masked` -/
def nextLevelGrids (disp : Grid Val) (flags : Grid Nat) (window_size marge f : Nat) (userMin userMax : Rat)
    (fineRows fineCols : Nat) : Grid Val × Grid Val :=
  let (mn, mx) := coarseRanges disp flags window_size marge userMin userMax
  let up (g : Grid Val) : Grid Val :=
    let z := if f = 1 then g else zoom0 g f
    (List.range (min fineRows z.rows)).map fun i => (List.range (min fineCols z.cols)).map fun j =>
      (z.get i j).map (· * (f : Rat))
  (up mn, up mx)

/-! ### Specification (from the property statement) -/

/-- per fine pixel: the coarse pixel whose interval it inherits is at most one pixel away from its
    geometric parent `(i / f, j / f)` -/
def parentNear (n f i : Nat) : Bool :=
  let p := zoomIndex n f i
  let g := i / f
  decide (p ≤ g + 1) && decide (g ≤ p + 1)

/-- the interval of a fine pixel, written from the statement: `f × [min − marge, max + marge]` of the
    valid coarse disparities in the matching window around the parent, or `f ×` the user interval of the
    coarse level when the parent is invalid or on the border -/
def specInterval (disp : Grid Val) (flags : Grid Nat) (window_size marge f : Nat) (userMin userMax : Rat)
    (pr pc : Nat) : Val × Val :=
  let off := (window_size - 1) / 2
  let rows := disp.rows
  let cols := disp.cols
  let border := !(off ≤ pr && pr + off < rows && off ≤ pc && pc + off < cols)
  let invalid := Flags.isInvalid (flags.get pr pc)
  let ff : Rat := f
  if border || invalid then (Val.num (ff * ratTrunc userMin), Val.num (ff * ratTrunc userMax))
  else
    let valid : List Rat := (List.range (2 * off + 1)).flatMap fun dr => (List.range (2 * off + 1)).filterMap fun dc =>
      let r := pr - off + dr
      let c := pc - off + dc
      if Flags.isInvalid (flags.get r c) then none
      else match disp.get r c with
        | Val.num q => some q
        | Val.nan => none
    match valid with
    | [] => (Val.nan, Val.nan)
    | q :: qs =>
      let mn := qs.foldl (fun a b => if b < a then b else a) q
      let mx := qs.foldl (fun a b => if a < b then b else a) q
      (Val.num (ff * (mn - marge)), Val.num (ff * (mx + marge)))

end Pandora.Multiscale
