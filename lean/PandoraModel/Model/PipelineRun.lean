/-
  ONE composed run of the step models (core Lean only: executable, used by the driver `Driver/C13.lean` and by the
  theorems of `Properties/C13Run*.lean`).

      matching cost      `MC.costVolume`                    (C02: `compute_cost_volume` + `cv_masked`)
      validity flags     `C04C02.composedMask`              (C04: `criteria.py`, fed with the NaN pattern of that volume)
      [aggregation       `Cbca.aggregate`                   (C11: cross-based cost aggregation)]
      winner-takes-all   `Wta.toDisp`                       (C03, block loops included)
      refinement         `Refinement.loopRefinement`        (C06; may raise: the run then has no result)
      median filter      `Filter.medianFilterDisparity`     (C10, block loops included)
      right map          the same chain on the swapped pair, interval mirrored (`swapInput`)
      cross-checking     `CrossCheck.check`                 (C07)

  The definitions below were moved here, unchanged, from `Properties/C04C02.lean` (`clsOf`, `toCv`, `mcAllNan`,
  `composedMask`), `Properties/C07.lean` (`outPix`), `Properties/C13Refinement.lean` (`gridImg`),
  `Properties/C13MatchingCost.lean` (`McParams`, `McCell`, `paramsOf`, `mcScene`), `Properties/C13Wiring.lean`
  (`wtaOfMc`), `Properties/C13Run.lean` (`RunCfg` … `fullRun`, `leftInIntervalB`) and `Properties/C13RunCbca.lean`
  (`AggCfg`, `cbcaInputOf`, `aggRow`, `fullRunCbca`); they keep their names and namespaces, so that every theorem about
  them is stated as before.  New here: the decidable forms of the hypotheses of `run_crop_eq_whole`
  (`mcOKB`, `medianOKB`, `runOKB`, `cropRunB`, `docCone`, `coneInCropB`), proved to imply the hypotheses in
  `Properties/C13RunBool.lean`.
-/
import PandoraModel.Model.MatchingCost
import PandoraModel.Model.Criteria
import PandoraModel.Model.Wta
import PandoraModel.Model.Refinement
import PandoraModel.Model.Filter
import PandoraModel.Model.CrossCheck
import PandoraModel.Model.Cbca
import PandoraModel.Model.Locality
import PandoraModel.Model.Blocks
import PandoraModel.Model.Interp
import PandoraModel.Model.Confidence
import PandoraModel.Model.Multiscale

/-! ## the criteria model fed with the matching-cost model (moved from `Properties/C04C02.lean`) -/

namespace Pandora.C04C02
open Pandora

/-- class of a mask cell as `criteria.py` tests it: `== no_data_mask` first (that is what the dilation reads),
    then `== valid_pixels`, anything else is "invalid" -/
def clsOf (m : MC.Mask) (r c : Nat) : Criteria.Cls :=
  if m.code (r : Int) (c : Int) = m.nodata then .nodata
  else if m.code (r : Int) (c : Int) = m.valid then .valid
  else .invalid

/-- a matching-cost input as an input of the criteria model: same image size, `offset = (w − 1) / 2`, the global
    interval `[gridMin, gridMax]` of the `disp` coordinate, the two masks classified, the per-pixel grids -/
def toCv (x : MC.Input) : Criteria.CvInput where
  rows := x.L.rows
  cols := x.L.cols
  off := MC.half x.w
  col0 := 0
  dmin := MC.gridMin x.dminG x.L.rows x.L.cols
  dmax := MC.gridMax x.dmaxG x.L.rows x.L.cols
  hasL := x.mL.present
  mL := clsOf x.mL
  hasR := x.mR.present
  mR := clsOf x.mR
  subpix := x.sp
  pixMin := fun r c => x.dminG r c
  pixMax := fun r c => x.dmaxG r c

/-- "every cost of the pixel is NaN", read off the matching-cost model -/
def mcAllNan (x : MC.Input) (r c : Nat) : Bool :=
  (List.range (MC.nDisp (MC.gridMin x.dminG x.L.rows x.L.cols) (MC.gridMax x.dmaxG x.L.rows x.L.cols) x.sp)).all
    fun j => (MC.costVolume x (r : Int) (c : Int) j).isNan

/-- the validity mask after `matching_cost`: `criteria.py` (model of C04) with the all-NaN indicator of the
    cost volume computed by the matching-cost model of C02 -/
def composedMask (x : MC.Input) (r c : Nat) : Nat :=
  Criteria.finalMask (toCv x).toInput (mcAllNan x) r c

end Pandora.C04C02

/-! ## one output cell of cross-checking (moved from `Properties/C07.lean`) -/

namespace Pandora.C07
open Pandora Pandora.CrossCheck

/-- the output cell `(r, c)` of `check` -/
def outPix (o : Out) (r c : Nat) : PixOut := ⟨(o.mask.getD r []).getD c 0, (o.conf.getD r []).getD c .nan⟩

end Pandora.C07

namespace Pandora.C13
open Pandora Pandora.Locality Pandora.MC

/-! ## the scene of a matching-cost input (moved from `Properties/C13MatchingCost.lean`) -/

/-- the configuration of the step (what is not per pixel) -/
structure McParams where
  meas : Measure
  w : Nat
  sp : Nat
  presentL : Bool
  validL : Int
  nodataL : Int
  presentR : Bool
  validR : Int
  nodataR : Int

/-- what the step reads at one pixel: left and right radiometry, left and right mask codes, the pixel's
    disparity interval -/
structure McCell where
  l : Rat
  r : Rat
  ml : Int
  mr : Int
  dmin : Int
  dmax : Int

def paramsOf (x : Input) : McParams :=
  ⟨x.meas, x.w, x.sp, x.mL.present, x.mL.valid, x.mL.nodata, x.mR.present, x.mR.valid, x.mR.nodata⟩

/-- the scene of an input as an array of cells -/
def mcScene (x : Input) : Nat → Nat → McCell := fun r c =>
  ⟨x.L.px r c, x.R.px r c, x.mL.code r c, x.mR.code r c, x.dminG r c, x.dmaxG r c⟩

/-! ## nested lists as partial images (moved from `Properties/C13Refinement.lean`) -/

/-- a nested list (rows of cells) seen as a partial image; rows may have different lengths -/
def gridImg {α : Type} (g : List (List α)) : Img α := fun p =>
  if 0 ≤ p.1 ∧ 0 ≤ p.2 then (g[p.1.toNat]?).bind (fun row => row[p.2.toNat]?) else none

/-! ## matching cost → winner-takes-all (moved from `Properties/C13Wiring.lean`) -/

/-- the input of the disparity step made of the cost volume of the matching-cost model (`ev`: the float
    value of a cost cell) -/
def wtaOfMc (x : MC.Input) (ev : MC.Cell → Val) (isMax : Bool) (disps : List Rat) (invalid : Val) : Wta.Input where
  rows := x.L.rows
  cols := x.L.cols
  isMax := isMax
  disps := disps
  cv := fun r c =>
    (List.range (nDisp (gridMin x.dminG x.L.rows x.L.cols) (gridMax x.dmaxG x.L.rows x.L.cols) x.sp)).map
      fun j => ev (costVolume x r c j)
  invalid := invalid

/-! ## the run (moved from `Properties/C13Run.lean`) -/

/-- what a run is configured with, besides the matching-cost input -/
structure RunCfg where
  /-- float value of a cost cell -/
  ev : MC.Cell → Val
  isMax : Bool
  disps : List Rat
  invalid : Val
  refine : Refinement.Params
  invalidMask : Nat
  fs : Nat
  doRefine : Bool
  doMedian : Bool
  /-- block split of `to_disp` -/
  sW : Blocks.Split
  /-- block split of the median filter -/
  sM : Blocks.Split

/-- a disparity map with its flag words -/
structure Maps where
  disp : Nat → Nat → Val
  flag : Nat → Nat → Nat

abbrev gminOf (x : MC.Input) : Int := gridMin x.dminG x.L.rows x.L.cols
abbrev gmaxOf (x : MC.Input) : Int := gridMax x.dmaxG x.L.rows x.L.cols
abbrev nOf (x : MC.Input) : Nat := nDisp (gminOf x) (gmaxOf x) x.sp

/-- the cost row of a pixel as the matching-cost step leaves it (no aggregation) -/
def costRow (K : RunCfg) (x : MC.Input) (r c : Nat) : List Val :=
  (wtaOfMc x K.ev K.isMax K.disps K.invalid).cv r c

/-- the input of `to_disp` for the cost rows `R` (those of the matching cost, or aggregated ones) -/
def wtaIn (K : RunCfg) (x : MC.Input) (R : Nat → Nat → List Val) : Wta.Input :=
  { rows := x.L.rows, cols := x.L.cols, isMax := K.isMax, disps := K.disps, cv := R, invalid := K.invalid }

/-- the disparity map of `to_disp` (model of C03) on the cost rows `R` -/
def wtaMapR (K : RunCfg) (x : MC.Input) (R : Nat → Nat → List Val) : Nat → Nat → Val :=
  Wta.toDisp K.sW (wtaIn K x R)

/-- the grid `loop_refinement` iterates over -/
def refineGridR (K : RunCfg) (x : MC.Input) (R : Nat → Nat → List Val) : List (List Refinement.PixIn) :=
  Blocks.tabulate x.L.rows x.L.cols fun r c =>
    ⟨R r c, wtaMapR K x R r c, C04C02.composedMask x r c,
      ((x.dminG (r : Int) (c : Int) : Int) : Rat), ((x.dmaxG (r : Int) (c : Int) : Int) : Rat)⟩

/-- the maps after the optional refinement (`none`: `loop_refinement` raised) -/
def afterRefineR (K : RunCfg) (x : MC.Input) (R : Nat → Nat → List Val) : Option Maps :=
  if K.doRefine then
    match Refinement.loopRefinement K.refine (refineGridR K x R) with
    | .ok o =>
      some ⟨fun r c => match gridImg o ((r : Int), (c : Int)) with | some y => y.d | none => .nan,
            fun r c => match gridImg o ((r : Int), (c : Int)) with | some y => y.flag | none => 0⟩
    | .err _ => none
  else some ⟨wtaMapR K x R, C04C02.composedMask x⟩

/-- the maps after the optional median filter (the filter does not write the flags) -/
def afterFilterR (K : RunCfg) (x : MC.Input) (R : Nat → Nat → List Val) : Option Maps :=
  (afterRefineR K x R).map fun m =>
    if K.doMedian then
      ⟨Filter.medianFilterDisparity K.sM K.invalidMask K.fs x.L.rows x.L.cols m.flag m.disp, m.flag⟩
    else m

/-- the pair seen from the right image: images and masks swapped, interval mirrored -/
def swapInput (x : MC.Input) : MC.Input :=
  { x with L := x.R, R := x.L, mL := x.mR, mR := x.mL,
           dminG := fun r c => -x.dmaxG r c, dmaxG := fun r c => -x.dminG r c }

/-- the left dataset of `disparity_checking` -/
def leftDataset (rows cols : Nat) (A : Maps) : CrossCheck.Dataset :=
  { disp := Blocks.tabulate rows cols A.disp, mask := Blocks.tabulate rows cols A.flag }

/-- **The whole run for given (aggregated) cost rows** `R` of the pair and `R'` of the swapped pair: left maps, right
    maps (configuration `K'`), cross-checking.  `none` when a refinement raised. -/
def fullRunR (K K' : RunCfg) (V : CrossCheck.Variant) (CP : CrossCheck.Params) (x : MC.Input)
    (R R' : Nat → Nat → List Val) : Option (Nat → Nat → CrossCheck.PixOut) :=
  match afterFilterR K x R, afterFilterR K' (swapInput x) R' with
  | some A, some B =>
    some fun r c => C07.outPix (CrossCheck.check V CP (leftDataset x.L.rows x.L.cols A)
      { disp := Blocks.tabulate x.L.rows x.L.cols B.disp, mask := [] }) r c
  | _, _ => none

/-- the run without aggregation: the cost rows are those of the matching-cost model -/
def afterFilter (K : RunCfg) (x : MC.Input) : Option Maps := afterFilterR K x (costRow K x)

/-- **The whole run without aggregation.** -/
def fullRun (K K' : RunCfg) (V : CrossCheck.Variant) (CP : CrossCheck.Params) (x : MC.Input) :
    Option (Nat → Nat → CrossCheck.PixOut) :=
  fullRunR K K' V CP x (costRow K x) (costRow K' (swapInput x))

/-- decidable form of `LeftInInterval` -/
def leftInIntervalB (CP : CrossCheck.Params) (rows cols : Nat) (A : Maps) : Bool :=
  (List.range rows).all fun r => (List.range cols).all fun c =>
    Flags.isInvalid (A.flag r c) ||
      match A.disp r c with
      | .nan => true
      | .num v => decide (CP.dmin ≤ CrossCheck.rint v ∧ CrossCheck.rint v ≤ CP.dmax)

/-! ## the run with cross-based aggregation (moved from `Properties/C13RunCbca.lean`) -/

/-- what cross-based aggregation is configured with -/
structure AggCfg where
  dist : Nat
  I : Rat
  mr : Cbca.MinRule

/-- the input of the cbca model for the run: the pair, the masks, the cost volume of the matching-cost model -/
def cbcaInputOf (K : RunCfg) (G : AggCfg) (x : MC.Input) : Cbca.Input where
  H := x.L.rows
  W := x.L.cols
  off := MC.half x.w
  imL := fun y c => x.L.px y c
  hasMskL := x.mL.present
  mskL := fun y c => x.mL.code y c
  validL := x.mL.valid
  imR := fun y c => x.R.px y c
  hasMskR := x.mR.present
  mskR := fun y c => x.mR.code y c
  validR := x.mR.valid
  dist := G.dist
  I := G.I
  subpix := x.sp
  disp := fun j => (((gminOf x * (x.sp : Int) + (j : Int) : Int)) : Rat) / ((x.sp : Int) : Rat)
  cv := fun y c dsp => K.ev (costVolume x y c dsp)
  mr := G.mr

/-- the aggregated cost row of a pixel -/
def aggRow (K : RunCfg) (G : AggCfg) (x : MC.Input) (r c : Nat) : List Val :=
  (List.range (nOf x)).map (Cbca.aggregate (cbcaInputOf K G x) r c)

/-- the whole run with cross-based aggregation on both sides -/
def fullRunCbca (K K' : RunCfg) (G : AggCfg) (V : CrossCheck.Variant) (CP : CrossCheck.Params) (x : MC.Input) :
    Option (Nat → Nat → CrossCheck.PixOut) :=
  fullRunR K K' V CP x (aggRow K G x) (aggRow K' G (swapInput x))

/-! ## the extended run: any tail of refinements and filters (repeated steps included), both cross-checks, filling,
    the ambiguity band (new; executed against `pandora.run` by the driver, no locality theorem yet) -/

/-- a step of the tail of the pipeline, after winner-takes-all: `refinement[.k]`, `filter[.k]` (median or bilateral) -/
inductive TailStep where
  | refine (P : Refinement.Params)
  | median (fs : Nat) (s : Blocks.Split)
  | bilateral (wts : Filter.Weights) (w : Nat) (s : Blocks.Split)

/-- one step of the tail on the current (disparity, flags) maps; the refinement reads the cost rows `R` (the cost
    volume is not modified by the tail), the filters do not write the flags -/
def tailStep (K : RunCfg) (x : MC.Input) (R : Nat → Nat → List Val) (m : Maps) : TailStep → Option Maps
  | .refine P =>
    match Refinement.loopRefinement P (Blocks.tabulate x.L.rows x.L.cols fun r c =>
        ⟨R r c, m.disp r c, m.flag r c,
          ((x.dminG (r : Int) (c : Int) : Int) : Rat), ((x.dmaxG (r : Int) (c : Int) : Int) : Rat)⟩) with
    | .ok o =>
      some ⟨fun r c => match gridImg o ((r : Int), (c : Int)) with | some y => y.d | none => .nan,
            fun r c => match gridImg o ((r : Int), (c : Int)) with | some y => y.flag | none => 0⟩
    | .err _ => none
  | .median fs s => some ⟨Filter.medianFilterDisparity s K.invalidMask fs x.L.rows x.L.cols m.flag m.disp, m.flag⟩
  | .bilateral wts w s =>
    some ⟨Filter.bilateralFilterDisparity s wts K.invalidMask w x.L.rows x.L.cols m.flag m.disp, m.flag⟩

/-- the maps after the whole tail, starting from the map of `to_disp` and the criteria flags -/
def afterTailFrom (K : RunCfg) (x : MC.Input) (R : Nat → Nat → List Val) : List TailStep → Maps → Option Maps
  | [], m => some m
  | s :: rest, m => (tailStep K x R m s).bind (afterTailFrom K x R rest)

def afterTail (K : RunCfg) (x : MC.Input) (R : Nat → Nat → List Val) (tail : List TailStep) : Option Maps :=
  afterTailFrom K x R tail ⟨wtaMapR K x R, C04C02.composedMask x⟩

/-- the tail of the run of `fullRunR`: the optional refinement, then the optional median filter -/
def tailOf (K : RunCfg) : List TailStep :=
  (if K.doRefine then [TailStep.refine K.refine] else []) ++ (if K.doMedian then [TailStep.median K.fs K.sM] else [])

/-- a cross-checked map as a map of the filling model -/
def dmapOfOut (rows cols : Nat) (o : CrossCheck.Out) : Interp.DMap :=
  { rows := rows, cols := cols,
    disp := fun r c => (o.disp.getD r []).getD c .nan,
    flag := fun r c => (o.mask.getD r []).getD c 0 }

/-- how the validation step fills: nothing, or `interpolated_disparity` (variant of the kernels read in the source,
    `offset_row_col` for the `mask_border` of mc-cnn) -/
structure FillCfg where
  meth : Option Interp.Method
  v : Interp.Variant
  off : Nat

def fillOf (F : FillCfg) (m : Interp.DMap) : Interp.DMap :=
  match F.meth with
  | none => m
  | some meth => Interp.interpolate F.v meth F.off m

/-- **The extended run**: for both sides the tail on the cost rows, then `validation_run`: the left map checked against
    the right one, the right map checked against the checked left one (`CrossCheck.validationRun`), then — after both
    checks — the filling of the left and of the right map.  `none` when a refinement raised. -/
def extRunR (K K' : RunCfg) (tail tail' : List TailStep) (V : CrossCheck.Variant) (CP CP' : CrossCheck.Params)
    (F : FillCfg) (x : MC.Input) (R R' : Nat → Nat → List Val) : Option (Interp.DMap × Interp.DMap) :=
  match afterTail K x R tail, afterTail K' (swapInput x) R' tail' with
  | some A, some B =>
    let rows := x.L.rows
    let cols := x.L.cols
    let lr := CrossCheck.validationRun V CP CP' (leftDataset rows cols A) (leftDataset rows cols B)
    some (fillOf F (dmapOfOut rows cols lr.1), fillOf F (dmapOfOut rows cols lr.2))
  | _, _ => none

/-- the cost rows of a chain as a volume of the confidence model -/
def volumeOf (rows cols : Nat) (R : Nat → Nat → List Val) : Confidence.Volume := Blocks.tabulate rows cols R

/-- the band of a `cost_volume_confidence` step with method `ambiguity` on the cost rows entering winner-takes-all
    (the step writes a band and nothing else: the later stages of the run do not depend on it) -/
def ambiguityOf (etas : List Rat) (normalization : Bool) (x : MC.Input) (R : Nat → Nat → List Val) :
    Option (Grid Val) :=
  Confidence.ambiguityBand etas normalization 1 (volumeOf x.L.rows x.L.cols R)

/-! ## the memoised evaluation the driver uses: every stage is tabulated on the image once and read back
    (`Properties/C13RunMemo.lean`: it equals the literal run) -/

/-- the two maps tabulated on the `rows × cols` image and read back (outside the image: NaN / 0) -/
def Maps.memo (rows cols : Nat) (m : Maps) : Maps :=
  let gd := Blocks.tabulate rows cols m.disp
  let gf := Blocks.tabulate rows cols m.flag
  ⟨fun r c => (gd.getD r []).getD c .nan, fun r c => (gf.getD r []).getD c 0⟩

/-- the tail with every intermediate map memoised -/
def afterTailMemoFrom (K : RunCfg) (x : MC.Input) (R : Nat → Nat → List Val) : List TailStep → Maps → Option Maps
  | [], m => some m
  | s :: rest, m =>
    ((tailStep K x R m s).map (Maps.memo x.L.rows x.L.cols)).bind (afterTailMemoFrom K x R rest)

def afterTailMemo (K : RunCfg) (x : MC.Input) (R : Nat → Nat → List Val) (tail : List TailStep) : Option Maps :=
  afterTailMemoFrom K x R tail (Maps.memo x.L.rows x.L.cols ⟨wtaMapR K x R, C04C02.composedMask x⟩)

/-- `extRunR` on the memoised tails (the cross-checks and the filling are those of `extRunR`) -/
def extRunMemo (K K' : RunCfg) (tail tail' : List TailStep) (V : CrossCheck.Variant) (CP CP' : CrossCheck.Params)
    (F : FillCfg) (x : MC.Input) (R R' : Nat → Nat → List Val) : Option (Interp.DMap × Interp.DMap) :=
  match afterTailMemo K x R tail, afterTailMemo K' (swapInput x) R' tail' with
  | some A, some B =>
    let rows := x.L.rows
    let cols := x.L.cols
    let lr := CrossCheck.validationRun V CP CP' (leftDataset rows cols A) (leftDataset rows cols B)
    some (fillOf F (dmapOfOut rows cols lr.1), fillOf F (dmapOfOut rows cols lr.2))
  | _, _ => none

/-- the two bands (risk_max, risk_min) of a `cost_volume_confidence` step with method `risk` on the cost rows -/
def riskOf (etas : List Rat) (x : MC.Input) (R : Nat → Nat → List Val) : Option (Grid (Val × Val)) :=
  Confidence.computeRisk etas (volumeOf x.L.rows x.L.cols R)

/-- the two bands (inf, sup) of a `cost_volume_confidence` step with method `interval_bounds` (no regularization) for a
    "min" measure, possibility threshold `thr`, on the cost rows; `disps`: the disparity samples -/
def boundsOf (thr : Rat) (disps : List Rat) (x : MC.Input) (R : Nat → Nat → List Val) : Option (Grid (Val × Val)) :=
  Confidence.computeBounds false thr disps (volumeOf x.L.rows x.L.cols R)

/-! ## the two-scale run: coarse chain, next-level interval grids (C15), fine chain on per-pixel grids -/

/-- an interval grid of the multiscale model as a per-pixel grid of the matching-cost input (0 outside, NaN never
    occurs: `nextLevelGrids` puts the user interval on border and invalid pixels) -/
def gridFn (g : Grid Val) : Int → Int → Int := fun r c =>
  if r < 0 ∨ c < 0 then 0
  else match (g.getD r.toNat []).getD c.toNat .nan with
    | .num q => q.floor
    | .nan => 0

/-- the fine-level input: the fine images with the per-pixel interval grids computed from the coarse level -/
def fineInputOf (xf : MC.Input) (g : Grid Val × Grid Val) : MC.Input :=
  { xf with dminG := gridFn g.1, dmaxG := gridFn g.2 }

/-- **Two scales** (`multiscale` with `fixed_zoom_pyramid`, `num_scales = 2`): the coarse chain `matching cost →
    winner-takes-all → tail` on the coarse pair `xc` (its images are an input: the Gaussian pyramid is not modelled), the
    interval grids of the next level (`Multiscale.nextLevelGrids`, C15: window min − marge / max + marge of the valid
    coarse disparities, user interval elsewhere, `zoom(order = 0)`, times the factor, cropped to the fine image), then the
    same chain on the fine pair with these per-pixel grids (`mkK`: the configuration of a chain from its input — the
    disparity samples depend on the global range of the grids).  Result: coarse maps, grids, fine input, fine maps. -/
def twoScaleRun (mkK : MC.Input → RunCfg) (tail : MC.Input → List TailStep) (marge f : Nat) (umin umax : Rat)
    (xc xf : MC.Input) : Option (Maps × (Grid Val × Grid Val) × MC.Input × Option Maps) :=
  (afterTailMemo (mkK xc) xc (costRow (mkK xc) xc) (tail xc)).map fun mc =>
    let g := Multiscale.nextLevelGrids (Blocks.tabulate xc.L.rows xc.L.cols mc.disp)
      (Blocks.tabulate xc.L.rows xc.L.cols mc.flag) xc.w marge f umin umax xf.L.rows xf.L.cols
    let xf' := fineInputOf xf g
    (mc, g, xf', afterTailMemo (mkK xf') xf' (costRow (mkK xf') xf') (tail xf'))

/-! ## decidable forms of the hypotheses of `run_crop_eq_whole` (new; `Properties/C13RunBool.lean` proves that they
    imply the hypotheses) -/

/-- `McOK` for the measures whose costs are exact numbers (sad, ssd, census): C02's `wfShape`; zncc is refused (its
    hypothesis `noTinyVariance` quantifies over every disparity) -/
def mcOKB (x : MC.Input) : Bool := wfShape x && (x.meas != .zncc)

/-- `MedianOK`: block loops starting at `fs / 2`, odd size that fits the image -/
def medianOKB (K : RunCfg) (x : MC.Input) : Bool :=
  decide (K.sM.beginY = K.fs / 2) && decide (K.sM.beginX = K.fs / 2) && decide (K.fs % 2 = 1) &&
    decide (K.fs ≤ x.L.rows) && decide (K.fs ≤ x.L.cols)

/-- `RunOK` -/
def runOKB (K K' : RunCfg) (x : MC.Input) : Bool :=
  mcOKB x && mcOKB (swapInput x) &&
    decide (K.sW.beginY = 0) && decide (K.sW.beginX = 0) && decide (K'.sW.beginY = 0) && decide (K'.sW.beginX = 0) &&
    (!K.doMedian || medianOKB K x) && (!K'.doMedian || medianOKB K' (swapInput x))

def paramsEqB (p q : McParams) : Bool :=
  p.meas == q.meas && decide (p.w = q.w) && decide (p.sp = q.sp) && (p.presentL == q.presentL) &&
    decide (p.validL = q.validL) && decide (p.nodataL = q.nodataL) && (p.presentR == q.presentR) &&
    decide (p.validR = q.validR) && decide (p.nodataR = q.nodataR)

def cellEqB (a b : McCell) : Bool :=
  decide (a.l = b.l) && decide (a.r = b.r) && decide (a.ml = b.ml) && decide (a.mr = b.mr) &&
    decide (a.dmin = b.dmin) && decide (a.dmax = b.dmax)

/-- `CropRun x x' r0 c0` -/
def cropRunB (x x' : MC.Input) (r0 c0 : Nat) : Bool :=
  paramsEqB (paramsOf x') (paramsOf x) &&
    ((List.range x'.L.rows).all fun r => (List.range x'.L.cols).all fun c =>
      cellEqB (mcScene x' r c) (mcScene x (r + r0) (c + c0))) &&
    decide (r0 + x'.L.rows ≤ x.L.rows) && decide (c0 + x'.L.cols ≤ x.L.cols) &&
    decide (gminOf x' = gminOf x) && decide (gmaxOf x' = gmaxOf x) &&
    decide (gminOf (swapInput x') = gminOf (swapInput x)) && decide (gmaxOf (swapInput x') = gmaxOf (swapInput x))

/-- the documented cone of a run without aggregation whose two sides share window and (median) filter size, the right
    interval being the mirrored left one and cross-checking searching `[CP.dmin, CP.dmax]` with border offset
    `CP.offset`: rows within `w/2 + fs/2 + offset`; columns within `w/2 + fs/2`, extended by the interval once for the
    pipeline and once more (or by the offset) for cross-checking (`docCone_bounds` in `Properties/C13RunBool.lean`) -/
def docCone (K : RunCfg) (CP : CrossCheck.Params) (x : MC.Input) : Cone :=
  let m := if K.doMedian then K.fs / 2 else 0
  ⟨MC.half x.w + m + CP.offset, MC.half x.w + m + CP.offset,
   MC.half x.w + m + max (-gminOf x).toNat (gmaxOf x).toNat + max CP.offset (-CP.dmin).toNat,
   MC.half x.w + m + max (-gminOf x).toNat (gmaxOf x).toNat + max CP.offset CP.dmax.toNat⟩

/-- side conditions under which `docCone` bounds the cone of the run -/
def docConeOKB (K K' : RunCfg) (x : MC.Input) : Bool :=
  (K'.doMedian == K.doMedian) && decide (MC.half (swapInput x).w = MC.half x.w) && decide (K'.fs = K.fs) &&
    decide (gminOf (swapInput x) = -gmaxOf x) && decide (gmaxOf (swapInput x) = -gminOf x)

/-- the cone `R` of whole-image pixel `(r + r0, c + c0)`, clipped to the `rows × cols` image, lies in the crop
    `[r0, r0 + rows') × [c0, c0 + cols')` -/
def coneInCropB (R : Cone) (rows cols r0 c0 rows' cols' r c : Nat) : Bool :=
  decide (r0 ≤ r + r0 - R.up) && decide (min (r + r0 + R.down) (rows - 1) < r0 + rows') &&
    decide (c0 ≤ c + c0 - R.left) && decide (min (c + c0 + R.right) (cols - 1) < c0 + cols')

end Pandora.C13
