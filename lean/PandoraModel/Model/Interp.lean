/-
  C14 — occlusion / mismatch filling (pandora/validation/interpolated_disparity.py,
  `find_valid_neighbors` of pandora/img_tools.py, `mask_border` of pandora/criteria.py).

  Part 1: the executable MODEL.  It follows the code: the same loops, the same index arithmetic
  (reversed mask + `argmax`, `range(1, max_path_length)`, `int(dir * i)`, accumulated `tmp += dir`), the
  same accumulators and guards, the same `-=` then `+=` / `|=` on the flag word, `nanmedian`, `argsort` with
  NaN last, the same order of the two passes.  It is parametrised by the text of the kernels (`Variant`:
  with / without the guards of e1d31ca, `+=` / `|=` of 7723010); the variant of the current source is read
  by the translator.

  Part 2: the executable SPECIFICATION, written from the property statement: a relation between the map
  before and after filling, clause by clause, in terms of "first valid pixel on a ray" (a list cut where it
  leaves the image, then searched), "nearest valid pixel on the left / right", bit replacement, and
  "between two valid disparities of the input map".

  Conventions.  A map has `rows × cols` pixels, `r` indexes the first numpy axis and `c` the second one
  (the numba kernels call them `col` and `row`: `ncol, nrow = disp.shape`).  Core Lean only.
-/
import PandoraModel.Model.Basic
import PandoraModel.Model.Flags

namespace Pandora.Interp
open Pandora Pandora.Flags

/-- Disparity map and validity mask as index functions with explicit dimensions. -/
structure DMap where
  rows : Nat
  cols : Nat
  disp : Nat → Nat → Val
  flag : Nat → Nat → Nat

/-- `(valid[r, c] & PANDORA_MSK_PIXEL_INVALID) == 0` -/
def DMap.valid (m : DMap) (r c : Nat) : Bool := (m.flag r c &&& pixelInvalid) == 0

/-- not `(tmp_col < 0) | (tmp_col >= ncol) | (tmp_row < 0) | (tmp_row >= nrow)` -/
def DMap.inside (m : DMap) (p : Int × Int) : Bool :=
  decide (0 ≤ p.1) && decide (p.1 < m.rows) && decide (0 ≤ p.2) && decide (p.2 < m.cols)

def DMap.validAt (m : DMap) (p : Int × Int) : Bool := m.valid p.1.toNat p.2.toNat
def DMap.dispAt (m : DMap) (p : Int × Int) : Val := m.disp p.1.toNat p.2.toNat

inductive Method where
  | mccnn
  | sgm
  deriving DecidableEq, Repr

/-! ## Part 1 — model -/

/-- the operator with which the kernels raise the new bit: `+=` (before 7723010) or `|=` -/
inductive RaiseOp where
  | add
  | or
  deriving DecidableEq, Repr

/-- Which text of the kernels is modelled.  `guard`: the accumulator of the mc-cnn mismatch kernel starts
    at NaN and a flagged pixel is filled only when enough finite sources are in sight (since e1d31ca);
    without it the accumulator starts at 0 (`np.zeros`) and every flagged pixel is "filled".
    `op`: `out_val[col, row] += NEW` or `out_val[col, row] |= NEW` (since 7723010).
    The variant of the current source is read by the translator (`Generated/Interp.lean`). -/
structure Variant where
  guard : Bool
  op : RaiseOp
  deriving DecidableEq, Repr

/-- `g += new` / `g |= new` -/
def raise (op : RaiseOp) (g new : Nat) : Nat :=
  match op with
  | .add => g + new
  | .or => g ||| new

/-- `np.argmax` of a boolean vector: index of the first `True`, 0 when there is none. -/
def argmaxBool (l : List Bool) : Nat :=
  let i := l.findIdx (fun b => b)
  if i < l.length then i else 0

def b2n (b : Bool) : Nat := if b then 1 else 0

/-- the search of `interpolate_occlusion_mc_cnn` for a pixel carrying bit 8: the disparity it copies and
    `msk[arg_valid]` (whether a valid pixel was found) -/
def occlMcCore (m : DMap) (r c : Nat) : Val × Bool :=
  -- msk = (valid[col, 0 : row + 1] & INVALID) == 0 ; msk = msk[::-1] ; arg_valid = np.argmax(msk)
  let mskL := ((List.range (c + 1)).map fun j => m.valid r j).reverse
  let a := argmaxBool mskL
  if a == 0 then
    -- msk = (valid[col, row:] & INVALID) == 0 ; arg_valid = np.argmax(msk)
    let mskR := (List.range (m.cols - c)).map fun k => m.valid r (c + k)
    let a := argmaxBool mskR
    (m.disp r (c + a), mskR.getD a false)
  else
    (m.disp r (c - a), mskL.getD a false)

/-- one pixel of `interpolate_occlusion_mc_cnn`:
    `out_val -= OCCLUSION * msk[arg_valid]` then `out_val (+=|‖=) FILLED_OCCLUSION * msk[arg_valid]` -/
def occlMcPixel (v : Variant) (m : DMap) (r c : Nat) : Val × Nat :=
  let f := m.flag r c
  if (f &&& occlusion) != 0 then
    let p := occlMcCore m r c
    let b := b2n p.2
    (p.1, raise v.op (f - occlusion * b) (filledOcclusion * b))
  else (m.disp r c, f)

/-- a kernel applied to every pixel (each kernel reads its inputs and writes copies) -/
def lift (k : DMap → Nat → Nat → Val × Nat) (m : DMap) : DMap :=
  { m with disp := fun r c => (k m r c).1, flag := fun r c => (k m r c).2 }

def occlMc (v : Variant) : DMap → DMap := lift (occlMcPixel v)

/-- The 16 directions of `interpolate_mismatch_mc_cnn`, doubled so that they are integers:
    `(2·dirs[k][0], 2·dirs[k][1])`; the first component moves the second array index. -/
def dirs16 : List (Int × Int) :=
  [(0, 2), (-1, 2), (-2, 2), (-2, 1), (-2, 0), (-2, -1), (-2, -2), (-1, -2),
   (0, -2), (1, -2), (2, -2), (2, -1), (2, 0), (2, 1), (2, 2), (1, 2)]

/-- Python `int(dirs[k][j] * i)` with `dirs[k][j] = n/2`: truncation toward zero. -/
def truncHalf (n : Int) (i : Nat) : Int := Int.tdiv (n * (i : Int)) 2

/-- `(tmp_col, tmp_row)` of the mc-cnn scan = (first index, second index) at step `i` -/
def posMc (r c : Nat) (d : Int × Int) (i : Nat) : Int × Int :=
  ((r : Int) + truncHalf d.2 i, (c : Int) + truncHalf d.1 i)

/-- `for i in range(i, i + fuel): … break` over the positions `pos i`, writing into an accumulator
    cell initialised with `init`: NaN when the edge is reached, the disparity of the first valid pixel,
    and `init` when the loop runs to its end. -/
def scanLoop (init : Val) (m : DMap) (pos : Nat → Int × Int) : (fuel i : Nat) → Val
  | 0, _ => init
  | fuel + 1, i =>
    if !m.inside (pos i) then .nan
    else if m.validAt (pos i) then m.dispAt (pos i)
    else scanLoop init m pos fuel (i + 1)

/-- non-NaN entries -/
def nums : List Val → List Rat
  | [] => []
  | .nan :: t => nums t
  | .num q :: t => q :: nums t

def leRat (a b : Rat) : Bool := decide (a ≤ b)

/-- insertion of `x` before the first entry it may precede -/
def ins {α} (le : α → α → Bool) (x : α) : List α → List α
  | [] => [x]
  | y :: t => if le x y then x :: y :: t else y :: ins le x t

/-- stable insertion sort (structural recursion, so that concrete instances can be decided) -/
def isort {α} (le : α → α → Bool) : List α → List α
  | [] => []
  | x :: t => ins le x (isort le t)

/-- median of a sorted list of numbers (NaN for the empty list): the middle one, or the mean of the
    two middle ones -/
def medianSorted (s : List Rat) : Val :=
  let n := s.length
  if n = 0 then .nan
  else if n % 2 = 1 then .num (s.getD (n / 2) 0)
  else .num ((s.getD (n / 2 - 1) 0 + s.getD (n / 2) 0) / 2)

def median (l : List Rat) : Val := medianSorted (isort leRat l)

/-- `np.nanmedian` -/
def nanmedian (l : List Val) : Val := median (nums l)

/-- one pixel of `interpolate_mismatch_mc_cnn` -/
def mismMcPixel (v : Variant) (m : DMap) (r c : Nat) : Val × Nat :=
  let f := m.flag r c
  if (f &&& mismatch) != 0 then
    let maxPathLength := max m.cols m.rows
    -- interp_mismatched = np.full(16, np.nan) (guard) / np.zeros(16)
    let init : Val := if v.guard then .nan else .num 0
    let interp := dirs16.map fun d => scanLoop init m (posMc r c d) (maxPathLength - 1) 1
    -- if np.isfinite(interp_mismatched).any():
    if v.guard && (nums interp).isEmpty then (m.disp r c, f)
    else (nanmedian interp, raise v.op (f - mismatch) filledMismatch)
  else (m.disp r c, f)

def mismMc (v : Variant) : DMap → DMap := lift (mismMcPixel v)

/-- border of width `off` (`mask_border`: the four slice assignments) -/
def isBorder (m : DMap) (off r c : Nat) : Bool :=
  decide (r < off) || decide (m.rows ≤ r + off) || decide (c < off) || decide (m.cols ≤ c + off)

/-- `if left.attrs["offset_row_col"] > 0: left["validity_mask"] = mask_border(left)` -/
def maskBorder (off : Nat) (m : DMap) : DMap :=
  { m with flag := fun r c => if off > 0 && isBorder m off r c then leftNodataOrBorder else m.flag r c }

/-- `McCnnInterpolation.interpolated_disparity` -/
def mccnn (v : Variant) (off : Nat) (m : DMap) : DMap := maskBorder off (mismMc v (occlMc v m))

/-- The 8 directions of the sgm kernels `[row, col]`; the first component moves the second index. -/
def dirs8 : List (Int × Int) :=
  [(0, 1), (-1, 1), (-1, 0), (-1, -1), (0, -1), (1, -1), (1, 0), (1, 1)]

/-- inner loop of `find_valid_neighbors`: `tmp_row += d[0]; tmp_col += d[1]` then the two tests -/
def scanAcc (m : DMap) (d : Int × Int) : (fuel : Nat) → (p : Int × Int) → Val
  | 0, _ => .num 0
  | fuel + 1, p =>
    let p' : Int × Int := (p.1 + d.2, p.2 + d.1)
    if !m.inside p' then .nan
    else if m.validAt p' then m.dispAt p'
    else scanAcc m d fuel p'

/-- `find_valid_neighbors(dirs, disp, valid, row, col)` -/
def findValidNeighbors (m : DMap) (r c : Nat) : List Val :=
  dirs8.map fun d => scanAcc m d (max m.cols m.rows) ((r : Int), (c : Int))

/-- `np.sum(valid[max(0,col-1) : min(ncol-1,col+1)+1, max(0,row-1) : min(nrow-1,row+1)+1] & OCCLUSION)` -/
def occlusionSum3x3 (m : DMap) (r c : Nat) : Nat :=
  let rs := List.range' (r - 1) (min (m.rows - 1) (r + 1) + 1 - (r - 1))
  let cs := List.range' (c - 1) (min (m.cols - 1) (c + 1) + 1 - (c - 1))
  (rs.map fun r' => (cs.map fun c' => m.flag r' c' &&& occlusion).sum).sum

/-- one pixel of `interpolate_mismatch_sgm` -/
def mismSgmPixel (v : Variant) (m : DMap) (r c : Nat) : Val × Nat :=
  let f := m.flag r c
  if (f &&& mismatch) != 0 then
    if occlusionSum3x3 m r c != 0 then (m.disp r c, raise v.op (f - mismatch) occlusion)
    else
      let vn := findValidNeighbors m r c
      -- if np.isfinite(valid_neighbors).any():
      if v.guard && (nums vn).isEmpty then (m.disp r c, f)
      else (nanmedian vn, raise v.op (f - mismatch) filledMismatch)
  else (m.disp r c, f)

def mismSgm (v : Variant) : DMap → DMap := lift (mismSgmPixel v)

/-- `np.abs` -/
def absQ (q : Rat) : Rat := if q < 0 then -q else q

/-- order used by numba's `argsort` on `np.abs(valid_neighbors)`:
    `a < b or (isnan(b) and not isnan(a))`, written as the non-strict "a may stay before b" -/
def absLe : Val → Val → Bool
  | .num a, .num b => decide (absQ a ≤ absQ b)
  | .num _, .nan => true
  | .nan, .num _ => false
  | .nan, .nan => true

/-- `valid_neighbors[np.argsort(np.abs(valid_neighbors))[1]]`  (argsort on 8 entries is a stable
    insertion sort, NaN last: the values themselves are sorted by `|·|`, stably) -/
def secondLowestAbs (vn : List Val) : Val := (isort absLe vn).getD 1 .nan

/-- one pixel of `interpolate_occlusion_sgm` -/
def occlSgmPixel (v : Variant) (m : DMap) (r c : Nat) : Val × Nat :=
  let f := m.flag r c
  if (f &&& occlusion) != 0 then
    let vn := findValidNeighbors m r c
    -- if np.sum(np.isfinite(valid_neighbors)) >= 2:
    if v.guard && (nums vn).length < 2 then (m.disp r c, f)
    else (secondLowestAbs vn, raise v.op (f - occlusion) filledOcclusion)
  else (m.disp r c, f)

def occlSgm (v : Variant) : DMap → DMap := lift (occlSgmPixel v)

/-- `SgmInterpolation.interpolated_disparity` (no `mask_border` there) -/
def sgm (v : Variant) (m : DMap) : DMap := occlSgm v (mismSgm v m)

def interpolate (v : Variant) (meth : Method) (off : Nat) (m : DMap) : DMap :=
  match meth with
  | .mccnn => mccnn v off m
  | .sgm => sgm v m

def firstPass (v : Variant) (meth : Method) (a : DMap) : DMap :=
  match meth with
  | .mccnn => occlMc v a
  | .sgm => mismSgm v a

/-! ## Part 2 — specification (from the property statement) -/

/-- bit `old` replaced by bit `new`, every other bit kept -/
def replaceBit (f old new : Nat) : Nat := (f ^^^ (f &&& old)) ||| new

def flagged (f : Nat) : Bool := hasBit f occlusion || hasBit f mismatch

/-- The pixels met when walking from a pixel along `pos 1, pos 2, …` until the image is left
    (no ray is longer than `max rows cols` steps, see `Properties/C14.lean: ray_leaves_*`). -/
def rayPts (m : DMap) (pos : Nat → Int × Int) : List (Int × Int) :=
  ((List.range' 1 (max m.cols m.rows)).map pos).takeWhile m.inside

/-- disparity of the first valid pixel of a list of pixels -/
def firstValid (m : DMap) (pts : List (Int × Int)) : Option Val :=
  (pts.find? m.validAt).map m.dispAt

def posSgm (r c : Nat) (d : Int × Int) (i : Nat) : Int × Int :=
  ((r : Int) + d.2 * (i : Int), (c : Int) + d.1 * (i : Int))

/-- disparities of the first valid pixels seen from `(r, c)` along the 16 mc-cnn directions -/
def sourcesMc (m : DMap) (r c : Nat) : List Val :=
  dirs16.filterMap fun d => firstValid m (rayPts m (posMc r c d))

/-- … along the 8 sgm directions -/
def sourcesSgm (m : DMap) (r c : Nat) : List Val :=
  dirs8.filterMap fun d => firstValid m (rayPts m (posSgm r c d))

/-- pixels of row `r` left of `c`, nearest first -/
def leftPts (r c : Nat) : List (Int × Int) := (List.range c).reverse.map fun (j : Nat) => ((r : Int), (j : Int))
/-- pixels of row `r` right of `c`, nearest first -/
def rightPts (m : DMap) (r c : Nat) : List (Int × Int) :=
  (List.range' (c + 1) (m.cols - (c + 1))).map fun (j : Nat) => ((r : Int), (j : Int))

/-- mc-cnn occlusion source: the nearest valid pixel on the left, otherwise on the right -/
def sourceOcclMc (m : DMap) (r c : Nat) : Option Val :=
  match firstValid m (leftPts r c) with
  | some v => some v
  | none => firstValid m (rightPts m r c)

/-- some pixel of the 3×3 neighbourhood (clipped to the image) is an occlusion -/
def touchesOcclusion (m : DMap) (r c : Nat) : Bool :=
  (List.range m.rows).any fun r' => (List.range m.cols).any fun c' =>
    decide (r' ≤ r + 1) && decide (r ≤ r' + 1) && decide (c' ≤ c + 1) && decide (c ≤ c' + 1)
      && hasBit (m.flag r' c') occlusion

/-- `q` lies between two disparities of valid pixels of the (input) map -/
def betweenValid (a : DMap) (q : Rat) : Bool :=
  ((List.range a.rows).any fun r => (List.range a.cols).any fun c =>
      a.valid r c && (match a.disp r c with | .num v => decide (v ≤ q) | .nan => false))
  && ((List.range a.rows).any fun r => (List.range a.cols).any fun c =>
      a.valid r c && (match a.disp r c with | .num v => decide (q ≤ v) | .nan => false))

/-- `x` is an entry of second-smallest absolute value: at most one entry is strictly smaller in
    absolute value, at least two are not larger -/
def isSecondLowestAbs (l : List Rat) (x : Rat) : Bool :=
  l.contains x && decide ((l.countP fun y => decide (absQ y < absQ x)) ≤ 1)
    && decide (2 ≤ (l.countP fun y => decide (absQ y ≤ absQ x)))

/-- How a flagged pixel is handled, read off the input: `occl` = filled as an occlusion. -/
inductive Kind where
  | none        -- neither bit 8 nor bit 9
  | occl        -- bit 8
  | mism        -- bit 9 (filled as a mismatch)
  | mismAsOccl  -- sgm: bit 9 touching an occlusion, handled as an occlusion
  deriving DecidableEq, Repr

def kindOf (meth : Method) (a : DMap) (r c : Nat) : Kind :=
  let f := a.flag r c
  if hasBit f occlusion then .occl
  else if hasBit f mismatch then
    (match meth with
     | .mccnn => .mism
     | .sgm => if touchesOcclusion a r c then .mismAsOccl else .mism)
  else .none

/-- The map as it stands between the two passes, read off the input `a` and the final output `b`:
    mc-cnn fills occlusions first, so occlusion pixels already carry their final value when mismatches
    are filled; sgm treats mismatches first (those touching an occlusion only change flag). -/
def midOf (meth : Method) (a b : DMap) : DMap :=
  match meth with
  | .mccnn =>
    { a with disp := fun r c => if hasBit (a.flag r c) occlusion then b.disp r c else a.disp r c,
             flag := fun r c => if hasBit (a.flag r c) occlusion then b.flag r c else a.flag r c }
  | .sgm =>
    { a with disp := fun r c => if kindOf .sgm a r c = .mism then b.disp r c else a.disp r c,
             flag := fun r c =>
               match kindOf .sgm a r c with
               | .mism => b.flag r c
               | .mismAsOccl => replaceBit (a.flag r c) mismatch occlusion
               | _ => a.flag r c }

/-- the disparities a flagged pixel may be filled from (finite ones), per method and kind -/
def sourcesOf (meth : Method) (a b : DMap) (r c : Nat) : List Rat :=
  match meth, kindOf meth a r c with
  | _, .none => []
  | .mccnn, .occl => nums (sourceOcclMc a r c).toList
  | .mccnn, _ => nums (sourcesMc (midOf .mccnn a b) r c)
  | .sgm, .mism => nums (sourcesSgm a r c)
  | .sgm, _ => nums (sourcesSgm (midOf .sgm a b) r c)

/-- the flag word of a filled pixel: bit 8 replaced by 4, bit 9 by 5 (by 4 when sgm handled the
    mismatch as an occlusion) -/
def filledFlag (k : Kind) (f : Nat) : Nat :=
  match k with
  | .none => f
  | .occl => replaceBit f occlusion filledOcclusion
  | .mism => replaceBit f mismatch filledMismatch
  | .mismAsOccl => replaceBit f mismatch filledOcclusion

/-- the flag word of a flagged pixel that could not be filled -/
def unfilledFlag (k : Kind) (f : Nat) : Nat :=
  match k with
  | .mismAsOccl => replaceBit f mismatch occlusion
  | _ => f

/-- enough sources to fill: sgm occlusions take the second lowest, so they need two -/
def enoughSources (meth : Method) (k : Kind) (n : Nat) : Bool :=
  match meth, k with
  | .sgm, .occl => decide (2 ≤ n)
  | .sgm, .mismAsOccl => decide (2 ≤ n)
  | _, _ => decide (1 ≤ n)

/-- the disparity a filled pixel must carry, given its sources -/
def valueOK (meth : Method) (k : Kind) (src : List Rat) (v : Val) : Bool :=
  match v with
  | .nan => false
  | .num q =>
    match meth, k with
    | _, .none => true
    | .mccnn, .occl => src.head? == some q
    | _, .mism => median src == .num q
    | .mccnn, .mismAsOccl => false
    | .sgm, _ => isSecondLowestAbs src q || (decide (src.length = 1) && src.contains q)

structure Clause where
  name : String
  applies : Bool
  holds : Bool

/-- what every clause looks at: the pixel before / after, its kind, its sources -/
structure View where
  f : Nat          -- flag word before
  g : Nat          -- flag word after
  din : Val        -- disparity before
  dout : Val       -- disparity after
  k : Kind
  src : List Rat
  border : Bool    -- inside the border of width `offset_row_col > 0`

def viewAt (meth : Method) (off : Nat) (a b : DMap) (r c : Nat) : View :=
  { f := a.flag r c, g := b.flag r c, din := a.disp r c, dout := b.disp r c,
    k := kindOf meth a r c, src := sourcesOf meth a b r c,
    border := decide (off > 0) && isBorder a off r c }

/-- the pixel was flagged and is not any more -/
def View.filled (v : View) : Bool := flagged v.f && !flagged v.g

/-- only pixels flagged 8 or 9 can change: every other pixel keeps disparity and flags bit for bit -/
def cUnflagged (v : View) : Clause :=
  { name := "unflagged_untouched", applies := !flagged v.f, holds := v.dout == v.din && v.g == v.f }

/-- a flagged pixel ends with bit 8 replaced by 4 / bit 9 by 5 (sgm: 9 by 4 through 8), or as it was -/
def cFilledBits (v : View) : Clause :=
  { name := "filled_bits", applies := flagged v.f && !v.border,
    holds := v.g == filledFlag v.k v.f || v.g == unfilledFlag v.k v.f }

/-- a filled pixel has a finite disparity -/
def cFilledFinite (v : View) : Clause :=
  { name := "filled_finite", applies := v.filled && !v.border, holds := v.dout.isNum }

/-- … taken from, or the median of, the valid pixels found along the scan directions -/
def cFilledFromValid (meth : Method) (v : View) : Clause :=
  { name := "filled_from_valid", applies := v.filled && !v.border && v.dout.isNum,
    holds := valueOK meth v.k v.src v.dout }

/-- … hence between the smallest and the largest valid disparity of the map -/
def cFilledBetween (a : DMap) (v : View) : Clause :=
  { name := "filled_between_min_max", applies := v.filled && !v.border && v.dout.isNum,
    holds := betweenValid a v.dout.get }

/-- a flagged pixel for which no valid pixel can be found stays flagged invalid -/
def cNoSource (v : View) : Clause :=
  { name := "no_source_stays_invalid", applies := flagged v.f && !v.border && v.src.isEmpty,
    holds := isInvalid v.g && flagged v.g }

/-- (not in the statement, documented behaviour) a flagged pixel with enough sources is filled -/
def cFilledWhenSource (meth : Method) (v : View) : Clause :=
  { name := "filled_when_source", applies := flagged v.f && !v.border && enoughSources meth v.k v.src.length,
    holds := !flagged v.g }

/-- sgm: a mismatch is handled as an occlusion exactly when it touches one -/
def cSgmMismatch (meth : Method) (touches : Bool) (v : View) : Clause :=
  { name := "sgm_mismatch_to_occlusion",
    applies := decide (meth = .sgm) && hasBit v.f mismatch && !hasBit v.f occlusion && !v.border,
    holds := if touches
             then v.g == replaceBit v.f mismatch occlusion || v.g == replaceBit v.f mismatch filledOcclusion
             else v.g == v.f || v.g == replaceBit v.f mismatch filledMismatch }

/-- border pixels end with bit 0 only -/
def cBorder (v : View) : Clause :=
  { name := "border_bit0_only", applies := v.border, holds := v.g == leftNodataOrBorder }

def Clause.ok (cl : Clause) : Bool := !cl.applies || cl.holds

/-- All clauses of C14 at pixel `(r, c)`: `a` = map before filling, `b` = map after. -/
def clausesAt (meth : Method) (off : Nat) (a b : DMap) (r c : Nat) : List Clause :=
  let v := viewAt meth off a b r c
  [cUnflagged v, cFilledBits v, cFilledFinite v, cFilledFromValid meth v, cFilledBetween a v, cNoSource v,
   cFilledWhenSource meth v, cSgmMismatch meth (touchesOcclusion a r c) v, cBorder v]

def pixelOK (meth : Method) (off : Nat) (a b : DMap) (r c : Nat) : Bool :=
  (clausesAt meth off a b r c).all Clause.ok

/-- the specification of C14 on a whole map -/
def spec (meth : Method) (off : Nat) (a b : DMap) : Bool :=
  decide (b.rows = a.rows) && decide (b.cols = a.cols) &&
  (List.range a.rows).all fun r => (List.range a.cols).all fun c => pixelOK meth off a b r c

/-! ### well-formed inputs (maps as the cross-check leaves them) and the situations in which the
    code is known to fill from nothing (used as hypotheses of the `…_partial` theorems and as the
    `trigger` of the known findings) -/

def allPx (a : DMap) (p : Nat → Nat → Bool) : Bool :=
  (List.range a.rows).all fun r => (List.range a.cols).all fun c => p r c

/-- every valid pixel carries a finite disparity -/
def validFinite (a : DMap) : Bool := allPx a fun r c => !a.valid r c || (a.disp r c).isNum

/-- never both bit 8 and bit 9 (the cross-check sets one of them on a valid pixel, and never
    re-examines an invalid one) -/
def oneFlag (a : DMap) : Bool :=
  allPx a fun r c => !(hasBit (a.flag r c) occlusion && hasBit (a.flag r c) mismatch)

/-- a flagged pixel does not already carry the "filled" bit it is about to receive (it would, after a
    previous validation step with filling).  Needed only for the `+=` form of the kernels, where the addition
    then carries into the next bit (finding F4, repaired by 7723010). -/
def noStaleFill (meth : Method) (a : DMap) : Bool :=
  allPx a fun r c =>
    let f := a.flag r c
    (!hasBit f occlusion || !hasBit f filledOcclusion)
    && (!hasBit f mismatch || !hasBit f filledMismatch)
    && (!(decide (meth = .sgm) && hasBit f mismatch) || !hasBit f filledOcclusion)

/-- border pixels carry bit 0 only (what `mask_border` left there) -/
def borderClean (off : Nat) (a : DMap) : Bool :=
  allPx a fun r c => !(decide (off > 0) && isBorder a off r c) || a.flag r c == leftNodataOrBorder

/-- maps as a cross-check leaves them (`noStaleFill` is demanded of the `+=` form only) -/
def wf (op : RaiseOp) (meth : Method) (off : Nat) (a : DMap) : Bool :=
  validFinite a && oneFlag a && (decide (op = .or) || noStaleFill meth a) && borderClean off a

/-- mc-cnn mismatch, direction `d`: every one of the `max(rows, cols) − 1` steps stays inside the
    image on an invalid pixel: the loop ends without `break` and the initial value of the accumulator is
    used (the 0 of `np.zeros` before e1d31ca, finding F6b) -/
def runOff (m : DMap) (r c : Nat) (d : Int × Int) : Bool :=
  (List.range' 1 (max m.cols m.rows - 1)).all fun i => m.inside (posMc r c d i) && !m.validAt (posMc r c d i)

def anyRunOff (m : DMap) (r c : Nat) : Bool := dirs16.any fun d => runOff m r c d

/-- a name for the situation of pixel `(r, c)` of the input `a` (`mid` = the model's map after the first
    pass), "" when there is nothing special: used as `trigger` tag of reported failures and to count the
    input distribution.  The first four are the situations in which the unguarded kernels filled from nothing. -/
def triggerAt (meth : Method) (a mid : DMap) (r c : Nat) : String :=
  let f := a.flag r c
  if !flagged f then ""
  else if hasBit f occlusion && hasBit f mismatch then "both_bits_8_and_9"
  else if (hasBit f occlusion && hasBit f filledOcclusion) || (hasBit f mismatch && hasBit f filledMismatch)
      || (meth == .sgm && hasBit f mismatch && hasBit f filledOcclusion) then "filled_bit_already_set"
  else
    match meth, kindOf meth a r c with
    | .mccnn, .mism =>
      if (nums (sourcesMc mid r c)).isEmpty then "mccnn_mismatch_no_valid_in_sight"
      else if anyRunOff mid r c then "mccnn_mismatch_path_ends_at_far_edge"
      else ""
    | .sgm, .mism => if (nums (sourcesSgm a r c)).isEmpty then "sgm_mismatch_no_valid_in_sight" else ""
    | .sgm, .occl => if (nums (sourcesSgm mid r c)).length < 2 then "sgm_occlusion_fewer_than_two_valid" else ""
    | .sgm, .mismAsOccl => if (nums (sourcesSgm mid r c)).length < 2 then "sgm_occlusion_fewer_than_two_valid" else ""
    | _, _ => ""

/-! ### `interpolate_nodata_sgm` of pandora/img_tools.py (same scan, used by the multiscale pyramid): every invalid pixel
    takes the median of its 8 neighbours in sight and the flag word `FILLED_NODATA` (no guard: NaN when nothing is in sight) -/

/-- one pixel of `interpolate_nodata_sgm(img, valid)`; `m.disp` is the image -/
def nodataSgmPixel (m : DMap) (r c : Nat) : Val × Nat :=
  if (m.flag r c &&& pixelInvalid) != 0 then (nanmedian (findValidNeighbors m r c), filledNodata)
  else (m.disp r c, m.flag r c)

end Pandora.Interp
