/-
  Locality vocabulary (core Lean only): images as partial functions on the integer grid, dependency
  cones, crops, translations, and *stencils* — steps whose output at a pixel is a function of the input
  values at fixed offsets from that pixel.
-/
namespace Pandora.Locality

abbrev Px := Int × Int

/-- an image: `none` outside the image -/
abbrev Img (α : Type) := Px → Option α

/-- dependency cone: rows within `up`/`down`, columns within `left`/`right` of the pixel -/
structure Cone where
  up : Nat
  down : Nat
  left : Nat
  right : Nat
  deriving Repr, DecidableEq

def Cone.add (a b : Cone) : Cone := ⟨a.up + b.up, a.down + b.down, a.left + b.left, a.right + b.right⟩
def Cone.sup (a b : Cone) : Cone := ⟨max a.up b.up, max a.down b.down, max a.left b.left, max a.right b.right⟩
def Cone.zero : Cone := ⟨0, 0, 0, 0⟩

def inCone (R : Cone) (p q : Px) : Prop :=
  p.1 - R.up ≤ q.1 ∧ q.1 ≤ p.1 + R.down ∧ p.2 - R.left ≤ q.2 ∧ q.2 ≤ p.2 + R.right

/-- the value of `f a` at `p` only depends on the values of `a` inside the cone of `p` -/
def Local {α β : Type} (R : Cone) (f : Img α → Img β) : Prop :=
  ∀ (a b : Img α) (p : Px), (∀ q, inCone R p q → a q = b q) → f a p = f b p

/-- keep the pixels of `S`, everything else becomes "outside the image" -/
def restrict {α : Type} (S : Px → Prop) [DecidablePred S] (a : Img α) : Img α :=
  fun q => if S q then a q else none

def shift {α : Type} (t : Px) (a : Img α) : Img α := fun q => a (q.1 + t.1, q.2 + t.2)

/-- the step does not look at absolute positions -/
def Equivariant {α β : Type} (f : Img α → Img β) : Prop := ∀ (t : Px) (a : Img α), f (shift t a) = shift t (f a)

/-- a step that reads its input at fixed offsets from the pixel -/
def stencil {α β : Type} (offs : List Px) (G : List (Option α) → Option β) : Img α → Img β :=
  fun a p => G (offs.map fun d => a (p.1 + d.1, p.2 + d.2))

/-- smallest cone containing the offsets -/
def coneOf (offs : List Px) : Cone :=
  offs.foldl (fun R d => ⟨max R.up (-d.1).toNat, max R.down d.1.toNat, max R.left (-d.2).toNat, max R.right d.2.toNat⟩) Cone.zero

/-- flip rows: `r ↦ -r` -/
def vflip {α : Type} (a : Img α) : Img α := fun q => a (-q.1, q.2)

end Pandora.Locality
