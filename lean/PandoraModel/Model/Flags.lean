/-
  Validity-mask bits as documented in docs/source/userguide/output.rst (hand-written specification
  values; `Properties/Flags.lean` proves that the constants regenerated from pandora/constants.py
  equal them).  Core Lean only.
-/
namespace Pandora.Flags

/-- bit 0: border of the left image, or nodata in the left window -/
def leftNodataOrBorder : Nat := 1
/-- bit 1: disparity range missing in the right image, or nodata in the right image -/
def rightNodataOrRangeMissing : Nat := 2
/-- bit 2 (information): disparity range incomplete (right image border reached) -/
def rightIncompleteRange : Nat := 4
/-- bit 3 (information): sub-pixel interpolation stopped -/
def stoppedInterpolation : Nat := 8
/-- bit 4 (information): filled occlusion -/
def filledOcclusion : Nat := 16
/-- bit 5 (information): filled mismatch -/
def filledMismatch : Nat := 32
/-- bit 6: invalidated by the left mask -/
def inValidityMaskLeft : Nat := 64
/-- bit 7: invalidated by the right mask -/
def inValidityMaskRight : Nat := 128
/-- bit 8: occlusion -/
def occlusion : Nat := 256
/-- bit 9: mismatch -/
def mismatch : Nat := 512
/-- bit 10 (information): filled nodata -/
def filledNodata : Nat := 1024
/-- bit 11 (information): interval regularised -/
def intervalRegularized : Nat := 2048

/-- bits that make a pixel invalid: 0, 1, 6, 7, 8, 9 -/
def pixelInvalid : Nat := 1 + 2 + 64 + 128 + 256 + 512

/-- `flag & PANDORA_MSK_PIXEL_INVALID != 0` -/
def isInvalid (flag : Nat) : Bool := (flag &&& pixelInvalid) != 0

def hasBit (flag bit : Nat) : Bool := (flag &&& bit) != 0

end Pandora.Flags
