/-
  What "no result depends on thread scheduling" means for the numba `prange` kernels, and the tables
  used to establish it from the source (core Lean only).

  * `Nest` / `Access`: the array accesses of one parallel loop nest, as extracted from the source.
  * `safeNest`: a decidable sufficient condition — every store goes to the iteration's own cell of a
    shared array (index prefixed by the prange variables the array is shared across), or stores a
    constant into an array the nest never reads, or (explicit white list) writes the pixel range of the
    iteration's own segment; every read of an array the nest writes is a read of the own cell.
  * `runOrder`: a parallel loop under an arbitrary schedule = a fold over an arbitrary order of the
    iterations; the theorems in `Properties/C18.lean` show the result does not depend on the order.
-/
namespace Pandora.Threading

structure Access where
  array : String
  index : List String
  /-- prange variables of the enclosing parallel loops across which the array is shared -/
  shared : List String
  const : Bool := false
  deriving Repr, DecidableEq, Inhabited

structure Nest where
  func : String
  k : Nat
  stores : List Access
  /-- subscript loads of arrays that the nest also stores -/
  loads : List Access
  /-- stored shared arrays that are also used as a whole inside the nest -/
  wholeLoads : List String
  deriving Repr, DecidableEq, Inhabited

structure CbAttrs where
  name : String
  reads : List String
  writes : List String
  deriving Repr, DecidableEq, Inhabited

/-- the access touches only the cell(s) owned by the current iteration -/
def ownCell (a : Access) : Bool := a.shared.isPrefixOf a.index

/-- stores whose target cells are chosen by data attached to the iteration (the pixel range of the
    iteration's own segment in `graph_regularization`): disjointness of the segments is an invariant of
    `interval_regularization`, not a syntactic fact; listed explicitly -/
def dataDisjoint (func array : String) : Bool :=
  func == "graph_regularization" &&
    (array == "interval_inf_reg" || array == "interval_sup_reg" || array == "mask_regularization")

def safeStore (n : Nest) (s : Access) : Bool :=
  ownCell s
  || (s.const && !(n.loads.any (fun l => l.array == s.array)) && !(n.wholeLoads.contains s.array))
  || (dataDisjoint n.func s.array && !(n.loads.any (fun l => l.array == s.array)) && !(n.wholeLoads.contains s.array))

def safeNest (n : Nest) : Bool :=
  n.stores.all (safeStore n) && n.loads.all ownCell
  && n.wholeLoads.all (fun a => n.stores.all (fun s => s.array != a || s.shared.isEmpty))

/-! ### a parallel loop under an arbitrary schedule -/

/-- iteration `i` rewrites its own cell from read-only data and the cell's previous content -/
def runOrder {ι β : Type} [DecidableEq ι] (body : ι → β → β) (order : List ι) (a : ι → β) : ι → β :=
  order.foldl (fun a i => fun j => if j = i then body i (a i) else a j) a

/-- iteration `i` stores the constant `c` into the cells `cells i` (never read by the loop) -/
def runConst {ι κ β : Type} [DecidableEq κ] (cells : ι → List κ) (c : β) (order : List ι) (a : κ → β) : κ → β :=
  order.foldl (fun a i => fun j => if (cells i).contains j then c else a j) a

end Pandora.Threading
