/-
  Shared conventions of the executable model (core Lean only, no Mathlib).

  * `Val`  : a float cell of the implementation, either NaN or an exact rational.
  * wire format helpers: rationals travel as JSON integers or as strings "n/d";
    NaN as the string "nan"; ±inf as "inf"/"-inf" (only `ExtVal` accepts those).
-/
import Lean.Data.Json

namespace Pandora

open Lean (Json)

/-- A float cell: NaN or an exact rational number. -/
inductive Val where
  | nan : Val
  | num : Rat → Val
  deriving Repr, DecidableEq, Inhabited

namespace Val

def isNan : Val → Bool
  | nan => true
  | num _ => false

def isNum (v : Val) : Bool := !v.isNan

def get (v : Val) (d : Rat := 0) : Rat :=
  match v with
  | nan => d
  | num q => q

def map (f : Rat → Rat) : Val → Val
  | nan => nan
  | num q => num (f q)

/-- IEEE-style binary operation: NaN is absorbing. -/
def map2 (f : Rat → Rat → Rat) : Val → Val → Val
  | num a, num b => num (f a b)
  | _, _ => nan

instance : Add Val := ⟨map2 (· + ·)⟩
instance : Sub Val := ⟨map2 (· - ·)⟩
instance : Mul Val := ⟨map2 (· * ·)⟩

end Val

/-! ### JSON helpers -/

def parseInt? (s : String) : Option Int := s.toInt?

def parseRat? (s : String) : Option Rat :=
  match s.splitOn "/" with
  | [n] => (parseInt? n).map (fun i => (i : Rat))
  | [n, d] =>
    match parseInt? n, d.toNat? with
    | some i, some k => if k = 0 then none else some (mkRat i k)
    | _, _ => none
  | _ => none

def ratToString (q : Rat) : String :=
  if q.den = 1 then toString q.num else s!"{q.num}/{q.den}"

def ratToJson (q : Rat) : Json :=
  if q.den = 1 then Json.num (Lean.JsonNumber.fromInt q.num) else Json.str (ratToString q)

def ratOfJson (j : Json) : Except String Rat :=
  match j with
  | Json.num n =>
    -- JsonNumber = mantissa * 10^-exponent
    .ok (mkRat n.mantissa (10 ^ n.exponent))
  | Json.str s =>
    match parseRat? s with
    | some q => .ok q
    | none => .error s!"bad rational: {s}"
  | _ => .error s!"bad rational json: {j.compress}"

def valToJson : Val → Json
  | .nan => Json.str "nan"
  | .num q => ratToJson q

def valOfJson (j : Json) : Except String Val :=
  match j with
  | Json.str "nan" => .ok .nan
  | Json.null => .ok .nan
  | _ => (ratOfJson j).map Val.num

def intOfJson (j : Json) : Except String Int :=
  match j with
  | Json.num n => if n.exponent = 0 then .ok n.mantissa else .error s!"not an int: {j.compress}"
  | Json.bool b => .ok (if b then 1 else 0)
  | Json.str s => match parseInt? s with
    | some i => .ok i
    | none => .error s!"bad int {s}"
  | _ => .error s!"not an int: {j.compress}"

def natOfJson (j : Json) : Except String Nat := do
  let i ← intOfJson j
  if i < 0 then .error s!"negative nat {i}" else .ok i.toNat

def boolOfJson (j : Json) : Except String Bool :=
  match j with
  | Json.bool b => .ok b
  | _ => .error s!"not a bool: {j.compress}"

def strOfJson (j : Json) : Except String String :=
  match j with
  | Json.str s => .ok s
  | _ => .error s!"not a string: {j.compress}"

def listOfJson {α} (f : Json → Except String α) (j : Json) : Except String (List α) :=
  match j with
  | Json.arr a => a.toList.mapM f
  | _ => .error s!"not an array: {j.compress.take 60}"

def listToJson {α} (f : α → Json) (l : List α) : Json := Json.arr (l.map f).toArray

def field (j : Json) (k : String) : Except String Json :=
  match j.getObjVal? k with
  | .ok v => .ok v
  | .error _ => .error s!"missing field {k}"

def fieldD (j : Json) (k : String) (d : Json) : Json :=
  match j.getObjVal? k with
  | .ok v => v
  | .error _ => d

def mkObj (kvs : List (String × Json)) : Json := Json.mkObj kvs

/-- 2-D and 3-D grids as nested lists. -/
abbrev Grid (α : Type) := List (List α)

def gridOfJson {α} (f : Json → Except String α) : Json → Except String (Grid α) :=
  listOfJson (listOfJson f)

def gridToJson {α} (f : α → Json) (g : Grid α) : Json := listToJson (listToJson f) g

def intToJson (i : Int) : Json := Json.num (Lean.JsonNumber.fromInt i)
def natToJson (n : Nat) : Json := Json.num (Lean.JsonNumber.fromNat n)

end Pandora
