/-
  `MedianForIntervalsFilter.filter_disparity` (pandora/filter/median_for_intervals.py) as one step:
  the composition of C10's filter model (`Model/Filter.lean`: `medianFilter` on the two interval-bound
  bands, `regularizeFlags` = `validity_mask[mask_regularization] |= PANDORA_MSK_PIXEL_INTERVAL_REGULARIZED`)
  with C12's model of `interval_tools.interval_regularization` (`Model/Confidence.lean`:
  `borders`, `connectedGraph`, `graphRegularization`) as the producer of the regularised bands *and* of
  `mask_regularization`.  Core Lean only; nothing of the two models is changed.

      for band in (inf, sup):  band = median_filter(band)                 -- raw bands, no validity masking
      if regularization:
          inf, sup, mask_regularization = interval_regularization(inf, sup, ambiguity, thr, kernel, depth, q)
          validity_mask[mask_regularization] |= PANDORA_MSK_PIXEL_INTERVAL_REGULARIZED
          if offset_row_col > 0: mask_border(disp)
          confidence_measure[inf], confidence_measure[sup] = inf, sup

  `mask_regularization` (third result of `graph_regularization`, which C12's model does not return):
  `mask[border_left[i, 0], border_left[i, 1] : border_right[i, 1] + 1] = True` for every segment `i` —
  `inSegments`: the pixel lies in one of the segments.
-/
import PandoraModel.Model.Filter
import PandoraModel.Model.Confidence
import PandoraModel.Model.FlagSteps

namespace Pandora.FilterIntervals
open Pandora Pandora.Filter Pandora.Confidence

/-- an `ny × nx` array as the grid C12's model works on -/
def toGrid (ny nx : Nat) (img : Img) : Grid Val :=
  (List.range ny).map fun r => (List.range nx).map fun c => img r c

/-- a grid read back as an array (NaN outside) -/
def ofGrid (g : Grid Val) : Img := fun r c => cell g r c

/-- the segments `(border_left[i], border_right[i])` of `interval_regularization` -/
def segments (thr : Rat) (k : Nat) (amb : Grid Val) : List (Pos × Pos) :=
  (borders thr k amb).1.zip (borders thr k amb).2

/-- `mask_regularization[r, c]`: some segment `i` has `border_left[i, 0] = r` and
    `border_left[i, 1] ≤ c ≤ border_right[i, 1]` -/
def inSegments (segs : List (Pos × Pos)) (r c : Nat) : Bool :=
  segs.any fun s => decide (s.1.1 = r) && decide (s.1.2 ≤ c) && decide (c ≤ s.2.2)

/-- `mask_border` on an `ny × nx` mask: border pixels carry `PANDORA_MSK_PIXEL_LEFT_NODATA_OR_BORDER` only -/
def maskBorder (off ny nx : Nat) (flags : Nat → Nat → Nat) : Nat → Nat → Nat :=
  fun r c => if FlagSteps.inBorder ny nx off r c then Flags.leftNodataOrBorder else flags r c

/-- the parameters of the step (`cfg` of `MedianForIntervalsFilter`) -/
structure Cfg where
  /-- `filter_size` -/
  fs : Nat
  regularization : Bool
  /-- `ambiguity_threshold` -/
  thr : Rat
  /-- `ambiguity_kernel_size` -/
  kernel : Nat
  /-- `vertical_depth` -/
  depth : Nat
  /-- `quantile_regularization` -/
  quantile : Rat

/-- what the step leaves: the two bands, the validity mask, and (for the correspondence)
    `mask_regularization` -/
structure Out where
  inf : Img
  sup : Img
  flags : Nat → Nat → Nat
  regMask : Nat → Nat → Bool

/-- **Model of `MedianForIntervalsFilter.filter_disparity`** on an `ny × nx` dataset: `inf`, `sup` the two
    interval-bound bands, `amb` the ambiguity band, `flags` the validity mask, `off` = `offset_row_col`,
    `bit` = `PANDORA_MSK_PIXEL_INTERVAL_REGULARIZED`, `s` the block split of `median_filter` -/
def medianForIntervals (s : Blocks.Split) (bit off : Nat) (cfg : Cfg) (ny nx : Nat) (inf sup amb : Img)
    (flags : Nat → Nat → Nat) : Out :=
  let inf1 := medianFilter s cfg.fs ny nx inf
  let sup1 := medianFilter s cfg.fs ny nx sup
  if cfg.regularization then
    let gi := toGrid ny nx inf1
    let gs := toGrid ny nx sup1
    let ga := toGrid ny nx amb
    let reg := inSegments (segments cfg.thr cfg.kernel ga)
    let res := intervalRegularization gi gs ga cfg.thr cfg.kernel cfg.depth cfg.quantile
    let fl1 := regularizeFlags bit reg flags
    { inf := ofGrid res.1, sup := ofGrid res.2,
      flags := if off > 0 then maskBorder off ny nx fl1 else fl1,
      regMask := reg }
  else
    { inf := inf1, sup := sup1, flags := flags, regMask := fun _ _ => false }

end Pandora.FilterIntervals
