/-
  Executable model of `pandora/margins/margins.py` (Margins, MarginDict, GlobalMargins) and of the
  margin registration done by the `<step>_check_conf` callbacks of the machine (core Lean only).

  The per-class margin formulas and the registration table below are the *documented* ones (written
  from the property statement and the user guide); `Properties/C20.lean` proves that the formulas and
  the table regenerated from the source (`Generated/Margins.lean`) are equal to them.
-/
import PandoraModel.Model.Basic
import PandoraModel.Model.Machine

namespace Pandora.Margins
open Pandora.Machine (Kind kindOf)

/-- `Margins(left, up, right, down)`; the dataclass rejects negative values -/
structure M4 where
  left : Int
  up : Int
  right : Int
  down : Int
  deriving Repr, DecidableEq, Inhabited

def M4.zero : M4 := ⟨0, 0, 0, 0⟩
def M4.uniform (v : Int) : M4 := ⟨v, v, v, v⟩
def M4.add (a b : M4) : M4 := ⟨a.left + b.left, a.up + b.up, a.right + b.right, a.down + b.down⟩
def M4.max (a b : M4) : M4 := ⟨Max.max a.left b.left, Max.max a.up b.up, Max.max a.right b.right, Max.max a.down b.down⟩
def M4.le (a b : M4) : Prop := a.left ≤ b.left ∧ a.up ≤ b.up ∧ a.right ≤ b.right ∧ a.down ≤ b.down
def M4.nonneg (a : M4) : Prop := 0 ≤ a.left ∧ 0 ≤ a.up ∧ 0 ≤ a.right ∧ 0 ≤ a.down
/-- `Margins.__post_init__` raises ValueError when a component is negative -/
def M4.valid (a : M4) : Bool := decide (0 ≤ a.left) && decide (0 ≤ a.up) && decide (0 ≤ a.right) && decide (0 ≤ a.down)

/-- a `MarginDict`: Python dict semantics (assignment to an existing key keeps its position) -/
abbrev MDict := List (String × M4)

def MDict.set (d : MDict) (k : String) (v : M4) : MDict :=
  if d.any (fun e => e.1 == k) then d.map (fun e => if e.1 == k then (k, v) else e)
  else d ++ [(k, v)]

def MDict.has (d : MDict) (k : String) : Bool := d.any (fun e => e.1 == k)

/-- `MarginDict.sum()` -/
def MDict.sum (d : MDict) : M4 := d.foldl (fun acc e => acc.add e.2) M4.zero

structure Global where
  cumulatives : MDict := []
  nonCumulatives : MDict := []
  deriving Repr, DecidableEq, Inhabited

/-- `add_cumulative`: KeyError when the key is already a non-cumulative margin -/
def Global.addCumulative (g : Global) (k : String) (v : M4) : Option Global :=
  if g.nonCumulatives.has k then none else some { g with cumulatives := g.cumulatives.set k v }

def Global.addNonCumulative (g : Global) (k : String) (v : M4) : Option Global :=
  if g.cumulatives.has k then none else some { g with nonCumulatives := g.nonCumulatives.set k v }

/-- `max_margins([sum, *non_cumulatives])` as coded: a single element is returned as is, otherwise
    the element-wise `max` over all of them -/
def maxMargins : List M4 → M4
  | [] => M4.zero          -- unreachable: the list always contains the cumulative sum
  | [a] => a
  | a :: rest => rest.foldl M4.max a

def Global.globalMargins (g : Global) : M4 :=
  maxMargins (g.cumulatives.sum :: g.nonCumulatives.map (·.2))

/-! ### Margins of the step classes (documented values) -/

/-- what a check callback knows about its step when it registers the margins -/
structure StepCfg where
  name : String
  method : String := ""
  windowSize : Int := 5
  filterSize : Int := 3
  /-- `sigma_space` as an exact rational -/
  sigmaSpace : Rat := 6
  /-- the `step` parameter of a matching cost step -/
  stepParam : Int := 1
  deriving Repr, Inhabited

/-- Python `int(x)` for a float: truncation toward zero -/
def ratTrunc (q : Rat) : Int := if 0 ≤ q then q.floor else q.ceil

/-- half the matching window: `int((window_size - 1) / 2)` -/
def halfWindow (w : Int) : Int := ratTrunc (((w - 1 : Int) : Rat) / 2)

inductive Reg where
  | cumulative | nonCumulative | none
  deriving Repr, DecidableEq, Inhabited

/-- which kinds register margins, and how (documented: matching window, optimisation, aggregation,
    disparity and refinement cumulate; filters do not; the others bear no margin) -/
def documentedReg : Kind → Reg
  | .matchingCost => .cumulative
  | .aggregation => .cumulative
  | .optimization => .cumulative
  | .disparity => .cumulative
  | .refinement => .cumulative
  | .filter => .nonCumulative
  | _ => .none

/-- documented margin of a step, given the image shape and the matching-cost `step` in force -/
def documentedMargin (k : Kind) (c : StepCfg) (rows cols : Int) (step : Int) : M4 :=
  match k with
  | .matchingCost => M4.uniform (halfWindow c.windowSize)
  | .optimization => M4.uniform 40
  | .filter =>
    if c.method == "bilateral" then
      M4.uniform (min (min rows cols) (ratTrunc (3 * c.sigmaSpace + 1)) * step)
    else M4.uniform (c.filterSize * step)
  | _ => M4.zero

/-- state of the margin bookkeeping during `check_conf`: the GlobalMargins object and `self.step` -/
structure MgState where
  g : Global := {}
  step : Int := 1
  deriving Repr, DecidableEq, Inhabited

/-- what one check callback registers: key, how, value -/
structure Entry where
  name : String
  reg : Reg
  m : M4
  deriving Repr, DecidableEq, Inhabited

/-- `self.step` after the callback of step `c` of kind `k` (matching_cost_check_conf sets it) -/
def stepAfter (step : Int) (c : StepCfg) (k : Kind) : Int :=
  if k = .matchingCost then c.stepParam else step

/-- the registration a check callback performs (none: the step name is not one of the ten kinds) -/
def entryOf (rows cols : Int) (step : Int) (c : StepCfg) : Option (Entry × Int) :=
  match Kind.ofName? (kindOf c.name) with
  | Option.none => Option.none
  | some k =>
    let step' := stepAfter step c k
    some ({ name := c.name, reg := documentedReg k, m := documentedMargin k c rows cols step' }, step')

/-- `Margins(...)` raises on a negative component; `add_*` raises KeyError on a key of the other dict -/
def applyEntry (g : Global) (e : Entry) : Option Global :=
  match e.reg with
  | .none => some g
  | .cumulative => if !e.m.valid then Option.none else g.addCumulative e.name e.m
  | .nonCumulative => if !e.m.valid then Option.none else g.addNonCumulative e.name e.m

/-- effect of one `<step>_check_conf` on the margins (none = the callback raised) -/
def checkStepMargins (rows cols : Int) (s : MgState) (c : StepCfg) : Option MgState :=
  match entryOf rows cols s.step c with
  | Option.none => Option.none
  | some (e, step') =>
    match applyEntry s.g e with
    | Option.none => Option.none
    | some g => some { g := g, step := step' }

def checkRoundMargins (rows cols : Int) : List StepCfg → MgState → Option MgState
  | [], s => some s
  | c :: cs, s =>
    match checkStepMargins rows cols s c with
    | Option.none => Option.none
    | some s' => checkRoundMargins rows cols cs s'

/-- `check_conf` on the margins: one round, and a second one (images exchanged: the other image's
    shape) when the pipeline has a validation step -/
def checkMargins (rows cols rows2 cols2 : Int) (p : List StepCfg) (s : MgState) : Option MgState :=
  match checkRoundMargins rows cols p s with
  | Option.none => Option.none
  | some s1 =>
    if Pandora.Machine.hasKind .validation (p.map (·.name)) then checkRoundMargins rows2 cols2 p s1
    else some s1

/-! ### Specification -/

/-- the entries a pipeline must report, in order: (name, margin) for every step whose kind
    registers margins the `reg` way, with the documented value -/
def expectedEntries (reg : Reg) (rows cols : Int) : List StepCfg → Int → MDict
  | [], _ => []
  | c :: cs, step =>
    match Kind.ofName? (kindOf c.name) with
    | Option.none => expectedEntries reg rows cols cs step
    | some k =>
      let step' := stepAfter step c k
      let rest := expectedEntries reg rows cols cs step'
      if documentedReg k = reg then (c.name, documentedMargin k c rows cols step') :: rest else rest

/-- per side: the larger of the sum of the cumulative margins and each non-cumulative one -/
def expectedGlobal (cum non : MDict) : M4 :=
  let s := cum.sum
  { left := non.foldl (fun a e => Max.max a e.2.left) s.left
    up := non.foldl (fun a e => Max.max a e.2.up) s.up
    right := non.foldl (fun a e => Max.max a e.2.right) s.right
    down := non.foldl (fun a e => Max.max a e.2.down) s.down }

end Pandora.Margins
