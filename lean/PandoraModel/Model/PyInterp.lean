/-
  Run-time support of the definitions written by `translator/pyloops_ext.py` for the occlusion / mismatch filling
  kernels (`Generated/KernelsInterp.lean`, extractor translator/gen_kernels_interp.py): the extension of T14
  (`Model/PyLoops.lean`) to

  * bitwise `&` / `|` on NON-NEGATIVE integers (`band`, `bor`: the validity flags are small naturals; the generated
    code tests `0 ≤ operand` next to its array-bounds tests and answers `Res.outOfBounds` otherwise — Python's `&` on
    a negative int is two's complement, which is not what `Nat.land` computes, so nothing is guessed there);
  * Python `int(x)` of an exact rational: truncation toward zero (`truncRat`);
  * a function returning a 1-D array, as the list of the values of its per-index function (`collect`), and a call of
    such a function from another translated kernel (`Res.isOk`, `Res.getD`);
  * vectors (`List`) read with Python's index rule (`vget`, `vinb`), row slices with Python's clipping (`rowSlice`),
    element-wise `& c`, `== c` (`List.map`), `[::-1]` (`List.reverse`);
  * the numpy reductions the kernels use, as NAMED functions whose MEANING IS TAKEN FROM THE HAND MODEL
    `Model/Interp.lean` (`nums`, `nanmedian`, `secondLowestAbs`, `argmaxBool`, `occlusionSum3x3`): they are
    modelled, not verified (DESIGN.md §7) — the equality theorems of `Properties/C14Kernels.lean` are about control
    flow, indexing, guards and flag arithmetic around them.

  Core Lean only.
-/
import PandoraModel.Model.PyLoops
import PandoraModel.Model.Interp

namespace Pandora.PyInterp
open Pandora Pandora.PyLoops

/-! ### bit operations on non-negative integers -/

/-- Python `a & b` for `a, b ≥ 0` -/
def band (a b : Int) : Int := ((a.toNat &&& b.toNat : Nat) : Int)

/-- Python `a | b` for `a, b ≥ 0` -/
def bor (a b : Int) : Int := ((a.toNat ||| b.toNat : Nat) : Int)

/-- Python `int(q)`: truncation toward zero -/
def truncRat (q : Rat) : Int := Int.tdiv q.num (q.den : Int)

/-! ### results of calls -/

def Res.isOk {α : Type} : Res α → Bool
  | .ok _ => true
  | .outOfBounds => false

def Res.getD {α : Type} (d : α) : Res α → α
  | .ok a => a
  | .outOfBounds => d

/-- `[f i, f (i+1), …]` (`n` entries), `outOfBounds` as soon as one of them is -/
def collectFrom {α : Type} (f : Int → Res α) : Nat → Int → Res (List α)
  | 0, _ => .ok []
  | n + 1, i =>
    match f i, collectFrom f n (i + 1) with
    | .ok a, .ok t => .ok (a :: t)
    | _, _ => .outOfBounds

/-- the 1-D array a "vector kernel" returns: cell `k` is the value of its per-index function at `k` -/
def collect {α : Type} (n : Nat) (f : Int → Res α) : Res (List α) := collectFrom f n 0

/-! ### vectors -/

/-- `v[i]` with Python's negative-index rule -/
def vget {α : Type} (d : α) (v : List α) (i : Int) : α := v.getD (wrap (v.length : Int) i).toNat d

/-- `v[i]` is inside `v` -/
def vinb {α : Type} (v : List α) (i : Int) : Bool := inb (v.length : Int) i

/-- a slice bound `a` on an axis of length `n`, as Python clips it -/
def clipIdx (n a : Int) : Nat :=
  let a' := if a < 0 then a + n else a
  if a' < 0 then 0 else if n < a' then n.toNat else a'.toNat

/-- `arr[i, lo:hi]` (the row index `i` is an ordinary index: tested by the caller) -/
def rowSlice {α : Type} (arr : Int → Int → α) (n0 n1 : Int) (i lo hi : Int) : List α :=
  (List.range' (clipIdx n1 lo) (clipIdx n1 hi - clipIdx n1 lo)).map fun (j : Nat) => arr (wrap n0 i) (j : Int)

/-- `(arr[i, lo:hi] & c) == 0`: the mask of a row slice -/
def rowMaskZero (arr : Int → Int → Int) (n0 n1 i lo hi c : Int) : List Bool :=
  (rowSlice arr n0 n1 i lo hi).map fun x => decide (band x c = 0)

/-- every cell of `arr[i, lo:hi]` is non-negative (`&` is defined there) -/
def rowNonneg (arr : Int → Int → Int) (n0 n1 i lo hi : Int) : Bool :=
  (rowSlice arr n0 n1 i lo hi).all fun x => decide (0 ≤ x)

/-- the indices of `a[lo:hi]` on an axis of length `n` -/
def sliceIdx (n lo hi : Int) : List Nat := List.range' (clipIdx n lo) (clipIdx n hi - clipIdx n lo)

/-- `np.sum(arr[lo0:hi0, lo1:hi1] & c)` (slices never read outside: Python clips them) -/
def sumBand2 (arr : Int → Int → Int) (n0 n1 lo0 hi0 lo1 hi1 c : Int) : Int :=
  ((sliceIdx n0 lo0 hi0).map fun (i : Nat) => ((sliceIdx n1 lo1 hi1).map fun (j : Nat) => band (arr i j) c).sum).sum

/-- every cell of `arr[lo0:hi0, lo1:hi1]` is non-negative (`&` is defined there) -/
def allNonneg2 (arr : Int → Int → Int) (n0 n1 lo0 hi0 lo1 hi1 : Int) : Bool :=
  (sliceIdx n0 lo0 hi0).all fun (i : Nat) => (sliceIdx n1 lo1 hi1).all fun (j : Nat) => decide (0 ≤ arr i j)

/-! ### numpy reductions: named, meaning taken from `Model/Interp.lean` -/

/-- `np.sum(np.isfinite(v))` -/
def countFinite (v : List Val) : Int := ((Interp.nums v).length : Int)

/-- `np.isfinite(v).any()` -/
def anyFinite (v : List Val) : Bool := !(Interp.nums v).isEmpty

/-- `np.nanmedian(v)` -/
def nanmedian (v : List Val) : Val := Interp.nanmedian v

/-- `v[np.argsort(np.abs(v))[k]]` for `k = 1` is `Interp.secondLowestAbs`; general `k`: entry `k` of the values sorted
    stably by `|·|`, NaN last -/
def sortedAbsGet (v : List Val) (k : Int) : Val := vget .nan (Interp.isort Interp.absLe v) k

/-- `np.argmax(msk)` of a boolean vector -/
def argmax (msk : List Bool) : Int := (Interp.argmaxBool msk : Int)

end Pandora.PyInterp
