/-
  C14 — the filling kernels as they read once `proposed_fixes/C14-fill-from-nothing.diff` (`guard`) and/or
  `proposed_fixes/C14-flag-carry.diff` (`bitops`) are applied.  Executable only: used by the correspondence to
  recognise a repaired implementation (the theorems of Properties/C14.lean are about the code as it stands,
  `Model/Interp.lean`).  Core Lean only.
-/
import PandoraModel.Model.Interp

namespace Pandora.Interp.Repaired
open Pandora Pandora.Flags Pandora.Interp

structure Variant where
  guard : Bool    -- NaN-initialised accumulator; fill only when enough valid pixels are in sight
  bitops : Bool   -- `(f & ~old) | new` instead of `-= old; += new`

/-- flag update of a filled pixel -/
def upd (v : Variant) (f old new : Nat) : Nat :=
  if v.bitops then replaceBit f old new else f - old + new

def scanLoopI (init : Val) (m : DMap) (pos : Nat → Int × Int) : (fuel i : Nat) → Val
  | 0, _ => init
  | fuel + 1, i =>
    if !m.inside (pos i) then .nan
    else if m.validAt (pos i) then m.dispAt (pos i)
    else scanLoopI init m pos fuel (i + 1)

def occlMcPixel (v : Variant) (m : DMap) (r c : Nat) : Val × Nat :=
  let f := m.flag r c
  if (f &&& occlusion) != 0 then
    let mskL := ((List.range (c + 1)).map fun j => m.valid r j).reverse
    let a := argmaxBool mskL
    if a == 0 then
      let mskR := (List.range (m.cols - c)).map fun k => m.valid r (c + k)
      let a := argmaxBool mskR
      (m.disp r (c + a), if mskR.getD a false then upd v f occlusion filledOcclusion else f)
    else
      (m.disp r (c - a), if mskL.getD a false then upd v f occlusion filledOcclusion else f)
  else (m.disp r c, f)

def mismMcPixel (v : Variant) (m : DMap) (r c : Nat) : Val × Nat :=
  let f := m.flag r c
  if (f &&& mismatch) != 0 then
    let init : Val := if v.guard then .nan else .num 0
    let interp := dirs16.map fun d => scanLoopI init m (posMc r c d) (max m.cols m.rows - 1) 1
    if v.guard && (nums interp).isEmpty then (m.disp r c, f)
    else (nanmedian interp, upd v f mismatch filledMismatch)
  else (m.disp r c, f)

def mismSgmPixel (v : Variant) (m : DMap) (r c : Nat) : Val × Nat :=
  let f := m.flag r c
  if (f &&& mismatch) != 0 then
    if occlusionSum3x3 m r c != 0 then (m.disp r c, upd v f mismatch occlusion)
    else
      let vn := findValidNeighbors m r c
      if v.guard && (nums vn).isEmpty then (m.disp r c, f)
      else (nanmedian vn, upd v f mismatch filledMismatch)
  else (m.disp r c, f)

def occlSgmPixel (v : Variant) (m : DMap) (r c : Nat) : Val × Nat :=
  let f := m.flag r c
  if (f &&& occlusion) != 0 then
    let vn := findValidNeighbors m r c
    if v.guard && (nums vn).length < 2 then (m.disp r c, f)
    else (secondLowestAbs vn, upd v f occlusion filledOcclusion)
  else (m.disp r c, f)

def lift (k : DMap → Nat → Nat → Val × Nat) (m : DMap) : DMap :=
  { m with disp := fun r c => (k m r c).1, flag := fun r c => (k m r c).2 }

def interpolate (v : Variant) (meth : Method) (off : Nat) (m : DMap) : DMap :=
  match meth with
  | .mccnn => maskBorder off (lift (mismMcPixel v) (lift (occlMcPixel v) m))
  | .sgm => lift (occlSgmPixel v) (lift (mismSgmPixel v) m)

end Pandora.Interp.Repaired
