/-
  C06 — executable model of the sub-pixel refinement step and executable specification.

  Model (follows the code):
    pandora/refinement/refinement.py   AbstractRefinement.loop_refinement        -> `refinePixel`, `loopRefinement`
    pandora/refinement/vfit.py         Vfit.refinement_method                    -> `vfit`
    pandora/refinement/quadratic.py    Quadratic.refinement_method               -> `quadratic`

  Numbers are exact rationals (`Val = nan | num q`); float rounding is not modelled.
  numba specifics that are modelled: `int(x)` truncates towards zero; a negative list index wraps
  around; float division by zero raises (`Err.zeroDivision`); an index beyond the row is not checked
  by numba (undefined behaviour) and is an `Err.outOfBounds` of the model.

  Specification (written from the property statement, not from the code): `classify`, `clauses`,
  `specOK`, `failing`.   Core Lean only.
-/
import PandoraModel.Model.Basic
import PandoraModel.Model.Flags

namespace Pandora.Refinement
open Pandora

/-! ## Small arithmetic helpers -/

def ratAbs (x : Rat) : Rat := if x < 0 then -x else x

/-- Python / numba `int(x)` on a float: truncation towards zero -/
def pyInt (q : Rat) : Int := if 0 ≤ q then q.floor else -((-q).floor)

/-- Python list indexing as numba performs it: a negative index wraps around once,
    anything else outside the list is not checked (modelled as `none`). -/
def pyGet (l : List Val) (i : Int) : Option Val :=
  if 0 ≤ i then l[i.toNat]?
  else if -i ≤ (l.length : Int) then l[l.length - (-i).toNat]?
  else none

/-- the literal `1.0e-15` of vfit.py -/
def tiny : Rat := 1 / 1000000000000000

/-! ## Model -/

inductive Method where
  | vfit | quadratic
  deriving DecidableEq, Repr, Inhabited

inductive Err where
  /-- numba raises ZeroDivisionError (python error model) -/
  | zeroDivision
  /-- an index outside the cost row: numba does not check it (undefined behaviour) -/
  | outOfBounds
  /-- `int(NaN)`: undefined in numba -/
  | nanDisparity
  deriving DecidableEq, Repr, Inhabited

inductive Res (α : Type) where
  | ok : α → Res α
  | err : Err → Res α
  deriving DecidableEq, Repr

/-- The code as it is (all `false`) and the three repairs the model can also follow
    (proposed_fixes/C06-*.diff): `fixFlat` — `quadratic` answers (0, cost[1], 0) on `alpha == 0`;
    `fixOr` — the flag is or-ed (`|=`) instead of added; `fixEnds` — the interval-end test is made on the
    sample index (`dsp != 0 and dsp != n_disp - 1`) instead of on the disparity value. -/
structure Variant where
  fixFlat : Bool := false
  fixOr : Bool := false
  fixEnds : Bool := false
  deriving DecidableEq, Repr, Inhabited

structure Params where
  variant : Variant := {}
  method : Method
  /-- `type_measure == "max"` -/
  isMax : Bool
  /-- `cv.attrs["subpixel"]` -/
  subpix : Nat
  /-- `cv.coords["disp"][0]`, `cv.coords["disp"][-1]` -/
  dmin : Rat
  dmax : Rat
  deriving DecidableEq, Repr

/-- what a `refinement_method` returns: `(sub_disp, sub_cost, valid)` -/
structure MOut where
  shift : Rat
  cost : Rat
  flag : Nat
  deriving DecidableEq, Repr

/-- `inverse * x` with `inverse = -1` for a similarity ("max") measure -/
def sgn (isMax : Bool) (x : Rat) : Rat := if isMax then -x else x

def stoppedBit : Nat := Flags.stoppedInterpolation

/-- vfit.py `Vfit.refinement_method` (the centre cost is a number: guarded by the caller) -/
def vfit (isMax : Bool) (c0 : Val) (c1 : Rat) (c2 : Val) : Res MOut :=
  match c0, c2 with
  | .num a0, .num a2 =>
    if sgn isMax c1 > sgn isMax a0 ∨ sgn isMax c1 > sgn isMax a2 then .ok ⟨0, c1, stoppedBit⟩
    else
      -- slope: the larger side
      let a := if sgn isMax a0 > sgn isMax a2 then a0 - c1 else a2 - c1
      if ratAbs a < tiny then .ok ⟨0, c1, 0⟩
      else
        let sub := (a0 - a2) / (2 * a)
        .ok ⟨sub, a * (sub - 1) + a2, 0⟩
  | _, _ => .ok ⟨0, c1, stoppedBit⟩

/-- `min(1.0, max(-1.0, x))` -/
def clamp1 (x : Rat) : Rat := if x < -1 then -1 else if 1 < x then 1 else x

/-- quadratic.py `Quadratic.refinement_method` (`fixFlat`: with the guard of the proposed repair) -/
def quadratic (fixFlat : Bool) (isMax : Bool) (c0 : Val) (c1 : Rat) (c2 : Val) : Res MOut :=
  match c0, c2 with
  | .num a0, .num a2 =>
    if sgn isMax c1 > sgn isMax a0 ∨ sgn isMax c1 > sgn isMax a2 then .ok ⟨0, c1, stoppedBit⟩
    else
      let alpha := (a0 - 2 * c1 + a2) / 2
      let beta := (a2 - a0) / 2
      -- `-beta / (2 * alpha)`: numba raises on a zero divisor
      if 2 * alpha = 0 then (if fixFlat then .ok ⟨0, c1, 0⟩ else .err .zeroDivision)
      else
        let sub := clamp1 (-beta / (2 * alpha))
        .ok ⟨sub, alpha * (sub * sub) + beta * sub + c1, 0⟩
  | _, _ => .ok ⟨0, c1, stoppedBit⟩

def runMethod (fixFlat : Bool) (m : Method) (isMax : Bool) (c0 : Val) (c1 : Rat) (c2 : Val) : Res MOut :=
  match m with
  | .vfit => vfit isMax c0 c1 c2
  | .quadratic => quadratic fixFlat isMax c0 c1 c2

/-- `mask[row, col] += v`  (`fixOr`: `|= v`) -/
def addFlag (fixOr : Bool) (flag v : Nat) : Nat := if fixOr then flag ||| v else flag + v

/-- the test that lets the method run: `disp != d_min and disp != d_max`
    (`fixEnds`: `dsp != 0 and dsp != n_disp - 1`) -/
def notAtEnd (P : Params) (n : Nat) (dv : Rat) (dsp : Int) : Bool :=
  if P.variant.fixEnds then (dsp != 0 && dsp != (n : Int) - 1) else (dv != P.dmin && dv != P.dmax)

/-- one pixel as the loop sees it: its cost row `cv[row, col, :]`, its disparity, its flag word.
    `pmin`/`pmax` is the pixel's own disparity interval (only the specification reads it). -/
structure PixIn where
  costs : List Val
  d : Val
  flag : Nat
  pmin : Rat
  pmax : Rat
  deriving DecidableEq, Repr

/-- what the loop leaves for the pixel: `itp_coeff`, `disp`, `mask` -/
structure PixOut where
  coeff : Val
  d : Val
  flag : Nat
  deriving DecidableEq, Repr

/-- body of the two `prange` loops of `loop_refinement` -/
def refinePixel (P : Params) (x : PixIn) : Res PixOut :=
  if Flags.isInvalid x.flag then .ok ⟨.nan, x.d, x.flag⟩
  else
    match x.d with
    | .nan => .err .nanDisparity
    | .num dv =>
      let dsp := pyInt ((dv - P.dmin) * (P.subpix : Rat))
      match pyGet x.costs dsp with
      | none => .err .outOfBounds
      | some .nan => .ok ⟨.nan, x.d, x.flag⟩
      | some (.num c1) =>
        if notAtEnd P x.costs.length dv dsp then
          match pyGet x.costs (dsp - 1), pyGet x.costs (dsp + 1) with
          | some c0, some c2 =>
            match runMethod P.variant.fixFlat P.method P.isMax c0 c1 c2 with
            | .ok r => .ok ⟨.num r.cost, .num (dv + r.shift / (P.subpix : Rat)), addFlag P.variant.fixOr x.flag r.flag⟩
            | .err e => .err e
          | _, _ => .err .outOfBounds
        else .ok ⟨.num c1, x.d, addFlag P.variant.fixOr x.flag stoppedBit⟩

/-- `mapM` written out (first error wins; the pixels are independent: each iteration reads and
    writes only its own cells) -/
def mapRes {α β : Type} (f : α → Res β) : List α → Res (List β)
  | [] => .ok []
  | x :: xs =>
    match f x with
    | .err e => .err e
    | .ok y =>
      match mapRes f xs with
      | .err e => .err e
      | .ok ys => .ok (y :: ys)

/-- `loop_refinement` over the whole map -/
def loopRefinement (P : Params) (g : List (List PixIn)) : Res (List (List PixOut)) :=
  mapRes (mapRes (refinePixel P)) g

/-! ## Specification -/

/-- the sample a disparity designates: the last sample not above it -/
def sampleOf (P : Params) (d : Rat) : Int := ((d - P.dmin) * (P.subpix : Rat)).floor

/-- plain (non wrapping) read of a cost row; anything outside the row is NaN -/
def costAt (costs : List Val) (i : Int) : Val :=
  if 0 ≤ i then costs.getD i.toNat .nan else .nan

/-- `a` is not worse than `b` for the measure -/
def notWorse (isMax : Bool) (a b : Rat) : Bool := if isMax then decide (b ≤ a) else decide (a ≤ b)

def isExtremum (isMax : Bool) (c0 c1 c2 : Rat) : Bool := notWorse isMax c1 c0 && notWorse isMax c1 c2

def close (a b tol : Rat) : Bool := decide (a - b ≤ tol) && decide (b - a ≤ tol)

/-- The symmetric V of slope magnitude `m` (the steeper of the two sides) and apex `(x, y)`
    passes through `(-1, c0)`, `(0, c1)`, `(1, c2)`  (cost to be minimised). -/
def vApexMin (c0 c1 c2 x y tol : Rat) : Bool :=
  let m := if c2 - c1 ≤ c0 - c1 then c0 - c1 else c2 - c1
  close (y + m * ratAbs (-1 - x)) c0 tol && close (y + m * ratAbs (0 - x)) c1 tol
    && close (y + m * ratAbs (1 - x)) c2 tol

/-- for a similarity measure the picture is turned upside down -/
def vApex (isMax : Bool) (c0 c1 c2 x y tol : Rat) : Bool :=
  vApexMin (sgn isMax c0) (sgn isMax c1) (sgn isMax c2) x (sgn isMax y) tol

/-- the parabola through `(-1, c0)`, `(0, c1)`, `(1, c2)` (Lagrange form) and its derivative -/
def parab (c0 c1 c2 t : Rat) : Rat := c0 * (t * (t - 1)) / 2 + c1 * (1 - t * t) + c2 * (t * (t + 1)) / 2
def parabDeriv (c0 c1 c2 t : Rat) : Rat := c0 * (2 * t - 1) / 2 - 2 * c1 * t + c2 * (2 * t + 1) / 2

/-- `x` is a stationary point of that parabola -/
def parabApexPos (c0 c1 c2 x tol : Rat) : Bool := close (parabDeriv c0 c1 c2 x) 0 tol

inductive Class where
  /-- flagged invalid before the step -/
  | invalid
  /-- the disparity is NaN or designates no sample of the row (not reachable: C03/C09) -/
  | illFormed
  /-- the cost of the sample is NaN: nothing to interpolate, nothing to report -/
  | centreNan
  | atIntervalEnd
  | neighbourNan
  | notExtremum
  /-- to be refined: disparity, sample index and the three costs -/
  | refine (d : Rat) (c0 c1 c2 : Rat)
  deriving DecidableEq, Repr

def classify (P : Params) (x : PixIn) : Class :=
  if Flags.isInvalid x.flag then .invalid
  else
    match x.d with
    | .nan => .illFormed
    | .num d =>
      let s := sampleOf P d
      let n : Int := x.costs.length
      if s < 0 ∨ n ≤ s then .illFormed
      else
        match costAt x.costs s with
        | .nan => .centreNan
        | .num c1 =>
          if s = 0 ∨ s = n - 1 then .atIntervalEnd
          else
            match costAt x.costs (s - 1), costAt x.costs (s + 1) with
            | .num c0, .num c2 => if isExtremum P.isMax c0 c1 c2 then .refine d c0 c1 c2 else .notExtremum
            | _, _ => .neighbourNan

def Class.name : Class → String
  | .invalid => "invalid"
  | .illFormed => "ill_formed"
  | .centreNan => "centre_nan"
  | .atIntervalEnd => "at_interval_end"
  | .neighbourNan => "neighbour_nan"
  | .notExtremum => "not_extremum"
  | .refine .. => "refine"

/-- bit `k` of a flag word -/
def bitAt (f k : Nat) : Nat := f / 2 ^ k % 2

/-- every bit except bit 3 is the same -/
def sameExceptBit3 (f g : Nat) : Bool := f % 8 == g % 8 && f / 16 == g / 16

def valNum? : Val → Option Rat
  | .num q => some q
  | .nan => none

/-- The clauses of the property for one pixel: `(clause name, holds)`.  `tol` is the tolerance of
    the numeric comparisons (0 in the theorems; the float error bound in the correspondence). -/
def clauses (P : Params) (x : PixIn) (o : PixOut) (tol : Rat) : List (String × Bool) :=
  match classify P x with
  | .invalid => [("invalid_untouched", o.d == x.d && o.flag == x.flag)]
  | .illFormed => []
  | .centreNan => [("stopped_iff", o.d == x.d && o.flag == x.flag)]
  | .atIntervalEnd | .neighbourNan | .notExtremum =>
    [("stopped_iff", o.d == x.d && bitAt o.flag 3 == 1), ("only_bit3", sameExceptBit3 o.flag x.flag)]
  | .refine d c0 c1 c2 =>
    match valNum? o.d, valNum? o.coeff with
    | some d', some y =>
      let h : Rat := 1 / (2 * (P.subpix : Rat))
      let sx := (d' - d) * (P.subpix : Rat)
      [ ("stopped_iff", o.flag == x.flag),
        ("only_bit3", sameExceptBit3 o.flag x.flag),
        ("shift_le_half", decide (d' - d ≤ h + tol) && decide (d - d' ≤ h + tol)),
        (match P.method with
          | .vfit => ("is_vfit_optimum", vApex P.isMax c0 c1 c2 sx y tol)
          | .quadratic => ("is_parabola_optimum", parabApexPos c0 c1 c2 sx tol)),
        ("coeff_is_fitted_cost",
          match P.method with
          | .vfit => vApex P.isMax c0 c1 c2 sx y tol
          | .quadratic => close (parab c0 c1 c2 sx) y tol),
        ("coeff_not_worse", if P.isMax then decide (c1 ≤ y + tol) else decide (y ≤ c1 + tol)),
        ("inside_interval", decide (P.dmin ≤ d') && decide (d' ≤ P.dmax)
                              && decide (x.pmin ≤ d') && decide (d' ≤ x.pmax)) ]
    | _, _ => [("shift_le_half", false)]

def specOK (P : Params) (x : PixIn) (o : PixOut) (tol : Rat) : Bool := (clauses P x o tol).all (·.2)

def failing (P : Params) (x : PixIn) (o : PixOut) (tol : Rat) : List String :=
  ((clauses P x o tol).filter (fun c => !c.2)).map (·.1)

/-- both lists have the same length and `p` holds pairwise -/
def all2 {α β : Type} (p : α → β → Bool) : List α → List β → Bool
  | [], [] => true
  | x :: xs, y :: ys => p x y && all2 p xs ys
  | _, _ => false

def specGrid (P : Params) (g : List (List PixIn)) (o : List (List PixOut)) (tol : Rat) : Bool :=
  all2 (all2 (fun x y => specOK P x y tol)) g o

/-! ### Situations on which the statement is known to fail (triggers of known findings) -/

def onGrid (P : Params) (d : Rat) : Bool := ((d - P.dmin) * (P.subpix : Rat)).den == 1

/-- a short stable tag computed from the *input* of a pixel naming the situation it is in -/
def triggerOf (P : Params) (x : PixIn) : String :=
  match classify P x with
  | .invalid => "invalid_pixel"
  | .illFormed => "ill_formed_input"
  | .centreNan => "centre_nan"
  | c =>
    let d := x.d.get
    if !onGrid P d && sampleOf P d == 0 then "offgrid_first_sample_wraparound"
    else if Flags.hasBit x.flag stoppedBit && (c != .centreNan) && (match c with | .refine .. => false | _ => true) then
      "bit3_already_set"
    else if !onGrid P d then
      (match c with
       | .refine .. => "offgrid_refined"
       | _ => "offgrid_" ++ c.name)
    else
      match c with
      | .refine _ c0 c1 c2 =>
        if P.method == .quadratic && c0 == c1 && c1 == c2 then "quadratic_three_equal_costs" else "refine"
      | c => c.name

end Pandora.Refinement

/-! ## The right-map approximation: `loop_approximate_refinement`

  The right disparity map obtained by the diagonal search on the LEFT cost volume is refined on that volume: for the right
  pixel `(row, col)` with (pixel) disparity `d`, the matched left column is `col + d` and the left disparity `-d`, so the cost
  is `cv[row, col + d, (-d - d_min) * subpixel]`; its two neighbours ALONG THE DIAGONAL are
  `cv[row, col + d - 1, dsp + subpixel]` (right disparity `d - 1`) and `cv[row, col + d + 1, dsp - subpixel]` (`d + 1`).
  Same numba specifics as `refinePixel`.  (Public API of the refinement classes; the state machine does not call it today.) -/

namespace Pandora.Refinement

/-- numba's unchecked read on any list (as `pyGet`) -/
def pyGetG {α : Type} (l : List α) (i : Int) : Option α :=
  if 0 ≤ i then l[i.toNat]?
  else if -i ≤ (l.length : Int) then l[l.length - (-i).toNat]?
  else none

/-- `cv[row, i, j]` on the row of cost rows -/
def pyGet2 (m : List (List Val)) (i j : Int) : Option Val :=
  match pyGetG m i with
  | some l => pyGet l j
  | none => none

/-- one pixel of the right map as the loop sees it: `cv[row, :, :]` of the left cost volume, its column, disparity, flag word -/
structure ApxIn where
  rows : List (List Val)
  col : Nat
  d : Val
  flag : Nat
  deriving DecidableEq, Repr

/-- body of the two `prange` loops of `loop_approximate_refinement` -/
def approxPixel (P : Params) (x : ApxIn) : Res PixOut :=
  if Flags.isInvalid x.flag then .ok ⟨.nan, x.d, x.flag⟩
  else
    match x.d with
    | .nan => .err .nanDisparity
    | .num dv =>
      let dsp := pyInt ((-dv - P.dmin) * (P.subpix : Rat))
      let diag := pyInt ((x.col : Rat) + dv)
      match pyGet2 x.rows diag dsp with
      | none => .err .outOfBounds
      | some .nan => .ok ⟨.nan, x.d, x.flag⟩
      | some (.num c1) =>
        if dv != -P.dmin && dv != -P.dmax && diag != 0 && diag != (x.rows.length : Int) - 1 then
          match pyGet2 x.rows (diag - 1) (dsp + (P.subpix : Int)), pyGet2 x.rows (diag + 1) (dsp - (P.subpix : Int)) with
          | some c0, some c2 =>
            match runMethod P.variant.fixFlat P.method P.isMax c0 c1 c2 with
            | .ok r => .ok ⟨.num r.cost, .num (dv + r.shift / (P.subpix : Rat)), addFlag P.variant.fixOr x.flag r.flag⟩
            | .err e => .err e
          | _, _ => .err .outOfBounds
        else .ok ⟨.num c1, x.d, addFlag P.variant.fixOr x.flag stoppedBit⟩

/-- `loop_approximate_refinement` over one row of the map (all its pixels share `cv[row, :, :]`) -/
def loopApproxRow (P : Params) (rows : List (List Val)) (px : List (Val × Nat)) : Res (List PixOut) :=
  mapRes (fun (p : Nat × (Val × Nat)) => approxPixel P ⟨rows, p.1, p.2.1, p.2.2⟩) ((List.range px.length).zip px)

/-! ### Specification of the approximation (from C06's statement, where it applies to the approximated right map)

  A previously valid right pixel with an integer disparity `d` of `[-dmax, -dmin]` whose matched left column `col + d` is in
  the image.  `centre` is the cost of that match.  The pixel is refined only when `d` is strictly inside the interval and the
  matched column strictly inside the image, the two diagonal neighbours are numbers and the centre is an extremum among them. -/

/-- plain read of the row of cost rows; anything outside is NaN -/
def costAt2 (m : List (List Val)) (i j : Int) : Val :=
  if 0 ≤ i then costAt (m.getD i.toNat []) j else .nan

inductive ApxClass where
  | invalid | illFormed | centreNan | stopped (c1 : Rat) | refine (d c0 c1 c2 : Rat)
  deriving DecidableEq, Repr

def apxClassify (P : Params) (x : ApxIn) : ApxClass :=
  if Flags.isInvalid x.flag then .invalid
  else
    match x.d with
    | .nan => .illFormed
    | .num dv =>
      let diag : Int := (x.col : Int) + dv.floor
      if dv.floor ≠ dv ∨ dv < -P.dmax ∨ -P.dmin < dv ∨ diag < 0 ∨ (x.rows.length : Int) ≤ diag then .illFormed
      else
        let j : Int := ((-dv - P.dmin) * (P.subpix : Rat)).floor
        match costAt2 x.rows diag j with
        | .nan => .centreNan
        | .num c1 =>
          if dv = -P.dmin ∨ dv = -P.dmax ∨ diag = 0 ∨ diag = (x.rows.length : Int) - 1 then .stopped c1
          else
            match costAt2 x.rows (diag - 1) (j + (P.subpix : Int)), costAt2 x.rows (diag + 1) (j - (P.subpix : Int)) with
            | .num c0, .num c2 => if isExtremum P.isMax c0 c1 c2 then .refine dv c0 c1 c2 else .stopped c1
            | _, _ => .stopped c1

/-- the clauses for one right pixel and what the step left for it -/
def apxClauses (P : Params) (x : ApxIn) (o : PixOut) (tol : Rat) : List (String × Bool) :=
  match apxClassify P x with
  | .invalid => [("invalid_untouched", o.d == x.d && o.flag == x.flag)]
  | .illFormed => []
  | .centreNan => [("centre_nan_untouched", o.d == x.d && o.flag == x.flag)]
  | .stopped c1 =>
    [("stopped_iff", o.d == x.d && o.flag / 8 % 2 == 1),
     ("only_bit3", o.flag % 8 == x.flag % 8 && o.flag / 16 == x.flag / 16),
     ("coeff_is_matched_cost", match o.coeff with | .num y => close y c1 tol | .nan => false)]
  | .refine d _ c1 _ =>
    [("stopped_iff", o.flag == x.flag),
     ("shift_le_half", match o.d with
        | .num d' => decide (ratAbs (d' - d) ≤ 1 / (2 * (P.subpix : Rat)) + tol) | .nan => false),
     ("inside_interval", match o.d with
        | .num d' => decide (-P.dmax - tol ≤ d') && decide (d' ≤ -P.dmin + tol) | .nan => false),
     ("coeff_not_worse", match o.coeff with
        | .num y => if P.isMax then decide (c1 - tol ≤ y) else decide (y ≤ c1 + tol) | .nan => false)]

def apxFailing (P : Params) (x : ApxIn) (o : PixOut) (tol : Rat) : List String :=
  ((apxClauses P x o tol).filter (fun c => !c.2)).map (·.1)

end Pandora.Refinement
