/-
  Data-flow model of the run callbacks of PandoraMachine (core Lean only).

  A callback is a list of *effects* on the machine attributes: `targets := fn(args)`, executed in
  order: the unconditional (left) part, then — when `right_disp_map` is set — the right part, then
  the trailing part.  What `fn` computes is an uninterpreted parameter (`Sem`): the steps themselves
  are the subject of the other properties; here only the wiring matters.
-/
namespace Pandora.Wiring

structure Effect where
  targets : List String
  fn : String
  args : List String
  optional : Bool := false
  deriving Repr, DecidableEq, Inhabited

structure Callback where
  name : String
  left : List Effect
  right : List Effect
  after : List Effect
  /-- image attributes handed to the constructors of the step objects (recorded, not interpreted) -/
  ctorImages : List (List String) := []
  deriving Repr, DecidableEq, Inhabited

/-- left/right pairs of machine attributes -/
def swapPairs : List (String × String) :=
  [("left_img", "right_img"), ("left_cv", "right_cv"), ("left_disparity", "right_disparity"),
   ("disp_min", "right_disp_min"), ("disp_max", "right_disp_max"),
   ("dmin_user", "dmin_user_right"), ("dmax_user", "dmax_user_right"),
   ("img_left_pyramid", "img_right_pyramid")]

def swapIn : List (String × String) → String → String
  | [], n => n
  | (a, b) :: ps, n => if n = a then b else if n = b then a else swapIn ps n

/-- exchange the roles of the left and right data -/
def swapName (n : String) : String := swapIn swapPairs n

def swapEffect (e : Effect) : Effect :=
  { e with targets := e.targets.map swapName, args := e.args.map swapName }

/-- machine attributes as a store -/
abbrev Store (V : Type) := String → V

/-- uninterpreted meaning of the operations: operation name, output index, argument values -/
abbrev Sem (V : Type) := String → Nat → List V → V

def assignFrom {V : Type} (s : Store V) (f : Nat → V) : Nat → List String → Store V
  | _, [] => s
  | i, t :: ts => assignFrom (fun n => if n = t then f i else s n) f (i + 1) ts

/-- `targets := fn(args)` (several targets: a tuple result, one component each) -/
def exec {V : Type} (sem : Sem V) (e : Effect) (s : Store V) : Store V :=
  let vs := e.args.map s
  assignFrom s (fun i => sem e.fn i vs) 0 e.targets

def execs {V : Type} (sem : Sem V) (es : List Effect) (s : Store V) : Store V :=
  es.foldl (fun s e => exec sem e s) s

/-- the effects of a callback when right products are computed (`interp`: interpolation configured) -/
def effectsOf (cb : Callback) (right interp : Bool) : List Effect :=
  cb.left ++ (if right then cb.right.filter (fun e => !e.optional || interp) else []) ++ cb.after

def runCb {V : Type} (sem : Sem V) (right interp : Bool) (cb : Callback) (s : Store V) : Store V :=
  execs sem (effectsOf cb right interp) s

def swapStore {V : Type} (s : Store V) : Store V := fun n => s (swapName n)

/-! ### decidable conditions on the wiring -/

def isNeutral (e : Effect) : Bool := decide (swapEffect e = e)

/-- `a` and `b` may be executed in either order: neither writes what the other reads or writes -/
def indep (a b : Effect) : Bool :=
  a.targets.all (fun t => !(b.args.contains t) && !(b.targets.contains t)) &&
  b.targets.all (fun t => !(a.args.contains t) && !(a.targets.contains t))

def crossIndep (xs ys : List Effect) : Bool := xs.all fun x => ys.all fun y => indep x y

/-- a block `X ++ swap X ++ N`: a left part, the same operations on the exchanged data, then
    side-neutral operations; no operation of one side touches what the other side uses -/
def symBlock (b : List Effect) : Bool :=
  let n := (b.filter isNeutral).length
  let k := (b.length - n) / 2
  let x := b.take k
  let y := (b.drop k).take k
  let z := b.drop (2 * k)
  decide (y = x.map swapEffect) && z.all isNeutral && crossIndep x y

end Pandora.Wiring
