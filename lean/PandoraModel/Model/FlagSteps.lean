/-
  C04, part 2 — executable model of the flag arithmetic of the steps that follow the disparity
  step, with the code's own `+=` / `-=` on the flag word, and the executable specification of
  "later steps only add their own documented bits / no undocumented bit / bits are independent".
  Core Lean only.

  Sites modelled (pandora/…):
  * refinement/refinement.py  `loop_refinement`, `loop_approximate_refinement`:
        skip when `mask & PANDORA_MSK_PIXEL_INVALID != 0`; `mask += valid` (0 or 8) / `mask += 8`
  * validation/validation.py  `CrossCheckingAccurate.disparity_checking`:
        only pixels with `mask & INVALID == 0`; `+= 256; += 512 * comp; -= 256 * comp`; `mask_border`
  * validation/interpolated_disparity.py  mc-cnn: occlusion pass `-= 256 * m; += 16 * m`
        (m = a valid pixel exists in the row), then mismatch pass `-= 512; += 32` when one of the 16
        scan directions finds a valid pixel; `mask_border`
        sgm: mismatch pass (`-= 512; += 256` next to an occlusion, else `-= 512; += 32` when a valid
        neighbour is in sight), then occlusion pass `-= 256; += 16` when two valid neighbours are in sight
  * filter/median_for_intervals.py  `|= 2048` on regularised pixels; median / bilateral: untouched

  Whether a site raises its bit with `+=` or with `|=` is a parameter (`Ops`), read from the source
  by the translator (`Generated/FlagOps.lean`) and passed to the driver by the harness: the model
  follows what the code does now.  Which pixel a step decides to flag (refinement stopped, pixel
  inconsistent, …) belongs to C06/C07/C14; here it is an arbitrary per-pixel decision.
-/
import PandoraModel.Model.Basic
import PandoraModel.Model.Flags

namespace Pandora.FlagSteps
open Pandora.Flags

/-- how a site raises a bit: `+=` or `|=` -/
inductive AddOp where
  | add | or
  deriving DecidableEq, Repr, Inhabited

def raise (op : AddOp) (f b : Nat) : Nat :=
  match op with
  | .add => f + b
  | .or => f ||| b

structure Ops where
  /-- refinement.py: `mask[row, col] += valid`, `+= PANDORA_MSK_PIXEL_STOPPED_INTERPOLATION` -/
  refine : AddOp
  /-- validation.py: `+= PANDORA_MSK_PIXEL_OCCLUSION`, `+= PANDORA_MSK_PIXEL_MISMATCH * comp` -/
  cc : AddOp
  /-- interpolated_disparity.py: `+= PANDORA_MSK_PIXEL_FILLED_*`, `+= PANDORA_MSK_PIXEL_OCCLUSION` -/
  fill : AddOp
  /-- median_for_intervals.py: `|= PANDORA_MSK_PIXEL_INTERVAL_REGULARIZED` -/
  reg : AddOp
  deriving DecidableEq, Repr, Inhabited

/-- the operators of the source today -/
def Ops.current : Ops := { refine := .add, cc := .add, fill := .add, reg := .or }
def Ops.allOr : Ops := { refine := .or, cc := .or, fill := .or, reg := .or }

/-- outcome of the cross-checking for a pixel it examines -/
inductive CC where
  | consistent | mismatch | occlusion
  deriving DecidableEq, Repr, Inhabited

/-- one step, seen from one pixel, with the decision the step took for that pixel -/
inductive Step where
  /-- refinement; `stopped` = the method returned `PANDORA_MSK_PIXEL_STOPPED_INTERPOLATION`, or the
      disparity sits on an end of the interval -/
  | refine (stopped : Bool)
  /-- median or bilateral filter -/
  | filter
  /-- median_for_intervals; `regularized` = the pixel is in `mask_regularization` -/
  | filterIntervals (regularized : Bool)
  | crossCheck (d : CC)
  /-- mc-cnn interpolation; `foundOcc` = a valid pixel exists on the row of the pixel, `foundMis` = one of the 16
      scan directions reaches a valid pixel -/
  | interpMcCnn (foundOcc foundMis : Bool)
  /-- sgm interpolation; `nearOcc` = an occlusion lies in the 3×3 neighbourhood, `foundMis` = some of the 8
      directions reaches a valid pixel, `foundOcc` = at least two do -/
  | interpSgm (nearOcc foundMis foundOcc : Bool)
  deriving DecidableEq, Repr, Inhabited

def refinePix (ops : Ops) (f : Nat) (stopped : Bool) : Nat :=
  if isInvalid f then f else raise ops.refine f (if stopped then stoppedInterpolation else 0)

def crossCheckPix (ops : Ops) (f : Nat) (d : CC) : Nat :=
  if isInvalid f then f
  else match d with
    | .consistent => f
    | .occlusion => raise ops.cc (raise ops.cc f occlusion) (mismatch * 0) - occlusion * 0
    | .mismatch => raise ops.cc (raise ops.cc f occlusion) (mismatch * 1) - occlusion * 1

def mcCnnPix (ops : Ops) (f : Nat) (foundOcc foundMis : Bool) : Nat :=
  let m : Nat := if foundOcc then 1 else 0
  -- interpolate_occlusion_mc_cnn
  let f1 := if (f &&& occlusion) != 0 then raise ops.fill (f - occlusion * m) (filledOcclusion * m) else f
  -- interpolate_mismatch_mc_cnn
  if (f1 &&& mismatch) != 0 then (if foundMis then raise ops.fill (f1 - mismatch) filledMismatch else f1) else f1

def sgmPix (ops : Ops) (f : Nat) (nearOcc foundMis foundOcc : Bool) : Nat :=
  -- interpolate_mismatch_sgm
  let f1 :=
    if (f &&& mismatch) != 0 then
      (if nearOcc then raise ops.fill (f - mismatch) occlusion
       else (if foundMis then raise ops.fill (f - mismatch) filledMismatch else f))
    else f
  -- interpolate_occlusion_sgm
  if (f1 &&& occlusion) != 0 then (if foundOcc then raise ops.fill (f1 - occlusion) filledOcclusion else f1) else f1

/-- `mask_border` seen from one pixel; `border` = `offset > 0` and the pixel lies in the border -/
def borderPix (border : Bool) (f : Nat) : Nat := if border then leftNodataOrBorder else f

def stepFlag (ops : Ops) (border : Bool) (s : Step) (f : Nat) : Nat :=
  match s with
  | .refine stopped => refinePix ops f stopped
  | .filter => f
  | .filterIntervals reg => if reg then raise ops.reg f intervalRegularized else f
  | .crossCheck d => borderPix border (crossCheckPix ops f d)
  | .interpMcCnn fo fm => borderPix border (mcCnnPix ops f fo fm)
  | .interpSgm nearOcc fm fo => sgmPix ops f nearOcc fm fo

def runFlags (ops : Ops) (border : Bool) (steps : List Step) (f : Nat) : Nat :=
  steps.foldl (fun f s => stepFlag ops border s f) f

/-! ### grid level: the decisions of the two interpolations depend on the flags only -/

def getD2 (g : Grid Nat) (r c : Nat) : Nat := (g.getD r []).getD c 0

def mapIdx2 {α β} (g : Grid α) (f : Nat → Nat → α → β) : Grid β :=
  (g.zipIdx).map fun (row, r) => (row.zipIdx).map fun (v, c) => f r c v

def inBorder (rows cols off r c : Nat) : Bool :=
  decide (r < off) || decide (rows ≤ r + off) || decide (c < off) || decide (cols ≤ c + off)

def maskBorderGrid (off : Nat) (g : Grid Nat) : Grid Nat :=
  if off > 0 then mapIdx2 g fun r c f => if inBorder g.length (g.headD []).length off r c then 1 else f else g

/-- mc-cnn on a whole mask: the values the model allows at each pixel — `foundOcc` is decided by the flags of the
    row (a pixel that is not invalid exists), `foundMis` is left open -/
def mcCnnAllowed (ops : Ops) (off : Nat) (g : Grid Nat) : Grid (List Nat) :=
  let rows := g.length
  let cols := (g.headD []).length
  mapIdx2 g fun r c f =>
    let fo := (g.getD r []).any fun v => !isInvalid v
    let border := decide (off > 0) && inBorder rows cols off r c
    [false, true].map fun fm => stepFlag ops border (.interpMcCnn fo fm) f

/-- sgm on a whole mask: `nearOcc` is decided by the flags of the 3 × 3 neighbourhood, the two "valid neighbour in
    sight" decisions are left open -/
def sgmAllowed (ops : Ops) (g : Grid Nat) : Grid (List Nat) :=
  let rows := g.length
  let cols := (g.headD []).length
  mapIdx2 g fun r c f =>
    let near := (List.range 3).any fun i => (List.range 3).any fun j =>
      decide (1 ≤ r + i ∧ r + i - 1 < rows ∧ 1 ≤ c + j ∧ c + j - 1 < cols)
        && ((getD2 g (r + i - 1) (c + j - 1) &&& occlusion) != 0)
    [(false, false), (false, true), (true, false), (true, true)].map fun d => stepFlag ops false (.interpSgm near d.1 d.2) f

/-! ### Specification: what a later step may do to the flag of a pixel (declarative, executable) -/

/-- the bits a step may raise: refinement 3; cross-checking 8/9; interpolation 4/5 (sgm may also turn a mismatch
    next to an occlusion into an occlusion: 9 → 8); intervals 11 -/
def ownRaise : Step → Nat
  | .refine _ => stoppedInterpolation
  | .filter => 0
  | .filterIntervals _ => intervalRegularized
  | .crossCheck _ => occlusion + mismatch
  | .interpMcCnn _ _ => filledOcclusion + filledMismatch
  | .interpSgm _ _ _ => filledOcclusion + filledMismatch + occlusion

/-- the bits a step may clear: the interpolations replace 8/9 by 4/5 -/
def mayClear : Step → Nat
  | .interpMcCnn _ _ => occlusion + mismatch
  | .interpSgm _ _ _ => occlusion + mismatch
  | _ => 0

/-- does the step rewrite border pixels with `mask_border` -/
def rewritesBorder : Step → Bool
  | .crossCheck _ => true
  | .interpMcCnn _ _ => true
  | _ => false

/-- `later_steps_own_bits`: every bit of the 12 documented ones that is newly set is one of the step's own -/
def onlyOwnRaised (s : Step) (before after : Nat) : Bool :=
  (List.range 12).all fun k => !(after.testBit k && !before.testBit k) || (ownRaise s).testBit k

/-- `bits_independent`: no other bit is altered — a documented bit that was set stays set, unless
    the step documents that it replaces it -/
def nothingElseCleared (s : Step) (before after : Nat) : Bool :=
  (List.range 12).all fun k => !(before.testBit k && !after.testBit k) || (mayClear s).testBit k

/-- `no_undocumented_bit` -/
def documentedOnly (f : Nat) : Bool := decide (f < 4096)

/-- `later_steps_own_bits`, second half — how the own bits relate: the cross-checking never leaves a pixel both
    occluded and mismatched; an interpolation raises 4 (resp. 5) only in replacement of 8 (resp. 9) — sgm also of a
    mismatch it treats as an occlusion (9 → 8 → 4, or 9 → 8 when it cannot be filled) -/
def replacementOK (s : Step) (before after : Nat) : Bool :=
  match s with
  | .crossCheck _ => !(after.testBit 8 && after.testBit 9) || (before.testBit 8 && before.testBit 9)
  | .interpMcCnn _ _ =>
      (!(after.testBit 4 && !before.testBit 4) || (before.testBit 8 && !after.testBit 8))
      && (!(after.testBit 5 && !before.testBit 5) || (before.testBit 9 && !after.testBit 9))
  | .interpSgm _ _ _ =>
      (!(after.testBit 4 && !before.testBit 4) || ((before.testBit 8 || before.testBit 9) && !after.testBit 8))
      && (!(after.testBit 5 && !before.testBit 5) || (before.testBit 9 && !after.testBit 9))
      && (!(after.testBit 8 && !before.testBit 8) || (before.testBit 9 && !after.testBit 9))
  | _ => true

/-- image-border pixels carry bit 0 only, after every step; the other pixels change only by the step's own bits -/
def stepOK (border : Bool) (s : Step) (before after : Nat) : Bool :=
  if border then after == leftNodataOrBorder
  else onlyOwnRaised s before after && replacementOK s before after && nothingElseCleared s before after
    && documentedOnly after

/-- all the steps of a run satisfy `stepOK` -/
def runOK (ops : Ops) (border : Bool) : List Step → Nat → Bool
  | [], _ => true
  | s :: ss, f => stepOK border s f (stepFlag ops border s f) && runOK ops border ss (stepFlag ops border s f)

/-- the clauses that fail for an observed transition `before → after` of a pixel under step `s` -/
def failingStepClauses (border : Bool) (s : Step) (before after : Nat) : List String :=
  let chk (name : String) (ok : Bool) : List String := if ok then [] else [name]
  if border then chk "border_bit0_only" (after == leftNodataOrBorder)
  else
    chk "later_steps_own_bits" (onlyOwnRaised s before after && replacementOK s before after)
    ++ chk "bits_independent" (nothingElseCleared s before after)
    ++ chk "no_undocumented_bit" (documentedOnly after)

/-- the values the model allows for a pixel after a step of the given kind, over all decisions -/
def outcomes (ops : Ops) (border : Bool) (kind : String) (f : Nat) : List Nat :=
  match kind with
  | "refinement" => [stepFlag ops border (.refine false) f, stepFlag ops border (.refine true) f]
  | "filter" => [f]
  | "filter_intervals" => [stepFlag ops border (.filterIntervals false) f, stepFlag ops border (.filterIntervals true) f]
  | "cross_checking" => [CC.consistent, CC.mismatch, CC.occlusion].map fun d => stepFlag ops border (.crossCheck d) f
  | "mc_cnn" => [(false, false), (false, true), (true, false), (true, true)].map fun d =>
      stepFlag ops border (.interpMcCnn d.1 d.2) f
  | "sgm" => [false, true].flatMap fun n => [(false, false), (false, true), (true, false), (true, true)].map fun d =>
      stepFlag ops border (.interpSgm n d.1 d.2) f
  | _ => []

/-- a representative step of a kind, for the specification (its own/clearable bits do not depend on
    the decision) -/
def stepOfKind (kind : String) : Option Step :=
  match kind with
  | "refinement" => some (.refine false)
  | "filter" => some .filter
  | "filter_intervals" => some (.filterIntervals false)
  | "cross_checking" => some (.crossCheck .consistent)
  | "mc_cnn" => some (.interpMcCnn false false)
  | "sgm" => some (.interpSgm false false false)
  | _ => none

end Pandora.FlagSteps
