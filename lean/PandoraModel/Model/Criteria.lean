/-
  C04, part 1 — executable model of `pandora/criteria.py` (the validity mask built with the cost
  volume), of the NaN pattern of the masked cost volume, of the invalid-disparity rule of the
  disparity step, and the executable *specification* of the "before validation" clauses.
  Core Lean only.

  What is modelled (as coded, same order, same `+=`):
  * `validity_mask`            three sign cases on the global interval `[dmin, dmax]`, tests on the
                               interval end points, absolute `col` coordinates; `+= 4`, then `+= 2`
  * `allocate_left_mask`       `+= dil * 1`, `+= 64` where the left mask is neither nodata nor valid
  * `allocate_right_mask`      the loop over the integer disparities with the two counters `b_2_7`
                               and `no_data_right`, their reset on the `bit_1` columns, the `== len`
                               tests *inside* the loop, `+= 128`, `+= 2`
  * `mask_invalid_variable_disparity_range`   `+ 2` where every cost is NaN and `flag & 2 == 0`
  * `mask_border`              border pixels overwritten with 1 (only when `offset > 0`)
  * `binary_dilation` of the nodata cells with a full `window × window` structuring element
    (scipy primitive — modelled, see `dilated`; odd windows only, as `check_conf` enforces)
  * the NaN pattern of the cost volume after `cv_masked` (`computable`): own definition, compared
    with the real cost volume by the correspondence
  * `to_disp`: winner-takes-all (first best index, NaN costs replaced by ±inf) and the
    `invalid_disparity` overwrite of all-NaN pixels

  Images are index functions with explicit dimensions; step_col = 1 (the default sampling).
-/
import PandoraModel.Model.Basic
import PandoraModel.Model.Flags

namespace Pandora.Criteria
open Pandora.Flags

/-- classification of a cell of an input mask: `== valid_pixels`, `== no_data_mask`, anything else -/
inductive Cls where
  | valid | nodata | invalid
  deriving DecidableEq, Repr, Inhabited

structure Input where
  rows : Nat
  cols : Nat
  /-- `offset_row_col = int((window_size - 1) / 2)`; the window is `2 * off + 1` -/
  off : Nat
  /-- first value of the `col` coordinate (`col[i] = col0 + i`) -/
  col0 : Int
  /-- global integer interval: first and last value of the `disp` coordinate -/
  dmin : Int
  dmax : Int
  hasL : Bool
  mL : Nat → Nat → Cls
  hasR : Bool
  mR : Nat → Nat → Cls

namespace Input

def colAt (I : Input) (c : Nat) : Int := I.col0 + (c : Int)
/-- `col[-1]` -/
def colLast (I : Input) : Int := I.col0 + (I.cols : Int) - 1

end Input

/-! ### `validity_mask`: bits 1 and 2 from the interval end points -/

/-- the index set `bit_1` -/
def vmBit1 (I : Input) (c : Nat) : Bool :=
  if I.dmax < 0 then decide (I.colAt c + I.dmax < I.colAt 0 + (I.off : Int))
  else if I.dmin > 0 then decide (I.colAt c + I.dmin > I.colLast - (I.off : Int))
  else false

/-- the columns that receive `PANDORA_MSK_PIXEL_RIGHT_INCOMPLETE_DISPARITY_RANGE` -/
def vmBit2 (I : Input) (c : Nat) : Bool :=
  if I.dmax < 0 then
    decide (I.colAt c + I.dmax ≥ I.colAt 0 + (I.off : Int)) && decide (I.colAt c + I.dmin < I.colAt 0 + (I.off : Int))
  else if I.dmin > 0 then
    decide (I.colAt c + I.dmin ≤ I.colLast - (I.off : Int)) && decide (I.colAt c + I.dmax > I.colLast - (I.off : Int))
  else
    decide (I.colAt c + I.dmin < I.colAt 0 + (I.off : Int)) || decide (I.colAt c + I.dmax > I.colLast - (I.off : Int))

/-- the mask after the first part of `validity_mask`: `0`, `+= 4` on the incomplete columns,
    `+= 2` on the `bit_1` columns -/
def vm1 (I : Input) (c : Nat) : Nat :=
  (0 + (if vmBit2 I c then rightIncompleteRange else 0)) + (if vmBit1 I c then rightNodataOrRangeMissing else 0)

/-! ### `binary_dilation_msk` -/

/-- scipy `binary_dilation(msk == no_data, ones((w, w)))` at `(r, c)`, `w = 2 * off + 1`: some nodata
    cell of the image lies in the window centred on `(r, c)` (cells outside the image count as 0) -/
def dilated (rows cols off : Nat) (m : Nat → Nat → Cls) (r c : Nat) : Bool :=
  (List.range (2 * off + 1)).any fun i => (List.range (2 * off + 1)).any fun j =>
    decide (off ≤ r + i ∧ r + i - off < rows ∧ off ≤ c + j ∧ c + j - off < cols)
      && (m (r + i - off) (c + j - off) == Cls.nodata)

/-! ### `allocate_left_mask` -/

def allocLeft (I : Input) (f : Nat) (r c : Nat) : Nat :=
  let f := f + (if dilated I.rows I.cols I.off I.mL r c then 1 else 0) * leftNodataOrBorder
  f + (if I.mL r c == Cls.invalid then inValidityMaskLeft else 0)

/-! ### `allocate_right_mask` -/

/-- `range(d_min, d_max + 1)` -/
def dispList (a b : Int) : List Int := (List.range (b - a + 1).toNat).map fun (i : Nat) => a + (i : Int)

/-- `valid_index` of the loop, for the column `c` and the disparity `dsp` (array indices) -/
def inIdx (I : Input) (c : Nat) (dsp : Int) : Bool :=
  decide ((I.off : Int) ≤ (c : Int) + dsp ∧ (c : Int) + dsp ≤ (I.cols : Int) - 1 - (I.off : Int))

def rInvAt (I : Input) (r : Nat) (x : Int) : Bool := I.mR r x.toNat == Cls.invalid
def rDilAt (I : Input) (r : Nat) (x : Int) : Bool := dilated I.rows I.cols I.off I.mR r x.toNat

structure RState where
  b27 : Nat
  ndr : Nat
  flag : Nat
  deriving Repr, DecidableEq

/-- one iteration of `for dsp in range(d_min, d_max + 1)` seen from the pixel `(r, c)`;
    `n = len(range(d_min, d_max + 1))` -/
def rightIter (I : Input) (r c n : Nat) (st : RState) (dsp : Int) : RState :=
  let x : Int := (c : Int) + dsp
  let b := st.b27 + (if inIdx I c dsp then (if rInvAt I r x then 1 else 0) else 1)
  let nd := st.ndr + (if inIdx I c dsp then (if rDilAt I r x then 1 else 0) else 1)
  let b := if vmBit1 I c then 0 else b
  let nd := if vmBit1 I c then 0 else nd
  let f := if b == n then st.flag + inValidityMaskRight else st.flag
  let f := if nd == n then f + rightNodataOrRangeMissing else f
  { b27 := b, ndr := nd, flag := f }

def allocRight (I : Input) (f : Nat) (r c : Nat) : Nat :=
  let ds := dispList I.dmin I.dmax
  (ds.foldl (rightIter I r c ds.length) { b27 := 0, ndr := 0, flag := f }).flag

/-- the mask returned by `validity_mask` (what `matching_cost_prepare` stores) -/
def stage1 (I : Input) (r c : Nat) : Nat :=
  let f := vm1 I c
  let f := if I.hasL then allocLeft I f r c else f
  if I.hasR then allocRight I f r c else f

/-! ### `mask_invalid_variable_disparity_range`, `mask_border` -/

def maskInvalidVar (allNan : Bool) (f : Nat) : Nat :=
  if allNan then (if f &&& rightNodataOrRangeMissing == 0 then f + rightNodataOrRangeMissing else f) else f

/-- the four slices of `mask_border` -/
def inBorder (rows cols off : Nat) (r c : Nat) : Bool :=
  decide (r < off) || decide (rows ≤ r + off) || decide (c < off) || decide (cols ≤ c + off)

def isBorder (I : Input) (r c : Nat) : Bool := decide (0 < I.off) && inBorder I.rows I.cols I.off r c

def maskBorder (I : Input) (f : Nat) (r c : Nat) : Nat :=
  if 0 < I.off then (if inBorder I.rows I.cols I.off r c then leftNodataOrBorder else f) else f

/-- the validity mask of the cost volume after `matching_cost` (`cv_masked`), given which pixels have
    an all-NaN cost column -/
def finalMask (I : Input) (allNan : Nat → Nat → Bool) (r c : Nat) : Nat :=
  maskBorder I (maskInvalidVar (allNan r c) (stage1 I r c)) r c

/-! ### NaN pattern of the cost volume (own definition of "computable") -/

structure CvInput extends Input where
  subpix : Nat
  /-- per-pixel disparity interval (`disp_min`, `disp_max` grids) -/
  pixMin : Nat → Nat → Int
  pixMax : Nat → Nat → Int

/-- number of disparity samples: `dmin, dmin + 1/subpix, …, dmax` -/
def nDisp (J : CvInput) : Nat := (J.dmax - J.dmin).toNat * J.subpix + 1

/-- the window centred on `(r, c)` lies inside the image -/
def winInside (rows cols off r c : Nat) : Bool :=
  decide (off ≤ r ∧ r + off < rows ∧ off ≤ c ∧ c + off < cols)

/-- a usable integer position `x` of the right image on row `r`: window inside the image, no nodata
    in the window, centre not masked -/
def rightOk (J : CvInput) (r : Nat) (x : Int) : Bool :=
  decide ((J.off : Int) ≤ x ∧ x + (J.off : Int) ≤ (J.cols : Int) - 1)
    && !(J.hasR && (rDilAt J.toInput r x || rInvAt J.toInput r x))

/-- the cost of pixel `(r, c)` at sample `j` (disparity `dmin + j / subpix`) is a number:
    window inside the left image, no nodata in the left window, left centre not masked,
    the right position usable — for a fractional disparity both integer neighbours
    `⌊c + d⌋` and `⌊c + d⌋ + 1` — and the disparity inside the interval of the pixel -/
def computable (J : CvInput) (r c j : Nat) : Bool :=
  let x : Int := (c : Int) + J.dmin + ((j / J.subpix : Nat) : Int)
  winInside J.rows J.cols J.off r c
    && !(J.hasL && (dilated J.rows J.cols J.off J.mL r c || J.mL r c == Cls.invalid))
    && (if j % J.subpix = 0 then rightOk J r x else rightOk J r x && rightOk J r (x + 1))
    && decide (J.pixMin r c * (J.subpix : Int) ≤ J.dmin * (J.subpix : Int) + (j : Int)
               ∧ J.dmin * (J.subpix : Int) + (j : Int) ≤ J.pixMax r c * (J.subpix : Int))

def allNanOf (J : CvInput) (r c : Nat) : Bool := (List.range (nDisp J)).all fun j => !computable J r c j

/-- the model of the validity mask after the `matching_cost` step -/
def modelMask (J : CvInput) (r c : Nat) : Nat := finalMask J.toInput (allNanOf J) r c

/-! ### disparity step: winner-takes-all and the invalid value -/

/-- `a` is strictly better than `b`; NaN has been replaced by `+inf` (min) / `-inf` (max) -/
def better (isMax : Bool) (a b : Val) : Bool :=
  match a, b with
  | .num x, .num y => if isMax then decide (y < x) else decide (x < y)
  | .num _, .nan => true
  | .nan, _ => false

/-- `argmin` / `argmax` (first occurrence) over the costs of one pixel: returns (index, value) -/
def argBestAux (isMax : Bool) : List Val → Nat → Nat → Val → Nat
  | [], _, bi, _ => bi
  | v :: vs, i, bi, bv => if better isMax v bv then argBestAux isMax vs (i + 1) i v else argBestAux isMax vs (i + 1) bi bv

def argBest (isMax : Bool) (costs : List Val) : Nat :=
  match costs with
  | [] => 0
  | v :: vs => argBestAux isMax vs 1 0 v

/-- the disparity of one pixel after `to_disp`: sample `dmin + idx / subpix`, overwritten by
    `invalid_disparity` when every cost is NaN -/
def toDisp (isMax : Bool) (dmin : Int) (subpix : Nat) (invalid : Val) (costs : List Val) : Val :=
  if costs.all Val.isNan then invalid
  else Val.num ((dmin : Rat) + ((argBest isMax costs : Nat) : Rat) / ((subpix : Nat) : Rat))

/-! ### Specification of the "before validation" clauses (declarative, executable) -/

/-- bits 0, 1, 6, 7: the causes of invalidity that exist before validation -/
def preInvalidBits : Nat := leftNodataOrBorder + rightNodataOrRangeMissing + inValidityMaskLeft + inValidityMaskRight

def isInvalidPre (f : Nat) : Bool := (f &&& preInvalidBits) != 0

/-- `In`: the disparities of the global interval whose right window lies inside the right image -/
def inSet (I : Input) (c : Nat) : List Int := (dispList I.dmin I.dmax).filter (inIdx I c)

/-- some cell of the image inside the window centred on `(r, c)` is nodata (scan of the whole image) -/
def nodataInWindow (rows cols off : Nat) (m : Nat → Nat → Cls) (r c : Nat) : Bool :=
  (List.range rows).any fun r' => (List.range cols).any fun c' =>
    decide (r' ≤ r + off ∧ r ≤ r' + off ∧ c' ≤ c + off ∧ c ≤ c' + off) && (m r' c' == Cls.nodata)

/-- bit 0: border, or nodata in the left window -/
def specBit0 (I : Input) (r c : Nat) : Bool :=
  isBorder I r c || (I.hasL && nodataInWindow I.rows I.cols I.off I.mL r c)

/-- bit 6: left pixel masked (not on the border) -/
def specBit6 (I : Input) (r c : Nat) : Bool := !isBorder I r c && I.hasL && (I.mL r c == Cls.invalid)

/-- bit 2: part of the interval falls outside the right image (and part of it inside) -/
def specBit2 (I : Input) (r c : Nat) : Bool :=
  !isBorder I r c && !(inSet I c).isEmpty && (dispList I.dmin I.dmax).any fun d => !inIdx I c d

/-- bit 7: the interval reaches the right image and every in-image right candidate is masked -/
def specBit7 (I : Input) (r c : Nat) : Bool :=
  !isBorder I r c && I.hasR && !(inSet I c).isEmpty && (inSet I c).all fun d => rInvAt I r ((c : Int) + d)

/-- bit 1: no disparity of the pixel yields a computable cost (not on the border) -/
def specBit1 (J : CvInput) (r c : Nat) : Bool := !isBorder J.toInput r c && allNanOf J r c

/-- equality of float cells with NaN equal to NaN (how the harness compares with `invalid_disparity`) -/
def sameVal (a b : Val) : Bool :=
  match a, b with
  | .nan, .nan => true
  | .num x, .num y => x == y
  | _, _ => false

/-- the clauses of the specification that fail at pixel `(r, c)` for an observed mask value `f`,
    observed all-NaN indicator `nanAll` and observed disparity `disp` (`none`: not observed) -/
def failingClauses (J : CvInput) (invalidDisp : Val) (r c : Nat) (f : Nat) (nanAll : Bool) (disp : Option Val) :
    List String :=
  let I := J.toInput
  let chk (name : String) (ok : Bool) : List String := if ok then [] else [name]
  chk "invalid_iff_all_nan" (isInvalidPre f == nanAll)
  ++ (match disp with
      | none => []
      | some d => chk "invalid_iff_invalid_disp" (sameVal d invalidDisp == isInvalidPre f))
  ++ chk "border_bit0_only" (!isBorder I r c || f == leftNodataOrBorder)
  ++ chk "bit0_cause" (hasBit f leftNodataOrBorder == specBit0 I r c)
  ++ chk "bit6_cause" (hasBit f inValidityMaskLeft == specBit6 I r c)
  ++ chk "bit1_cause" (hasBit f rightNodataOrRangeMissing == specBit1 J r c)
  ++ chk "bit2_cause" (hasBit f rightIncompleteRange == specBit2 I r c)
  ++ chk "bit7_cause" (hasBit f inValidityMaskRight == specBit7 I r c)
  ++ chk "no_undocumented_bit" (decide (f < 256) && !hasBit f 8 && !hasBit f 16 && !hasBit f 32)

end Pandora.Criteria
