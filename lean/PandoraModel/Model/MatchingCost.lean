/-
  Matching-cost step (C02, C09): executable model of the code path and executable specification.

  MODEL — mirrors, stage by stage, what `pandora/matching_cost/{matching_cost,sad_ssd,census,zncc}.py` and
  `pandora/img_tools.py` do (see DESIGN_NOTES/C02.md for the line-by-line map):

    shiftRight        img_tools.shift_right_img          (scipy zoom order 1 = linear interpolation, `[:, ind::subpix]`)
    pointInterval     AbstractMatchingCost.point_interval (max/min, then ceil for d < 0, floor otherwise)
    pixelWise, enlarge, slidingSum, reNanBorder           SadSsd.compute_cost_volume / pixel_wise_aggregation
    censusBits, popcount32b, rawCensus                    img_tools.census_transform, Census.census_cost / popcount32b
    meanRaster, varRaster, rawZncc                        img_tools.compute_mean_raster / compute_std_raster, Zncc
    maskRaster, maskShift, cvMaskedLoop, intervalMask     masks_dilatation, cv_masked
    dispRange, gridMin, gridMax                           get_disparity_range, get_min_max_from_grid
    typeMeasure, cmax                                     the attributes written by compute_cost_volume

  Arrays are index functions over `Int` with explicit dimensions (DESIGN.md §4); a disparity `d` is carried as
  its numerator `k` over the fixed denominator `subpix` (`d = k / subpix`), so that all index arithmetic is
  integer arithmetic (the code's float `ceil`/`floor`/`% 1` are exact on these dyadic values).

  SPEC — `specCell` is written from the property statement alone: the textbook formula of each measure on
  the window centred on the left pixel and the window centred at `column + d` in the linearly interpolated
  right image, and `cause` = the first reason of the statement for which the cost is not computable.

  Core Lean only (no Mathlib).
-/
import PandoraModel.Model.Basic

namespace Pandora.MC

/-! ## Data -/

inductive Measure where
  | sad | ssd | census | zncc
  deriving DecidableEq, Repr, Inhabited

def Measure.ofString? : String → Option Measure
  | "sad" => some .sad
  | "ssd" => some .ssd
  | "census" => some .census
  | "zncc" => some .zncc
  | _ => none

/-- an image band: dimensions and a total pixel function (meaningful for `0 ≤ r < rows`, `0 ≤ c < cols`) -/
structure Img where
  rows : Nat
  cols : Nat
  px : Int → Int → Rat

/-- the `msk` raster of a dataset with its two codes (`valid_pixels`, `no_data_mask`);
    `present = false` models a dataset without `msk` -/
structure Mask where
  present : Bool
  code : Int → Int → Int
  valid : Int
  nodata : Int

/-- a cost-volume cell: NaN, an exact number, or (zncc) the symbolic quotient `cov / √vv` with `vv > 0` -/
inductive Cell where
  | nan : Cell
  | num : Rat → Cell
  | zn : Rat → Rat → Cell
  deriving DecidableEq, Repr, Inhabited

def Cell.isNan : Cell → Bool
  | .nan => true
  | _ => false

def Cell.ofVal : Val → Cell
  | .nan => .nan
  | .num q => .num q

/-- `cell += m` for a mask value `m` (the mask rasters only hold 0 and NaN) -/
def Cell.addMask (c : Cell) (m : Val) : Cell :=
  match m with
  | .nan => .nan
  | .num _ => c

/-- everything the matching-cost step reads -/
structure Input where
  meas : Measure
  w : Nat               -- window_size (odd)
  sp : Nat              -- subpix
  L : Img               -- selected band of the reference ("left") image
  R : Img               -- selected band of the secondary ("right") image
  mL : Mask
  mR : Mask
  dminG : Int → Int → Int   -- per-pixel disparity grids (constant for a scalar interval)
  dmaxG : Int → Int → Int

/-! ## Small tools -/

/-- `Σ_{i = lo}^{lo+n-1} f i` -/
def sumZ {α : Type} [Add α] (z : α) (f : Int → α) (lo : Int) : Nat → α
  | 0 => z
  | n + 1 => sumZ z f lo n + f (lo + n)

/-- `∀ i ∈ [lo, lo+n)`, as a Bool -/
def allZ (f : Int → Bool) (lo : Int) : Nat → Bool
  | 0 => true
  | n + 1 => allZ f lo n && f (lo + n)

/-- `∃ i ∈ [lo, lo+n)`, as a Bool -/
def anyZ (f : Int → Bool) (lo : Int) : Nat → Bool
  | 0 => false
  | n + 1 => anyZ f lo n || f (lo + n)

def ratAbs (q : Rat) : Rat := if q < 0 then -q else q

/-- half window `int((window_size - 1) / 2)` -/
def half (w : Nat) : Nat := (w - 1) / 2

/-- floor and ceiling of the rational `n / sp` (`sp > 0`) -/
def fdiv (n sp : Int) : Int := n / sp
def cdiv (n sp : Int) : Int := -((-n) / sp)

/-! ## Disparity range -/

/-- fold of a binary operation over the grid cells in row-major order (`np.nanmin` / `np.nanmax`) -/
def gridFold (op : Int → Int → Int) (g : Int → Int → Int) (rows cols : Nat) : Int :=
  let cells := (List.range rows).flatMap (fun (r : Nat) => (List.range cols).map (fun (c : Nat) => g r c))
  match cells with
  | [] => 0
  | x :: xs => xs.foldl op x

def gridMin (g : Int → Int → Int) (rows cols : Nat) : Int := gridFold min g rows cols
def gridMax (g : Int → Int → Int) (rows cols : Nat) : Int := gridFold max g rows cols

/-- `get_disparity_range`, as numerators over `sp`:
    subpix 1: `arange(dmin, dmax + 1)`; otherwise `arange(dmin, dmax, 1/subpix)` followed by `dmax` -/
def dispRange (gmin gmax : Int) (sp : Nat) : List Int :=
  if sp = 1 then (List.range (gmax + 1 - gmin).toNat).map (fun (j : Nat) => gmin + (j : Int))
  else (List.range ((gmax - gmin) * sp).toNat).map (fun (j : Nat) => gmin * (sp : Int) + (j : Int)) ++ [gmax * sp]

/-- number of disparity samples -/
def nDisp (gmin gmax : Int) (sp : Nat) : Nat := (dispRange gmin gmax sp).length

/-! ## shift_right_img -/

/-- column `kk` of one row of `zoom(band, (1, (nx*sp - (sp-1))/nx), order=1)`: the right image at position `kk/sp` -/
def zoomCol (R : Img) (sp : Nat) (r kk : Int) : Rat :=
  let j := kk / (sp : Int)
  let t := kk % (sp : Int)
  if t = 0 then R.px r j
  else (((sp : Int) - t : Int) : Rat) / ((sp : Int) : Rat) * R.px r j + ((t : Int) : Rat) / ((sp : Int) : Rat) * R.px r (j + 1)

/-- `img_right_shift[i]`: `i = 0` the image itself, else `zoomed[:, i::sp]` with `nx - 1` columns -/
def shiftRight (R : Img) (sp i : Nat) : Img :=
  if i = 0 then R
  else { rows := R.rows, cols := R.cols - 1, px := fun r j => zoomCol R sp r ((i : Int) + j * (sp : Int)) }

/-- `i_right = int((disp % 1) * subpix)` -/
def iRight (k : Int) (sp : Nat) : Nat := (k % (sp : Int)).toNat

/-! ## point_interval -/

structure PQ where
  p0 : Int
  p1 : Int
  q0 : Int
  q1 : Int
  deriving Repr, DecidableEq

/-- `point_interval(img_left, img_right, disp)` with `disp = k/sp`, `nxL`/`nxR` the two widths -/
def pointInterval (nxL nxR : Int) (k : Int) (sp : Nat) : PQ :=
  let s : Int := sp
  -- numerators over `sp` of (max(0 - d, 0), min(nxL - d, nxL)) and (max(0 + d, 0), min(nxR + d, nxR))
  let p0 := max (0 - k) 0
  let p1 := min (nxL * s - k) (nxL * s)
  let q0 := max (0 + k) 0
  let q1 := min (nxR * s + k) (nxR * s)
  if k < 0 then ⟨cdiv p0 s, cdiv p1 s, cdiv q0 s, cdiv q1 s⟩
  else ⟨fdiv p0 s, fdiv p1 s, fdiv q0 s, fdiv q1 s⟩

/-! ## SAD / SSD -/

def pixelCost : Measure → Rat → Rat → Rat
  | .ssd, a, b => (a - b) * (a - b)
  | _, a, b => ratAbs (a - b)

/-- `cv[disp_index, p0:p1, :] = ad_cost / sd_cost (point_p, point_q, img_left, img_right_shift[i_right])`
    on the NaN-initialised volume -/
def pixelWise (m : Measure) (L Rk : Img) (k : Int) (sp : Nat) : Int → Int → Val :=
  let pq := pointInterval L.cols Rk.cols k sp
  fun r c =>
    if pq.p0 ≤ c ∧ c < pq.p1 then .num (pixelCost m (L.px r c) (Rk.px r (pq.q0 + (c - pq.p0)))) else .nan

/-- `cv_enlarge`: the volume over-allocated by `offset` NaN rows/columns on each side -/
def enlarge (o rows cols : Nat) (f : Int → Int → Val) : Int → Int → Val :=
  fun r c => if (o : Int) ≤ r ∧ r < o + rows ∧ (o : Int) ≤ c ∧ c < o + cols then f (r - o) (c - o) else .nan

/-- `pixel_wise_aggregation`: sum over the `w × w` sliding window whose top-left corner is `(r, c)` -/
def slidingSum (w : Nat) (f : Int → Int → Val) : Int → Int → Val :=
  fun r c => sumZ (Val.num 0) (fun a => sumZ (Val.num 0) (fun b => f a b) c w) r w

/-- `cv[:o] = cv[-o:] = cv[:, :o] = cv[:, -o:] = nan` (only `if offset_row_col`) -/
def reNanBorder (o rows cols : Nat) (f : Int → Int → Val) : Int → Int → Val :=
  fun r c =>
    if o > 0 ∧ (r < o ∨ r ≥ (rows : Int) - o ∨ c < o ∨ c ≥ (cols : Int) - o) then .nan else f r c

def rawSadSsd (x : Input) (k : Int) : Int → Int → Cell :=
  let o := half x.w
  let Rk := shiftRight x.R x.sp (iRight k x.sp)
  let pw := pixelWise x.meas x.L Rk k x.sp
  -- (for `o = 0` the "enlarged" volume is the volume itself)
  let agg := slidingSum x.w (enlarge o x.L.rows x.L.cols pw)
  fun r c => Cell.ofVal (reNanBorder o x.L.rows x.L.cols agg r c)

/-! ## Census -/

/-- `census_transform` at truncated coordinates `(r, c)` (window top-left corner; centre `(r+o, c+o)`):
    the loop `census += (windows[:, :, row, col] > central) << shift; shift -= 1` -/
def censusBits (w : Nat) (img : Img) (r c : Int) : Nat :=
  let o : Int := half w
  let centre := img.px (r + o) (c + o)
  (List.range w).foldl (fun (acc : Nat) (a : Nat) =>
    (List.range w).foldl (fun (acc : Nat) (b : Nat) =>
      acc + ((if img.px (r + (a : Int)) (c + (b : Int)) > centre then (1 : Nat) else 0) <<< (w * w - 1 - (a * w + b)))) acc) 0

/-- `Census.popcount32b` (no 32-bit wrap-around can occur: every intermediate value is below 2^32) -/
def popcount32b (row : Nat) : Nat :=
  let row := row - ((row >>> 1) &&& 0x55555555)
  let row := (row &&& 0x33333333) + ((row >>> 2) &&& 0x33333333)
  let row := (row + (row >>> 4)) &&& 0x0F0F0F0F
  let row := row + (row >>> 8)
  let row := row + (row >>> 16)
  row &&& 0x7F

def rawCensus (x : Input) (k : Int) : Int → Int → Cell :=
  let o := half x.w
  let Rk := shiftRight x.R x.sp (iRight k x.sp)
  -- the census images are truncated by `o` on each side: widths `cols - (w - 1)`
  let pq := pointInterval ((x.L.cols : Int) - (x.w - 1 : Nat)) ((Rk.cols : Int) - (x.w - 1 : Nat)) k x.sp
  fun r c =>
    -- `cv_crop = cv[:, o:-o, o:-o]`; `cv_crop[disp_index, p0:p1, :] = census_cost(...)`
    let r' := r - o
    let c' := c - o
    if 0 ≤ r' ∧ r' < (x.L.rows : Int) - 2 * o ∧ 0 ≤ c' ∧ c' < (x.L.cols : Int) - 2 * o ∧ pq.p0 ≤ c' ∧ c' < pq.p1 then
      .num (popcount32b (censusBits x.w x.L r' c' ^^^ censusBits x.w Rk r' (pq.q0 + (c' - pq.p0))))
    else .nan

/-! ## ZNCC -/

/-- `compute_mean_raster` of a `rows × cols` raster `f`, at truncated coordinates `(i, j)`:
    cumulative sum down the rows (with a leading zero row), difference at distance `w`,
    cumulative sum along the columns (with a leading zero column), difference at distance `w`, `/ w²` -/
def meanRaster (w : Nat) (f : Int → Int → Rat) : Int → Int → Rat :=
  let cum1 := fun (i c : Int) => sumZ (0 : Rat) (fun i' => f i' c) 0 i.toNat
  let dif1 := fun (i c : Int) => cum1 (i + w) c - cum1 i c
  let cum2 := fun (i j : Int) => sumZ (0 : Rat) (fun j' => dif1 i j') 0 j.toNat
  let dif2 := fun (i j : Int) => cum2 i (j + w) - cum2 i j
  fun i j => dif2 i j / ((w * w : Nat) : Rat)

/-- `10 ** (-15)` -/
def tiny : Rat := 1 / 1000000000000000

/-- the radicand of `compute_std_raster`: `E[x²] − E[x]²`, set to 0 when `< 1e-15·|E[x²]|` -/
def varRaster (w : Nat) (f : Int → Int → Rat) : Int → Int → Rat :=
  let m := meanRaster w f
  let m2 := meanRaster w (fun r c => f r c * f r c)
  fun i j =>
    let v := m2 i j - m i j * m i j
    if v < tiny * ratAbs (m2 i j) then 0 else v

def rawZncc (x : Input) (k : Int) : Int → Int → Cell :=
  let o := half x.w
  let Rk := shiftRight x.R x.sp (iRight k x.sp)
  let pq := pointInterval x.L.cols Rk.cols k x.sp
  let meanL := meanRaster x.w x.L.px
  let meanR := meanRaster x.w Rk.px
  let varL := varRaster x.w x.L.px
  let varR := varRaster x.w Rk.px
  -- product of the two column slices, then its mean raster
  let prod := fun (r c' : Int) => x.L.px r (pq.p0 + c') * Rk.px r (pq.q0 + c')
  let mp := meanRaster x.w prod
  -- p_std = (p0, p1 - 2o), q_std = (q0, q1 - 2o)
  let pstd1 := pq.p1 - 2 * o
  fun r c =>
    let r' := r - o
    let c' := c - o
    -- `cv_crop[disp_index, p0 : p_std[1], :] = zncc_`
    if 0 ≤ r' ∧ r' < (x.L.rows : Int) - 2 * o ∧ 0 ≤ c' ∧ c' < (x.L.cols : Int) - 2 * o ∧ pq.p0 ≤ c' ∧ c' < pstd1 then
      let j := c' - pq.p0
      let cov := mp r' j - meanL r' (pq.p0 + j) * meanR r' (pq.q0 + j)
      let vv := varL r' (pq.p0 + j) * varR r' (pq.q0 + j)
      -- apply_divide_standard: divide where std_l·std_r > 0, 0 elsewhere
      if vv > 0 then .zn cov vv else .num 0
    else .nan

/-! ## compute_cost_volume -/

/-- plane of disparity `k/sp` before masking -/
def rawPlane (x : Input) (k : Int) : Int → Int → Cell :=
  match x.meas with
  | .sad | .ssd => rawSadSsd x k
  | .census => rawCensus x k
  | .zncc => rawZncc x k

/-! ## masks_dilatation and cv_masked -/

/-- `binary_dilation(msk == no_data_mask, ones((w, w)))` -/
def dilated (w : Nat) (rows cols : Nat) (m : Mask) (r c : Int) : Bool :=
  let o : Int := half w
  anyZ (fun a => anyZ (fun b =>
    decide (0 ≤ a ∧ a < rows ∧ 0 ≤ b ∧ b < cols) && decide (m.code a b = m.nodata)) (c - o) w) (r - o) w

/-- the dilated mask: NaN for invalid pixels and for pixels with nodata in their window, 0 otherwise -/
def maskRaster (w : Nat) (rows cols : Nat) (m : Mask) (r c : Int) : Val :=
  if m.present then
    if (m.code r c ≠ m.valid ∧ m.code r c ≠ m.nodata) ∨ dilated w rows cols m r c = true then .nan else .num 0
  else .num 0

/-- `mask_right[i_mask_right]`: the dilated mask, or (sub-pixel) the sum of two adjacent columns -/
def maskShift (w : Nat) (rows cols : Nat) (m : Mask) (iMask : Nat) (r j : Int) : Val :=
  if iMask = 0 then maskRaster w rows cols m r j
  else maskRaster w rows cols m r j + maskRaster w rows cols m r (j + 1)

abbrev Volume := Int → Int → Nat → Cell

/-- one iteration of the first loop of `cv_masked` (step 1) -/
def cvMaskedStep (x : Input) (gmin : Int) (cv : Volume) (k : Int) : Volume :=
  let iR := iRight k x.sp
  let Rk := shiftRight x.R x.sp iR
  let pq := pointInterval x.L.cols Rk.cols k x.sp
  let iMask := min 1 iR
  -- `dsp = int((disp - dmin) * subpix)`
  let dsp := (k - gmin * (x.sp : Int)).toNat
  fun r c j =>
    if j = dsp ∧ pq.p0 < pq.p1 ∧ pq.p0 ≤ c ∧ c < pq.p1 then
      let v := (cv r c j).addMask (maskRaster x.w x.L.rows x.L.cols x.mL r c)
      if pq.q0 < pq.q1 then v.addMask (maskShift x.w x.R.rows x.R.cols x.mR iMask r (pq.q0 + (c - pq.p0))) else v
    else cv r c j

/-- second loop of `cv_masked`: NaN where the disparity is outside the pixel's own interval -/
def intervalMask (x : Input) (gmin : Int) (cv : Volume) : Volume :=
  fun r c j =>
    let k := gmin * (x.sp : Int) + j
    if k < x.dminG r c * (x.sp : Int) ∨ k > x.dmaxG r c * (x.sp : Int) then .nan else cv r c j

/-- the cost volume after `compute_cost_volume` and `cv_masked`; disparity sample `j` is `(gmin·sp + j)/sp` -/
def costVolume (x : Input) : Volume :=
  let gmin := gridMin x.dminG x.L.rows x.L.cols
  let gmax := gridMax x.dmaxG x.L.rows x.L.cols
  let ks := dispRange gmin gmax x.sp
  let raw : Volume := fun r c j => rawPlane x (ks.getD j 0) r c
  intervalMask x gmin (ks.foldl (cvMaskedStep x gmin) raw)

/-! ## Attributes -/

def typeMeasure : Measure → String
  | .zncc => "max"
  | _ => "min"

def imgFold (op : Rat → Rat → Rat) (img : Img) : Rat :=
  let cells := (List.range img.rows).flatMap (fun (r : Nat) => (List.range img.cols).map (fun (c : Nat) => img.px r c))
  match cells with
  | [] => 0
  | v :: vs => vs.foldl op v

def ratMin (a b : Rat) : Rat := if a ≤ b then a else b
def ratMax (a b : Rat) : Rat := if a ≤ b then b else a

/-- `int(x)` (truncation of a non-negative number) or, when `up`, `int(np.ceil(x))` -/
def roundCmax (up : Bool) (q : Rat) : Int := if up then Rat.ceil q else Rat.floor q

/-- the `cmax` expressions of the three classes, from the extrema of the selected bands and the window size.
    `up = false` is the code as it stands (`int(...)`); `up = true` is the code after the proposed fix
    C02-cmax-ceil (`int(np.ceil(...))`); the translator reads which one the source uses. -/
def cmaxOf (up : Bool) (m : Measure) (maxL minL maxR minR : Rat) (w : Nat) : Int :=
  match m with
  | .sad => roundCmax up ((ratMax (ratAbs (maxL - minR)) (ratAbs (maxR - minL))) * (((w : Nat) : Rat) * ((w : Nat) : Rat)))
  | .ssd => roundCmax up ((ratMax ((ratAbs (maxL - minR)) * (ratAbs (maxL - minR))) ((ratAbs (maxR - minL)) * (ratAbs (maxR - minL)))) * (((w : Nat) : Rat) * ((w : Nat) : Rat)))
  | .census => roundCmax false (((w : Nat) : Rat) * ((w : Nat) : Rat))
  | .zncc => (1 : Int)

/-- `cmax` attribute: `np.amin` / `np.amax` of the two selected bands fed to `cmaxOf` -/
def cmax (up : Bool) (x : Input) : Int :=
  cmaxOf up x.meas (imgFold ratMax x.L) (imgFold ratMin x.L) (imgFold ratMax x.R) (imgFold ratMin x.R) x.w

/-! ## Domain of the model (`WF`) -/

/-- widest |disparity| for which the column slices of the code are well formed:
    the images (sad/ssd) resp. the truncated census / mean rasters must overlap by a non-negative amount -/
def domainWidth (x : Input) : Int :=
  match x.meas with
  | .sad | .ssd => x.L.cols
  | _ => (x.L.cols : Int) - (x.w - 1 : Nat)

/-- per-pixel `min ≤ max` -/
def gridOrdered (x : Input) : Bool :=
  allZ (fun r => allZ (fun c => decide (x.dminG r c ≤ x.dmaxG r c)) 0 x.L.cols) 0 x.L.rows

/-- hypotheses of the theorems: odd window, positive subpix, images of the same size at least as large as the
    window, per-pixel `min ≤ max`, census window 3 or 5.  Nothing about where the interval lies. -/
def wfShape (x : Input) : Bool :=
  decide (x.w % 2 = 1) && decide (0 < x.sp) && decide (x.w ≤ x.L.rows) && decide (x.w ≤ x.L.cols) &&
  decide (x.R.rows = x.L.rows) && decide (x.R.cols = x.L.cols) && gridOrdered x &&
  (x.meas != .census || decide (x.w = 3 ∨ x.w = 5))

/-- domain of the *correspondence* (not of the theorems): every sampled disparity keeps the column slices of the
    code well formed; outside it numpy raises (finding C02-F1) and the model is not compared -/
def inDomain (x : Input) : Bool :=
  let gmin := gridMin x.dminG x.L.rows x.L.cols
  let gmax := gridMax x.dmaxG x.L.rows x.L.cols
  decide (-(domainWidth x) ≤ gmin) && decide (gmax ≤ domainWidth x)

def wf (x : Input) : Bool := wfShape x && inDomain x

/-! ## Specification (from the property statement) -/

/-- the right image at row `r`, column `c + k/sp`, linearly interpolated -/
def interpR (R : Img) (sp : Nat) (k : Int) (r c : Int) : Rat :=
  let s : Int := sp
  let D := k / s
  let t := k % s
  if t = 0 then R.px r (c + D)
  else ((s - t : Int) : Rat) / (s : Rat) * R.px r (c + D) + (t : Rat) / (s : Rat) * R.px r (c + D + 1)

/-- `Σ` over the window of half-size `o` centred on `(r, c)` -/
def winSum (o : Nat) (f : Int → Int → Rat) (r c : Int) : Rat :=
  sumZ (0 : Rat) (fun a => sumZ (0 : Rat) (fun b => f a b) (c - o) (2 * o + 1)) (r - o) (2 * o + 1)

def winAll (o : Nat) (f : Int → Int → Bool) (r c : Int) : Bool :=
  allZ (fun a => allZ (fun b => f a b) (c - o) (2 * o + 1)) (r - o) (2 * o + 1)

/-- number of window positions where `f` holds -/
def winCount (o : Nat) (f : Int → Int → Bool) (r c : Int) : Nat :=
  sumZ (0 : Nat) (fun a => sumZ (0 : Nat) (fun b => if f a b then 1 else 0) (c - o) (2 * o + 1)) (r - o) (2 * o + 1)

/-- reasons for which a cost is not computable, in the order of the statement -/
inductive Cause where
  | computable
  | windowLeft        -- the left window leaves the left image
  | windowRight       -- the right window (or an interpolation neighbour) leaves the right image
  | nodataLeft        -- the left window contains a nodata pixel
  | nodataRight       -- the right window contains a nodata pixel
  | maskedLeft        -- the left centre is masked invalid
  | maskedRight       -- the right centre (or one of its two interpolation neighbours) is masked invalid
  | outsideInterval   -- the disparity lies outside the pixel's [min, max]
  deriving DecidableEq, Repr, Inhabited

def Cause.name : Cause → String
  | .computable => "computable"
  | .windowLeft => "window_left"
  | .windowRight => "window_right"
  | .nodataLeft => "nodata_left"
  | .nodataRight => "nodata_right"
  | .maskedLeft => "masked_left"
  | .maskedRight => "masked_right"
  | .outsideInterval => "outside_pixel_interval"

def isNodata (m : Mask) (r c : Int) : Bool := m.present && decide (m.code r c = m.nodata)
def isInvalid (m : Mask) (r c : Int) : Bool :=
  m.present && decide (m.code r c ≠ m.valid) && decide (m.code r c ≠ m.nodata)

/-- the first reason (if any) for which the cost of left pixel `(r, c)` at disparity `k/sp` is not computable -/
def cause (x : Input) (r c k : Int) : Cause :=
  let o := half x.w
  let s : Int := x.sp
  let D := k / s
  let frac : Int := if k % s = 0 then 0 else 1
  if k < x.dminG r c * s ∨ k > x.dmaxG r c * s then .outsideInterval
  else if ¬ ((o : Int) ≤ r ∧ r + o < x.L.rows ∧ (o : Int) ≤ c ∧ c + o < x.L.cols) then .windowLeft
  else if ¬ ((o : Int) ≤ c + D ∧ c + D + o + frac < x.R.cols) then .windowRight
  else if ! winAll o (fun a b => ! isNodata x.mL a b) r c then .nodataLeft
  else if isInvalid x.mL r c then .maskedLeft
  else if ! (winAll o (fun a b => ! isNodata x.mR a b) r (c + D)
             && (frac = 0 || winAll o (fun a b => ! isNodata x.mR a b) r (c + D + 1))) then .nodataRight
  else if isInvalid x.mR r (c + D) || (frac = 1 && isInvalid x.mR r (c + D + 1)) then .maskedRight
  else .computable

/-- textbook value of the measure for left pixel `(r, c)` and disparity `k/sp` -/
def valueSpec (x : Input) (r c k : Int) : Cell :=
  let o := half x.w
  let n : Rat := ((x.w * x.w : Nat) : Rat)
  let lf := x.L.px
  let rt := fun (a b : Int) => interpR x.R x.sp k a b
  match x.meas with
  | .sad => .num (winSum o (fun a b => ratAbs (lf a b - rt a b)) r c)
  | .ssd => .num (winSum o (fun a b => (lf a b - rt a b) * (lf a b - rt a b)) r c)
  | .census =>
    -- Hamming distance of the two census bit strings (bit = "neighbour > centre")
    .num (winCount o (fun a b => (decide (lf a b > lf r c)) != (decide (rt a b > rt r c))) r c : Nat)
  | .zncc =>
    let eL := winSum o lf r c / n
    let eR := winSum o rt r c / n
    let eLR := winSum o (fun a b => lf a b * rt a b) r c / n
    let vL := winSum o (fun a b => lf a b * lf a b) r c / n - eL * eL
    let vR := winSum o (fun a b => rt a b * rt a b) r c / n - eR * eR
    if vL = 0 ∨ vR = 0 then .num 0 else .zn (eLR - eL * eR) (vL * vR)

/-- the cell the statement prescribes -/
def specCell (x : Input) (r c k : Int) : Cell :=
  if cause x r c k = .computable then valueSpec x r c k else .nan

/-- the whole prescribed volume, indexed like `costVolume` -/
def specVolume (x : Input) : Volume :=
  let gmin := gridMin x.dminG x.L.rows x.L.cols
  fun r c j => specCell x r c (gmin * (x.sp : Int) + j)

/-- `cmax_bound`: every numeric cost is `≤ cmax` (sad/ssd/census); for zncc `cov² ≤ vv` (i.e. `|zncc| ≤ 1`) -/
def cellWithinCmax (up : Bool) (x : Input) (c : Cell) : Bool :=
  match c with
  | .nan => true
  | .num q => decide (q ≤ (cmax up x : Rat))
  | .zn cov vv => decide (cov * cov ≤ vv)

/-- the variance threshold of `compute_std_raster` never fires on a non-zero variance
    (hypothesis of the zncc theorem; true of integer radiometry of ordinary magnitude) -/
def noTinyVariance (x : Input) (k : Int) : Bool :=
  let o := half x.w
  let n : Rat := ((x.w * x.w : Nat) : Rat)
  let chk := fun (f : Int → Int → Rat) (r c : Int) =>
    let e := winSum o f r c / n
    let e2 := winSum o (fun a b => f a b * f a b) r c / n
    let v := e2 - e * e
    decide (v = 0 ∨ ¬ (v < tiny * ratAbs e2))
  allZ (fun r => allZ (fun c =>
      chk x.L.px r c && chk (fun a b => interpR x.R x.sp k a b) r c) 0 x.L.cols) 0 x.L.rows

end Pandora.MC
