/-
  Run-time support of the definitions written by `translator/pyvec_idx.py` (`Generated/KernelsCrossCheck.lean`): the INDEX
  extension of the vector sub-language of T14 (`Model/PyVec.lean`) — straight-line numpy code over one row of a map that
  selects columns with `np.where`, reads and writes arrays through integer index vectors, and builds small 2-D grids
  (`CrossCheckingAccurate.disparity_checking`, pandora/validation/validation.py).

  * `np.where(b)` of a 1-D Boolean vector is the increasing list of the positions of its `True` entries (`whereIdx`).
  * `a[idx]` (read) is `PyVec.gather`, tested by `PyVec.gatherOk`: every index must satisfy `0 ≤ i < len a`.  Python's
    negative wrap-around is NOT used by the translated code and is conservatively an error (`Res.shapeError`).
  * `a[idx] = v`, `a[idx] op= v` (write) is `scatterSet`: the assignments are made one after the other in the order of
    `idx` (numpy: with repeated indices the last one wins; `a[idx] += v` is `a[idx] = a[idx] + v`, it does not
    accumulate).  Tested by `scatterOk` (indices in range, as many values as indices).
  * 2-D arrays are lists of rows.  `np.where(B)` of a 2-D Boolean array is carried GROUPED BY ROW (`where2`: for each
    row the selected column positions; numpy's pair of index vectors is the row-major concatenation), and so is the
    1-D vector `M[np.where(B)]` (`gather2`; its numpy value is the concatenation of the groups).  Only element-wise
    operations, reads of a 1-D array through it (`rgather`) and the assignment back `M[np.where(B)] = v` (`scatter2`) are
    translated on such a grouped vector: none of them depends on the grouping.
  * `np.rint` rounds half to even (`rintQ`); `.astype(int)` truncates toward zero and sends NaN / ±inf to the most
    negative int64 (x86-64); int64 overflow of a finite value is not modelled (see DESIGN_NOTES/translator_pyvec_idx.md).
  * uint16 arrays are `List Nat`; `.astype(np.uint16)` of an integer is tested to lie in `0 ≤ x < 65536`, `+=` is tested
    not to leave the type, `-=` not to go below zero (`u16Ok`, `u16AddOk`, `u16SubOk`): numpy would wrap silently, the
    translated function returns `Res.shapeError` instead and the theorems state `Res.ok`.
  Core Lean only.
-/
import PandoraModel.Model.PyVec

namespace Pandora.PyVecIdx
open Pandora Pandora.PyLoops Pandora.PyVec

/-! ### scalars -/

def ile (a b : Int) : Bool := decide (a ≤ b)
def ilt (a b : Int) : Bool := decide (a < b)
def ieq (a b : Int) : Bool := decide (a = b)
def neq (a b : Nat) : Bool := decide (a = b)

/-- the most negative int64: what `.astype(int)` makes of NaN and ±inf on x86-64 -/
def intMin : Int := -9223372036854775808

/-- `np.rint` on a rational: nearest integer, exact halves go to the even neighbour -/
def rintQ (x : Rat) : Int :=
  let f := x.floor
  let r := x - (f : Rat)
  if r < 1 / 2 then f
  else if 1 / 2 < r then f + 1
  else if f % 2 = 0 then f else f + 1

/-- `np.rint` -/
def rint : Fl → Fl
  | .fin q => .fin ((rintQ q : Int) : Rat)
  | x => x

/-- truncation toward zero -/
def truncQ (q : Rat) : Int := if 0 ≤ q then q.floor else -((-q).floor)

/-- `.astype(int)` of a float -/
def castInt : Fl → Int
  | .fin q => truncQ q
  | _ => intMin

/-- `.astype(np.uint16)` of an integer (tested by `u16Ok`) -/
def castU16 (i : Int) : Nat := i.toNat
def u16Ok (i : Int) : Bool := decide (0 ≤ i) && decide (i < 65536)
/-- `a + b` stays a uint16 -/
def u16AddOk (a b : Nat) : Bool := decide (a + b < 65536)
/-- `a - b` does not go below zero -/
def u16SubOk (a b : Nat) : Bool := decide (b ≤ a)

/-! ### index vectors -/

/-- `np.where(b)`, `b` a 1-D Boolean vector -/
def whereIdx (b : List Bool) : List Int :=
  ((List.range b.length).filter (fun i => b.getD i false)).map (fun (i : Nat) => (i : Int))

/-- `v[i] = x` for an index already tested to be in range (out of range: no effect) -/
def setAt {α : Type} (v : List α) (i : Int) (x : α) : List α := if 0 ≤ i then v.set i.toNat x else v

/-- `v[idx] = vals`: one assignment after the other -/
def scatterSet {α : Type} (v : List α) (idx : List Int) (vals : List α) : List α :=
  (idx.zip vals).foldl (fun acc p => setAt acc p.1 p.2) v

def scatterOk {α β : Type} (v : List α) (idx : List Int) (vals : List β) : Bool :=
  gatherOk v idx && sameLen idx vals

/-- `np.concatenate((a, b))` -/
def concat {α : Type} (a b : List α) : List α := a ++ b

/-! ### 2-D grids -/

/-- `np.tile(v, (k, 1))` -/
def tileRows {α : Type} (v : List α) (k : Int) : List (List α) := List.replicate k.toNat v
/-- `np.tile(v, (m, 1)).transpose()` -/
def tileCols {α : Type} (v : List α) (m : Int) : List (List α) := v.map (List.replicate m.toNat)

def mmap {α β : Type} (f : α → β) (m : List (List α)) : List (List β) := m.map (List.map f)
def mzip {α β γ : Type} (f : α → β → γ) (a : List (List α)) (b : List (List β)) : List (List γ) :=
  List.zipWith (List.zipWith f) a b

/-- the two grids have as many rows, and row by row as many cells -/
def sameShape {α β : Type} (a : List (List α)) (b : List (List β)) : Bool :=
  a.length == b.length && (List.zipWith (fun x y => x.length == y.length) a b).all id

/-- `np.full(m.shape, c)` -/
def fullLike {α β : Type} (c : β) (m : List (List α)) : List (List β) := mmap (fun _ => c) m

/-- `np.where(B)` of a 2-D Boolean array, grouped by row -/
def where2 (b : List (List Bool)) : List (List Int) := b.map whereIdx
/-- `M[np.where(B)]`, grouped by row -/
def gather2 {α : Type} (d : α) (m : List (List α)) (w : List (List Int)) : List (List α) :=
  List.zipWith (gather d) m w
def gather2Ok {α : Type} (m : List (List α)) (w : List (List Int)) : Bool :=
  m.length == w.length && (List.zipWith gatherOk m w).all id
/-- `a[x]` for a 1-D array `a` and a grouped index vector `x` -/
def rgather {α : Type} (d : α) (v : List α) (w : List (List Int)) : List (List α) := w.map (gather d v)
def rgatherOk {α : Type} (v : List α) (w : List (List Int)) : Bool := w.all (gatherOk v)

def zipWith3 {α β γ δ : Type} (f : α → β → γ → δ) : List α → List β → List γ → List δ
  | a :: as, b :: bs, c :: cs => f a b c :: zipWith3 f as bs cs
  | _, _, _ => []

/-- `M[np.where(B)] = vals` -/
def scatter2 {α : Type} (m : List (List α)) (w : List (List Int)) (vals : List (List α)) : List (List α) :=
  zipWith3 scatterSet m w vals
def scatter2Ok {α β : Type} (m : List (List α)) (w : List (List Int)) (vals : List (List β)) : Bool :=
  m.length == w.length && w.length == vals.length &&
    (zipWith3 (fun r i x => scatterOk r i x) m w vals).all id

/-- `np.sum(B, axis=1)` of a Boolean grid -/
def rowCounts (m : List (List Bool)) : List Int := m.map countTrue

end Pandora.PyVecIdx
