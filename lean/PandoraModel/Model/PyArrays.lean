/-
  Run-time support of the definitions written by `translator/pyscan.py` (`Generated/KernelsCbcaSteps.lean`):
  the second kernel shape of T14, "array-state kernels" — numba functions whose loops thread whole arrays as
  loop-carried state (scans that read the cell written by the previous iteration, stores at an indirect index, `+=` on
  a cell, `np.copy`, `np.sum` of a slice, a row assignment).  Extends `Model/PyLoops.lean` (same loops, same reads).

  * a local array is a total index function `Int → Int → α` together with its two extents (two `Int` locals);
    `np.zeros` is the constant function, `np.copy` the function itself (values, not references: a store into the copy
    cannot be seen through the original — the translator refuses plain aliasing `b = a`);
  * `a[i, j] = v` is `set2 a n0 n1 i j v`: functional update at the WRAPPED index (a negative index counts from the
    end, for stores as for reads).  Every store is tested like every read (`PyLoops.inb2`), the result is
    `Res.outOfBounds` when one was outside the array (numba does not check; undefined behaviour) or when `np.zeros`
    was given a negative extent / a row assignment had rows of different lengths (Python raises);
  * `np.sum(a[lo:hi, j])` is `sumSlice0`: Python slice bounds (`sliceBound`: negative counts from the end, then
    clamped to `[0, n]` — a slice never reads outside), exact sum, `0` for an empty slice;
  * `a[i, :] = b[k, :]` is `setRow2`.

  Core Lean only.
-/
import PandoraModel.Model.PyLoops

namespace Pandora.PyArrays
open Pandora Pandora.PyLoops Pandora.PyExpr

/-- a returned 2-D array: its cells and its shape -/
structure Arr2 (α : Type) where
  get : Int → Int → α
  n0 : Int
  n1 : Int

/-- `np.zeros((n0, n1))` (the extents are separate locals) -/
def zeros2 {α : Type} (z : α) : Int → Int → α := fun _ _ => z

/-- `a[i, j] = v` on an array of shape `(n0, n1)`: the cell at the wrapped index is replaced -/
def set2 {α : Type} (a : Int → Int → α) (n0 n1 i j : Int) (v : α) : Int → Int → α :=
  fun i' j' => if i' = wrap n0 i ∧ j' = wrap n1 j then v else a i' j'

/-- `a[i, :] = row` on an array of shape `(n0, n1)` -/
def setRow2 {α : Type} (a : Int → Int → α) (n0 n1 i : Int) (row : Int → α) : Int → Int → α :=
  fun i' j' => if i' = wrap n0 i ∧ 0 ≤ j' ∧ j' < n1 then row j' else a i' j'

/-- `b[k, :]` of an array with `m0` rows -/
def row2 {α : Type} (b : Int → Int → α) (m0 k : Int) : Int → α := fun j => b (wrap m0 k) j

/-- a bound of a Python slice on an axis of length `n`: negative counts from the end, then clamped to `[0, n]` -/
def sliceBound (n i : Int) : Int :=
  let k := if i < 0 then i + n else i
  if k < 0 then 0 else if n < k then n else k

/-- `f lo + f (lo+1) + … + f (lo+n-1)`, exact, NaN-propagating -/
def sumFrom (f : Int → Val) (lo : Int) : Nat → Val
  | 0 => .num 0
  | n + 1 => vadd (sumFrom f lo n) (f (lo + n))

/-- `np.sum(a[lo:hi, j])` for a float array of shape `(n0, n1)` -/
def sumSlice0 (a : Int → Int → Val) (n0 n1 lo hi j : Int) : Val :=
  let l := sliceBound n0 lo
  let h := sliceBound n0 hi
  sumFrom (fun i => a i (wrap n1 j)) l (h - l).toNat

/-- the cells of an array as nested lists (used by the generated `example`s: functions have no decidable equality) -/
def tabOf {α : Type} (a : Arr2 α) : List (List α) :=
  (List.range a.n0.toNat).map fun (i : Nat) => (List.range a.n1.toNat).map fun (j : Nat) => a.get (i : Int) (j : Int)

def tab1Of {α : Type} : Res (Arr2 α) → Res (List (List α))
  | .ok a => .ok (tabOf a)
  | .outOfBounds => .outOfBounds

def tab2Of {α β : Type} : Res (Arr2 α × Arr2 β) → Res (List (List α) × List (List β))
  | .ok (a, b) => .ok (tabOf a, tabOf b)
  | .outOfBounds => .outOfBounds

end Pandora.PyArrays
