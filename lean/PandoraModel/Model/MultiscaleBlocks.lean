/-
  `FixedZoomPyramid.disparity_range` with its block loop (core Lean only).

  `Model/Multiscale.lean` computes every pixel of the coarse ranges directly (`coarseRanges`).  The code
  does something else: it builds the array of all `w × w` windows of the NaN-masked disparity map
  (`sliding_window`: `(rows - w + 1) × (cols - w + 1)` windows, window `(i, j)` has its top-left corner at
  `(i, j)`), splits it in chunks of 100 along both axes and writes `nanmin − marge` / `nanmax + marge` of
  every chunk into the output at accumulated offsets that start at `offset = int((w - 1) / 2)`:

      disp_min_range = full(int(nanmin(disp_min)));  disp_max_range = full(int(nanmax(disp_max)))
      tmp = mask_invalid_disparities(disp);  invalid_ind = where(isnan(tmp))
      windows = sliding_window(tmp, (w, w))
      chunks_y = np.array_split(windows, np.arange(chunk_size, ncol, chunk_size), axis=0);  y_begin = offset
      for col in arange(len(chunks_y)):
          chunks_x = np.array_split(chunks_y[col], np.arange(chunk_size, nrow, chunk_size), axis=1);  x_begin = offset
          for row in arange(len(chunks_x)):
              disp_min_range[y_begin:y_end, x_begin:x_end] = nanmin(chunks_x[row], axis=(2, 3)) - marge
              disp_max_range[y_begin:y_end, x_begin:x_end] = nanmax(chunks_x[row], axis=(2, 3)) + marge
              x_begin += chunks_x[row].shape[1]
          y_begin += chunks_y[col].shape[0]
      disp_min_range[invalid_ind] = int(nanmin(disp_min));  disp_max_range[invalid_ind] = int(nanmax(disp_max))

  (`ncol, nrow = disp["disparity_map"].shape`: despite the names `ncol` is `shape[0]`, the number of rows.)

  This file models exactly that with the shared block-loop model `Model/Blocks.lean`: where a chunk comes
  from (`array_split`) and where it is written (the accumulated offsets) are kept apart; that the two
  coincide with the direct per-pixel `coarseRanges` is a theorem (`Properties/C15Grids.lean`).
-/
import PandoraModel.Model.Multiscale
import PandoraModel.Model.Blocks

namespace Pandora.Multiscale

/-- `sliding_window(g, (w, w))[i, j]`: the `w × w` window whose top-left corner is `(i, j)`, row-major -/
def windowAt (g : Grid Val) (w i j : Nat) : List Val :=
  (List.range w).flatMap fun dr => (List.range w).map fun dc => g.get (i + dr) (j + dc)

/-- the per-window kernel of the loop: `nanmin(window) - marge` or `nanmax(window) + marge` -/
def rangeKernel (masked : Grid Val) (w marge : Nat) (isMin : Bool) (i j : Nat) : Val :=
  if isMin then addRat (nanMin (windowAt masked w i j)) (-(marge : Rat))
  else addRat (nanMax (windowAt masked w i j)) (marge : Rat)

/-- one of the two range maps of `disparity_range` before upsampling, computed as the code does:
    initialised to the (truncated) user bound, interior filled through the block loop of split `s`,
    NaN cells of the masked map reset to the user bound -/
def rangeBandBlocked (s : Blocks.Split) (masked : Grid Val) (rows cols w marge : Nat) (user : Val)
    (isMin : Bool) : Grid Val :=
  let filled := Blocks.blocked (s.plan (rows - w + 1) (cols - w + 1) [rows, cols])
    (rangeKernel masked w marge isMin) (fun _ _ => user)
  Blocks.tabulate rows cols fun r c => if (masked.get r c).isNan then user else filled r c

/-- `disparity_range` before upsampling, with the block loop of split `s` -/
def coarseRangesBlocked (s : Blocks.Split) (disp : Grid Val) (flags : Grid Nat) (window_size marge : Nat)
    (userMin userMax : Rat) : Grid Val × Grid Val :=
  let masked := maskInvalid disp flags
  (rangeBandBlocked s masked disp.rows disp.cols window_size marge (Val.num (ratTrunc userMin)) true,
   rangeBandBlocked s masked disp.rows disp.cols window_size marge (Val.num (ratTrunc userMax)) false)

/-- upsampling by `zoom(order=0)` (skipped for factor 1), multiplication by the factor in
    `matching_cost_prepare`, crop to the finer image by `cv_masked` — the `up` of `nextLevelGrids` -/
def upsampleCrop (g : Grid Val) (f fineRows fineCols : Nat) : Grid Val :=
  let z := if f = 1 then g else zoom0 g f
  (List.range (min fineRows z.rows)).map fun i => (List.range (min fineCols z.cols)).map fun j =>
    (z.get i j).map (· * (f : Rat))

/-- `nextLevelGrids` with the coarse ranges computed through the block loop of split `s` -/
def nextLevelGridsBlocked (s : Blocks.Split) (disp : Grid Val) (flags : Grid Nat) (window_size marge f : Nat)
    (userMin userMax : Rat) (fineRows fineCols : Nat) : Grid Val × Grid Val :=
  let r := coarseRangesBlocked s disp flags window_size marge userMin userMax
  (upsampleCrop r.1 f fineRows fineCols, upsampleCrop r.2 f fineRows fineCols)

end Pandora.Multiscale
