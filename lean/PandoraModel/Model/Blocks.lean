/-
  Block loops shared by winner-takes-all (C03) and the filters (C10).  Core Lean only.

  The code splits a 2-D array of per-pixel work items (cost rows, filter windows) with
  `np.array_split(a, np.arange(start, n, step), axis=0)` and then each row chunk the same way along
  axis 1, and writes the result of a per-cell kernel into an output map at accumulated offsets

      y_begin = off_y
      for chunk_y in chunks_y:
          x_begin = off_x
          for chunk_x in chunks_x(chunk_y):
              out[y_begin : y_begin + len_y, x_begin : x_begin + len_x] = kernel(chunk_x)
              x_begin += len_x
          y_begin += len_y

  The model keeps the two things the code keeps apart: *where a chunk comes from* (its start index in
  the source array, decided by `array_split`) and *where it is written* (the accumulated offsets).
  That the two coincide — block independence — is a theorem (`Lemmas/Blocks.lean`), for every
  `start`, every `step > 0` and every array size.
-/
namespace Pandora.Blocks

/-- `np.arange(start, stop, step)` for naturals, `step > 0`: `start, start+step, … < stop`. -/
def arange (start stop step : Nat) : List Nat :=
  (List.range ((stop - start + step - 1) / step)).map (fun k => start + k * step)

/-- Python slice `a[st:en]` of an array of length `L`, as (first source index, length):
    both ends are clamped to `L`, an inverted slice is empty. -/
def slice (L st en : Nat) : Nat × Nat := (min st L, min en L - min st L)

/-- worker of `arraySplit`: `div_points = [st] ++ pts ++ [L]` -/
def splitFrom (L : Nat) (st : Nat) : List Nat → List (Nat × Nat)
  | [] => [slice L st L]
  | p :: ps => slice L st p :: splitFrom L p ps

/-- `np.array_split(a, pts)` for `len(a) = L`: (first source index, length) of every sub-array:
    `a[0:p0], a[p0:p1], …, a[pk:L]`. -/
def arraySplit (L : Nat) (pts : List Nat) : List (Nat × Nat) := splitFrom L 0 pts

/-- `out[yb:yb+ylen, xb:xb+xlen] = kernel(block)`, the kernel being per cell: block cell `(i, j)` is the
    work item `(ys+i, xs+j)` of the source array and becomes `f (ys+i) (xs+j)`. -/
def assign {β : Type} (out : Nat → Nat → β) (yb ylen xb xlen ys xs : Nat) (f : Nat → Nat → β) :
    Nat → Nat → β :=
  fun r c =>
    if yb ≤ r ∧ r < yb + ylen ∧ xb ≤ c ∧ c < xb + xlen then f (ys + (r - yb)) (xs + (c - xb)) else out r c

/-- the inner loop (over the column chunks of one row chunk); `xb` is `x_begin` -/
def innerLoop {β : Type} (f : Nat → Nat → β) (yb ylen ys : Nat) :
    List (Nat × Nat) → Nat → (Nat → Nat → β) → (Nat → Nat → β)
  | [], _, out => out
  | (xs, xlen) :: rest, xb, out =>
    innerLoop f yb ylen ys rest (xb + xlen) (assign out yb ylen xb xlen ys xs f)

/-- the outer loop (over the row chunks); `yb` is `y_begin`, `offx` the initial `x_begin` -/
def outerLoop {β : Type} (f : Nat → Nat → β) (xchunks : List (Nat × Nat)) (offx : Nat) :
    List (Nat × Nat) → Nat → (Nat → Nat → β) → (Nat → Nat → β)
  | [], _, out => out
  | (ys, ylen) :: rest, yb, out =>
    outerLoop f xchunks offx rest (yb + ylen) (innerLoop f yb ylen ys xchunks offx out)

/-- Parameters of one blocked computation, as read in the source:
    the work-item array has `ly × lx` cells, is split at `np.arange(startY, stopY, stepY)` along axis 0
    and `np.arange(startX, stopX, stepX)` along axis 1, and written from `(offY, offX)`. -/
structure Plan where
  ly : Nat
  lx : Nat
  startY : Nat
  stopY : Nat
  stepY : Nat
  startX : Nat
  stopX : Nat
  stepX : Nat
  offY : Nat
  offX : Nat
  deriving Repr

/-- The literals of one block loop as they are read in the source (translator T8):
    `np.arange(startY, shape[stopYDim], stepY)` on axis 0, `np.arange(startX, shape[stopXDim], stepX)` on
    axis 1, initial `y_begin = beginY`, `x_begin = beginX`. -/
structure Split where
  startY : Nat
  stepY : Nat
  stopYDim : Nat
  startX : Nat
  stepX : Nat
  stopXDim : Nat
  beginY : Nat
  beginX : Nat
  deriving Repr, DecidableEq

/-- the plan of a loop over an `ly × lx` work-item array, `dims` being the shape the stops refer to -/
def Split.plan (s : Split) (ly lx : Nat) (dims : List Nat) : Plan :=
  { ly := ly, lx := lx,
    startY := s.startY, stopY := dims.getD s.stopYDim 0, stepY := s.stepY,
    startX := s.startX, stopX := dims.getD s.stopXDim 0, stepX := s.stepX,
    offY := s.beginY, offX := s.beginX }

/-- the blocked computation as the code performs it -/
def blocked {β : Type} (p : Plan) (f : Nat → Nat → β) (out : Nat → Nat → β) : Nat → Nat → β :=
  outerLoop f (arraySplit p.lx (arange p.startX p.stopX p.stepX)) p.offX
    (arraySplit p.ly (arange p.startY p.stopY p.stepY)) p.offY out

/-- the unsplit computation: one assignment of the whole work-item array -/
def direct {β : Type} (p : Plan) (f : Nat → Nat → β) (out : Nat → Nat → β) : Nat → Nat → β :=
  fun r c =>
    if p.offY ≤ r ∧ r < p.offY + p.ly ∧ p.offX ≤ c ∧ c < p.offX + p.lx then f (r - p.offY) (c - p.offX)
    else out r c

/-- materialise an index function -/
def tabulate {β : Type} (rows cols : Nat) (g : Nat → Nat → β) : List (List β) :=
  (List.range rows).map (fun r => (List.range cols).map (fun c => g r c))

end Pandora.Blocks
