/-
  C07 — executable model of `CrossCheckingAccurate.disparity_checking` and executable specification.

  Model (follows pandora/validation/validation.py:279-362, row by row; the vectorised gather /
  scatter over *distinct* column indices is written per pixel, with the same arithmetic):
    valid-pixel selection, `col_right = col + rint(d)` (the disparity is rounded half to even, then the
    column is added; NaN casts to the most negative integer), inside / outside split **with the
    conditions as written**, NaN -> inf,
    `conf = |dR + dL|`, `invalid = conf > threshold`, the search over
    `arange(int(dmin), int(dmax) + 1)` for `rint(dR(i + d)) == -d` (inf outside the image),
    `+= OCCLUSION; += MISMATCH * comp; -= OCCLUSION * comp`, the outside branch, `mask_border`,
    and `validation_run`'s order (left against right, then right against the checked left).

  Specification (`clausesPix`, `specGrid`): written from the property statement; `round` is "a
  nearest integer" (both neighbours are accepted on an exact tie, see DESIGN_NOTES/C07.md).
  Core Lean only.
-/
import PandoraModel.Model.Basic
import PandoraModel.Model.Flags

namespace Pandora.CrossCheck
open Pandora

/-! ## Primitives -/

def ratAbs (x : Rat) : Rat := if x < 0 then -x else x

/-- `np.rint`: nearest integer, exact halves go to the even neighbour -/
def rint (x : Rat) : Int :=
  let f := x.floor
  let r := x - (f : Rat)
  if r < 1 / 2 then f
  else if 1 / 2 < r then f + 1
  else if f % 2 = 0 then f else f + 1

/-- a float32 cell after `x[np.isnan(x)] = np.inf`, or an absolute value of a sum of such -/
inductive Ext where
  | fin : Rat → Ext
  | inf : Ext
  deriving DecidableEq, Repr, Inhabited

/-- a cell of the confidence band: NaN (not written), a number, or +inf -/
inductive Conf where
  | nan : Conf
  | fin : Rat → Conf
  | inf : Conf
  deriving DecidableEq, Repr, Inhabited

def nanToInf : Val → Ext
  | .nan => .inf
  | .num q => .fin q

/-- `np.abs(right_disp + left_disp)` -/
def absSum (a b : Ext) : Ext :=
  match a, b with
  | .fin p, .fin q => .fin (ratAbs (p + q))
  | _, _ => .inf

/-- `x > threshold` -/
def Ext.gt (x : Ext) (t : Rat) : Bool :=
  match x with
  | .fin q => decide (t < q)
  | .inf => true

def Ext.toConf : Ext → Conf
  | .fin q => .fin q
  | .inf => .inf

structure Params where
  /-- `cross_checking_threshold` -/
  threshold : Rat
  /-- `int(disparity_interval[0])`, `int(disparity_interval[1])` of the dataset being checked -/
  dmin : Int
  dmax : Int
  /-- `attrs["offset_row_col"]` -/
  offset : Nat
  deriving DecidableEq, Repr

/-- `np.arange(lo, hi + 1)` -/
def arange (lo hi : Int) : List Int := (List.range (hi + 1 - lo).toNat).map (fun (k : Nat) => lo + (k : Int))

/-- `col_left + np.rint(d).astype(int)`; the cast of NaN is the most negative integer (adding a column
    index keeps it far below 0): `none` -/
def colRight (c : Nat) (d : Val) : Option Int :=
  match d with
  | .nan => none
  | .num q => some ((c : Int) + rint q)

/-- `(col_right >= 0) & (col_right < nb_col)` -/
def insideRight (ncol : Nat) (q : Option Int) : Bool :=
  match q with
  | some q => decide (0 ≤ q) && decide (q < (ncol : Int))
  | none => false  -- the most negative integer

/-- **as written**: `(col_right < 0) & (col_right >= nb_col)` -/
def outsideRightAsWritten (ncol : Nat) (q : Option Int) : Bool :=
  match q with
  | some q => decide (q < 0) && decide ((ncol : Int) ≤ q)
  | none => true && false  -- most negative integer: `< 0` holds, `>= nb_col` does not

/-- `Disp_right(i + d)` of the mismatch search: inf outside the image, the cell otherwise (NaN stays NaN) -/
def dispRightAt (ncol : Nat) (dR : List Val) (idx : Int) : Option Val :=
  if 0 ≤ idx ∧ idx < (ncol : Int) then some (dR.getD idx.toNat .nan) else none

/-- `np.rint(disp_right) == -d` for one candidate -/
def matchAt (ncol : Nat) (dR : List Val) (c : Nat) (d : Int) : Bool :=
  match dispRightAt ncol dR ((c : Int) + d) with
  | some (.num v) => rint v == -d
  | _ => false   -- inf, NaN

/-- `comp = np.sum(...)`, then `comp[comp > 1] = 1` -/
def comp (ncol : Nat) (dR : List Val) (c : Nat) (range : List Int) : Nat :=
  let n := (range.filter (matchAt ncol dR c)).length
  if n > 1 then 1 else n

/-- result for one pixel: flag word and confidence cell -/
structure PixOut where
  flag : Nat
  conf : Conf
  deriving DecidableEq, Repr

/-- the pixels of `inside_right`: confidence cell, and the mismatch / occlusion decision -/
def ccInside (P : Params) (ncol : Nat) (dL dR : List Val) (c : Nat) (flag : Nat) (q : Int) : PixOut :=
  let dr := dR.getD q.toNat .nan
  let dl := dL.getD c .nan
  let conf := absSum (nanToInf dr) (nanToInf dl)
  if conf.gt P.threshold then
    let k := comp ncol dR c (arange P.dmin P.dmax)
    ⟨flag + Flags.occlusion + Flags.mismatch * k - Flags.occlusion * k, conf.toConf⟩
  else ⟨flag, conf.toConf⟩

/-- The code as it is, and the two repairs of finding C07-F1 the model can also follow
    (`proposed_fixes/C07-outside-right*.diff`): `orFix` = the evident intent `|` (a pixel whose
    correspondent is outside is an occlusion); `ruleFix` = such a pixel is classified mismatch /
    occlusion by the same search as the other inconsistent pixels, as the property states. -/
inductive Variant where
  | asIs | orFix | ruleFix
  deriving DecidableEq, Repr, Inhabited

/-- the pixels that are not in `inside_right` -/
def ccOutside (V : Variant) (P : Params) (ncol : Nat) (dR : List Val) (c : Nat) (flag : Nat) (q : Option Int) : PixOut :=
  match V with
  | .asIs => if outsideRightAsWritten ncol q then ⟨flag + Flags.occlusion, .nan⟩ else ⟨flag, .nan⟩
  | .orFix => ⟨flag + Flags.occlusion, .nan⟩
  | .ruleFix =>
    let k := comp ncol dR c (arange P.dmin P.dmax)
    ⟨flag + Flags.occlusion + Flags.mismatch * k - Flags.occlusion * k, .nan⟩

/-- one pixel of one row of the loop -/
def ccPixel (V : Variant) (P : Params) (ncol : Nat) (dL dR : List Val) (c : Nat) (flag : Nat) : PixOut :=
  if Flags.isInvalid flag then ⟨flag, .nan⟩          -- not in `valid_pixel`
  else
    let q := colRight c (dL.getD c .nan)
    if insideRight ncol q then
      match q with
      | some qi => ccInside P ncol dL dR c flag qi
      | none => ⟨flag, .nan⟩
    else ccOutside V P ncol dR c flag q

def ccRow (V : Variant) (P : Params) (dL dR : List Val) (mask : List Nat) : List PixOut :=
  let ncol := dL.length
  (List.range ncol).map (fun c => ccPixel V P ncol dL dR c (mask.getD c 0))

/-- `mask_border`: rows `[:off]`, `[-off:]`, columns `[:off]`, `[-off:]` -/
def isBorder (off nrow ncol r c : Nat) : Bool :=
  decide (r < off) || decide (nrow - off ≤ r) || decide (c < off) || decide (ncol - off ≤ c)

structure Dataset where
  disp : Grid Val
  mask : Grid Nat
  deriving DecidableEq, Repr

structure Out where
  disp : Grid Val
  mask : Grid Nat
  conf : Grid Conf
  deriving DecidableEq, Repr

def zipWith3 {α β γ δ : Type} (f : α → β → γ → δ) : List α → List β → List γ → List δ
  | a :: as, b :: bs, c :: cs => f a b c :: zipWith3 f as bs cs
  | _, _, _ => []

/-- `disparity_checking(dataset_left := A, dataset_right := B)` -/
def check (V : Variant) (P : Params) (A B : Dataset) : Out :=
  let rows := zipWith3 (ccRow V P) A.disp B.disp A.mask
  let nrow := A.disp.length
  let mask := rows.mapIdx fun r row =>
    row.mapIdx fun c o =>
      if P.offset > 0 ∧ isBorder P.offset nrow row.length r c then Flags.leftNodataOrBorder else o.flag
  { disp := A.disp, mask := mask, conf := rows.map (·.map (·.conf)) }

/-- `validation_run` without interpolation: left against right, then right against the checked left -/
def validationRun (V : Variant) (PL PR : Params) (L R : Dataset) : Out × Out :=
  let l := check V PL L R
  let r := check V PR R { disp := l.disp, mask := l.mask }
  (l, r)

/-! ## Specification -/

/-- the integers nearest to `x` (two of them on an exact half) -/
def nearestInts (x : Rat) : List Int :=
  let f := x.floor
  let r := x - (f : Rat)
  if r < 1 / 2 then [f] else if 1 / 2 < r then [f + 1] else [f, f + 1]

def bitAt (f k : Nat) : Nat := f / 2 ^ k % 2

/-- every bit except 8 and 9 is the same -/
def sameExcept89 (f g : Nat) : Bool := f % 256 == g % 256 && f / 1024 == g / 1024

def cell (g : List Val) (i : Int) : Option Val :=
  if 0 ≤ i ∧ i < (g.length : Int) then some (g.getD i.toNat .nan) else none

/-- some disparity `d` of the interval with `round(dR(p + d)) = -d`; `strict`: `-d` is the only nearest
    integer of `dR(p + d)`; otherwise: one of the nearest -/
def witness (strict : Bool) (P : Params) (dR : List Val) (c : Nat) : Bool :=
  (arange P.dmin P.dmax).any fun d =>
    match cell dR ((c : Int) + d) with
    | some (.num v) => if strict then nearestInts v == [-d] else (nearestInts v).contains (-d)
    | _ => false

/-- left-right distance at the correspondent `q` (`none`: no correspondent in the right image) -/
def distance (dL dR : List Val) (c : Nat) (q : Int) : Option Ext :=
  match cell dR q with
  | none => none
  | some dr => some (absSum (nanToInf dr) (nanToInf (dL.getD c .nan)))

def consistentAt (P : Params) (dL dR : List Val) (c : Nat) (q : Int) : Bool :=
  match distance dL dR c q with
  | some (.fin x) => decide (x ≤ P.threshold)
  | _ => false

/-- candidates for `p + round(dL(p))`: `p` plus an integer nearest to `dL(p)`; none when `dL(p)` is NaN -/
def correspondents (dL : List Val) (c : Nat) : List Int :=
  match dL.getD c .nan with
  | .nan => []
  | .num d => (nearestInts d).map (fun n => (c : Int) + n)

/-- consistent at the correspondent `q` (`none`: no correspondent at all) -/
def consistentOpt (P : Params) (dL dR : List Val) (c : Nat) : Option Int → Bool
  | some q => consistentAt P dL dR c q
  | none => false

/-- the confidence cell holds the left-right distance when there is a correspondent in the image -/
def confOKOpt (dL dR : List Val) (c : Nat) (conf : Conf) : Option Int → Bool
  | some q =>
    (match distance dL dR c q with
     | some x => conf == x.toConf
     | none => true)
  | none => true

/-- The clauses of the statement for one previously valid, non-border pixel, for one admissible
    correspondent `q` (`none`: the disparity is NaN, there is no correspondent). -/
def clausesValid (P : Params) (dL dR : List Val) (c : Nat) (flag : Nat) (o : PixOut) (q : Option Int) :
    List (String × Bool) :=
  if consistentOpt P dL dR c q then
    [("kept_iff_consistent", o.flag == flag), ("conf_band_value", confOKOpt dL dR c o.conf q)]
  else
    let m := bitAt o.flag 9 == 1
    let oc := bitAt o.flag 8 == 1
    [ ("kept_iff_consistent", m || oc),
      ("mismatch_iff_witness", (!witness true P dR c || m) && (!m || witness false P dR c)),
      ("occlusion_otherwise", (witness false P dR c || oc) && (!oc || !witness true P dR c)),
      ("never_both", !(m && oc)),
      ("only_bits_8_9", sameExcept89 o.flag flag),
      ("conf_band_value", confOKOpt dL dR c o.conf q) ]

def allOK (l : List (String × Bool)) : Bool := l.all (·.2)

/-- clauses for one pixel of the output (`border`: the pixel is in the `offset_row_col` frame) -/
def clausesPix (P : Params) (border : Bool) (dL dR : List Val) (c : Nat) (flag : Nat) (o : PixOut) :
    List (String × Bool) :=
  if border then [("border_bit0_only", o.flag == Flags.leftNodataOrBorder)]
  else if Flags.isInvalid flag then [("invalid_not_reexamined", o.flag == flag)]
  else
    match correspondents dL c with
    | [] => clausesValid P dL dR c flag o none
    | [q] => clausesValid P dL dR c flag o (some q)
    | q :: qs =>
      -- an exact tie: the outcome must be right for one of the nearest integers
      match (q :: qs).find? (fun q => allOK (clausesValid P dL dR c flag o (some q))) with
      | some q => clausesValid P dL dR c flag o (some q)
      | none => clausesValid P dL dR c flag o (some q)

def failingPix (P : Params) (border : Bool) (dL dR : List Val) (c : Nat) (flag : Nat) (o : PixOut) : List String :=
  ((clausesPix P border dL dR c flag o).filter (fun x => !x.2)).map (·.1)

/-- situation of a pixel, computed from the input (trigger of known findings) -/
def triggerOf (P : Params) (border : Bool) (dL dR : List Val) (c : Nat) (flag : Nat) : String :=
  if border then "border"
  else if Flags.isInvalid flag then "invalid_pixel"
  else
    match correspondents dL c with
    | [] => "nan_disparity_on_valid_pixel"
    | qs =>
      -- on an exact tie numpy rounds the disparity to the even neighbour: the situation is named after that one
      let qs' := if qs.length > 1 then qs.filter (fun q => (q - (c : Int)) % 2 == 0) else qs
      if qs'.all (fun q => (cell dR q).isNone) then "correspondent_outside_right_image"
      else if qs.length > 1 then "half_integer_tie"
      else if qs.any (fun q => consistentAt P dL dR c q) then "consistent"
      else if witness true P dR c then "mismatch"
      else if witness false P dR c then "tie_witness"
      else "occlusion"

end Pandora.CrossCheck

/-! ## Half-even reading of `round`

  The clauses above read `round` as "a nearest integer" and accept, on an exact half, an outcome that is right
  for either neighbour.  Python's `round` and `np.rint` both round an exact half to the **even** neighbour; the
  definitions below restate the same clauses with that single reading at BOTH rounding sites of the statement
  (the correspondent `q = p + round(dL(p))` and the witness test `round(dR(p + d)) = -d`): one candidate, no
  alternatives.  They refine the loose clauses (`Properties/C07HalfEven.lean`: every half-even clause implies
  the loose clause of the same name) and are evaluated next to them, never instead of them. -/

namespace Pandora.CrossCheck
open Pandora

/-- round half to even, written from its definition and not from `rint`: the integer part of `x + 1/2`,
    minus one when `x + 1/2` is itself an odd integer (`x` is then exactly half-way between the even `n - 1`
    and the odd `n`). -/
def rintEven (x : Rat) : Int :=
  let n := (x + 1 / 2).floor
  if (n : Rat) = x + 1 / 2 ∧ n % 2 ≠ 0 then n - 1 else n

/-- `p + round(dL(p))`, half-even; `none` when `dL(p)` is NaN -/
def correspondentEven (dL : List Val) (c : Nat) : Option Int :=
  match dL.getD c .nan with
  | .nan => none
  | .num d => some ((c : Int) + rintEven d)

/-- some disparity `d` of the interval with `round(dR(p + d)) = -d`, half-even -/
def witnessEven (P : Params) (dR : List Val) (c : Nat) : Bool :=
  (arange P.dmin P.dmax).any fun d =>
    match cell dR ((c : Int) + d) with
    | some (.num v) => rintEven v == -d
    | _ => false

/-- `clausesValid` with the half-even witness: mismatch **iff** a witness exists, occlusion **iff** none does -/
def clausesValidEven (P : Params) (dL dR : List Val) (c : Nat) (flag : Nat) (o : PixOut) (q : Option Int) :
    List (String × Bool) :=
  if consistentOpt P dL dR c q then
    [("kept_iff_consistent", o.flag == flag), ("conf_band_value", confOKOpt dL dR c o.conf q)]
  else
    let m := bitAt o.flag 9 == 1
    let oc := bitAt o.flag 8 == 1
    let w := witnessEven P dR c
    [ ("kept_iff_consistent", m || oc),
      ("mismatch_iff_witness", m == w),
      ("occlusion_otherwise", oc == !w),
      ("never_both", !(m && oc)),
      ("only_bits_8_9", sameExcept89 o.flag flag),
      ("conf_band_value", confOKOpt dL dR c o.conf q) ]

/-- `clausesPix` with the single half-even correspondent -/
def clausesPixEven (P : Params) (border : Bool) (dL dR : List Val) (c : Nat) (flag : Nat) (o : PixOut) :
    List (String × Bool) :=
  if border then [("border_bit0_only", o.flag == Flags.leftNodataOrBorder)]
  else if Flags.isInvalid flag then [("invalid_not_reexamined", o.flag == flag)]
  else clausesValidEven P dL dR c flag o (correspondentEven dL c)

def failingPixEven (P : Params) (border : Bool) (dL dR : List Val) (c : Nat) (flag : Nat) (o : PixOut) : List String :=
  ((clausesPixEven P border dL dR c flag o).filter (fun x => !x.2)).map (·.1)

/-- the two readings of `round` can differ at this pixel: `dL(p)` is an exact half, or some `dR(p + d)` of the
    interval is an exact half with `-d` one of its two neighbours -/
def isTiePix (P : Params) (dL dR : List Val) (c : Nat) : Bool :=
  decide ((correspondents dL c).length > 1) || (witness false P dR c != witness true P dR c)

/-- situation of a pixel for a half-even clause: the structural situations keep their name; otherwise a pixel
    at which the two readings can differ is a `half_integer_tie` -/
def triggerOfEven (P : Params) (border : Bool) (dL dR : List Val) (c : Nat) (flag : Nat) : String :=
  let t := triggerOf P border dL dR c flag
  if t == "border" || t == "invalid_pixel" || t == "nan_disparity_on_valid_pixel"
      || t == "correspondent_outside_right_image" then t
  else if isTiePix P dL dR c then "half_integer_tie" else t

end Pandora.CrossCheck
