-- Root of the `PandoraModel` library: executable model, drivers, property theorems.
-- (The generated tables are imported by the property files that need them.)
import PandoraModel.Model.Basic
import PandoraModel.Model.Flags
import PandoraModel.Model.Machine
import PandoraModel.Properties.Flags
import PandoraModel.Properties.C01
import PandoraModel.Properties.C02
import PandoraModel.Properties.C03
import PandoraModel.Properties.C04
import PandoraModel.Properties.C05
import PandoraModel.Properties.C06
import PandoraModel.Properties.C07
import PandoraModel.Properties.C08
import PandoraModel.Properties.C09
import PandoraModel.Properties.C10
import PandoraModel.Properties.C11
import PandoraModel.Properties.C12
import PandoraModel.Properties.C13
import PandoraModel.Properties.C14
import PandoraModel.Properties.C15
import PandoraModel.Properties.C16
import PandoraModel.Properties.C17
import PandoraModel.Properties.C18
import PandoraModel.Properties.C19
import PandoraModel.Properties.C20
import PandoraModel.Properties.C08C07
import PandoraModel.Properties.C13Steps
