-- Root of the `PandoraModel` library: executable model, generated tables, property theorems.
import PandoraModel.Model.Basic
import PandoraModel.Model.Machine
import PandoraModel.Driver.C01
import PandoraModel.Properties.C01
