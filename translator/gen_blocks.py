"""T8: the block loops of winner-takes-all, of the filters and of the multiscale ranges -> Generated/Blocks.lean

Extracted with `ast` only (pandora is not imported):

* disparity.py           `WinnerTakesAll.argmin_split`, `argmax_split`
* median.py              `MedianFilter.median_filter`
* bilateral.py           `BilateralFilter.filter_bilateral` (+ the window formula `min(ny_, nx_, int(3 * sigma_space + 1))`)
* fixed_zoom_pyramid.py  `FixedZoomPyramid.disparity_range`

For each: the two `np.array_split(<a>, np.arange(start, <dim>, step), axis=k)` calls (start/step literals or a
local integer constant such as `chunk_size`, the dimension the stop names — by its *position* in the
`<x>, <y> = <a>.shape` unpacking, whatever the names: `disparity_range` calls `shape[0]` "ncol"), the initial
values of `y_begin`/`x_begin` (0, `int(<size> / 2)` or `int((<size> - 1) / 2)` through a local), and structural
checks: the loops run over the chunks (`for v in chunks`, `for i, v in enumerate(chunks)` or
`for k in np.arange(len(chunks))` with the chunk spelled `chunks[k]`), the inner split cuts the outer chunk, both
offsets are advanced by the chunk's own length (`y_begin += chunk_y.shape[0]`, `x_begin += chunk_x.shape[1]`),
every block written in the inner loop is `out[y_begin : y_begin + chunk_y.shape[0], x_begin : x_begin +
chunk_x.shape[1]]` (directly or through `y_end`/`x_end` locals), and — when the offsets derive from a window
size — the array that is split is `sliding_window(<a>, (<size>, <size>))` of that same size.
Anything else raises Unsupported.
"""
from __future__ import annotations

import ast

from .common import Unsupported, digest, find_class, find_method, parse, write_if_changed

NAME = "Blocks"

TARGETS = [
    # (lean name, file, class, method, size parameter of the begin expressions or None)
    ("wtaArgmin", "pandora/disparity/disparity.py", "WinnerTakesAll", "argmin_split", None),
    ("wtaArgmax", "pandora/disparity/disparity.py", "WinnerTakesAll", "argmax_split", None),
    ("median", "pandora/filter/median.py", "MedianFilter", "median_filter", "self._filter_size"),
    ("bilateral", "pandora/filter/bilateral.py", "BilateralFilter", "filter_bilateral", "win_width"),
    ("multiscaleRange", "pandora/multiscale/fixed_zoom_pyramid.py", "FixedZoomPyramid", "disparity_range",
     'disp.attrs["window_size"]'),
]


def _int(node):
    return isinstance(node, ast.Constant) and isinstance(node.value, int) and not isinstance(node.value, bool)


def _dotted(node) -> str:
    if isinstance(node, ast.Name):
        return node.id
    if isinstance(node, ast.Attribute):
        return _dotted(node.value) + "." + node.attr
    if isinstance(node, ast.Subscript) and isinstance(node.slice, ast.Constant) and isinstance(node.slice.value, str):
        return _dotted(node.value) + '["' + node.slice.value + '"]'
    return "?"


def _is_np(node, name):
    return isinstance(node, ast.Attribute) and node.attr == name and isinstance(node.value, ast.Name) and node.value.id == "np"


class LoopInfo:
    def __init__(self, where):
        self.where = where
        self.consts = {}  # local name -> int
        self.halves = {}  # local name -> (size expression text, divisor)   for  x = int(size / K)
        self.dims = {}  # local name -> index in `<a>.shape`
        self.splits = {}  # target name -> (axis, start, stop dim, step)
        self.split_arrays = {}  # target name -> ast node of the array that is split
        self.windows = {}  # local name -> size text   for  x = sliding_window(<a>, (<size>, <size>))
        self.begins = {}  # 'outer'/'inner' -> begin expression
        self.window = None

    def value(self, node, what):
        if _int(node):
            return node.value
        if isinstance(node, ast.Name) and node.id in self.consts:
            return self.consts[node.id]
        raise Unsupported(f"{self.where}: {what}: expected an integer literal or a local integer constant")

    def begin(self, node, what):
        """0-ary: ('lit', n) or ('half', size text, divisor)"""
        if _int(node):
            return ("lit", node.value)
        if isinstance(node, ast.Name) and node.id in self.consts:
            return ("lit", self.consts[node.id])
        if isinstance(node, ast.Name) and node.id in self.halves:
            h = self.halves[node.id]
            return ("half",) + h if len(h) == 2 else ("halfm",) + h
        raise Unsupported(f"{self.where}: {what}: unsupported initial offset {ast.dump(node)[:60]}")


def _half(node):
    """int(<size> / K) -> (text of size, K);   int((<size> - M) / K) -> (text of size, K, M)"""
    if (
        isinstance(node, ast.Call)
        and isinstance(node.func, ast.Name)
        and node.func.id == "int"
        and len(node.args) == 1
        and not node.keywords
        and isinstance(node.args[0], ast.BinOp)
        and isinstance(node.args[0].op, ast.Div)
        and _int(node.args[0].right)
        and node.args[0].right.value > 0
    ):
        num = node.args[0].left
        if isinstance(num, ast.BinOp):
            if isinstance(num.op, ast.Sub) and _int(num.right) and num.right.value >= 0 and _dotted(num.left) != "?":
                return (_dotted(num.left), node.args[0].right.value, num.right.value)
            return None
        return (_dotted(num), node.args[0].right.value)
    return None


def _sliding_window(node):
    """sliding_window(<a>, (<size>, <size>)) -> text of size"""
    if (
        isinstance(node, ast.Call) and isinstance(node.func, ast.Name) and node.func.id == "sliding_window"
        and len(node.args) == 2 and not node.keywords and isinstance(node.args[1], ast.Tuple)
        and len(node.args[1].elts) == 2
    ):
        a, b = (_dotted(e) for e in node.args[1].elts)
        if a == b and a != "?":
            return a
        return "?"
    return None


def _window(node, info):
    """min(<dim>, <dim>, int(K1 * sigma_space + K2)) -> (dims, K1, K2)"""
    if not (isinstance(node, ast.Call) and isinstance(node.func, ast.Name) and node.func.id == "min"):
        return None
    dims = []
    formula = None
    for a in node.args:
        if isinstance(a, ast.Name) and a.id in info.dims:
            dims.append(info.dims[a.id])
        elif (
            isinstance(a, ast.Call) and isinstance(a.func, ast.Name) and a.func.id == "int" and len(a.args) == 1
            and isinstance(a.args[0], ast.BinOp) and isinstance(a.args[0].op, ast.Add) and _int(a.args[0].right)
            and isinstance(a.args[0].left, ast.BinOp) and isinstance(a.args[0].left.op, ast.Mult)
            and _int(a.args[0].left.left) and isinstance(a.args[0].left.right, ast.Name)
            and a.args[0].left.right.id == "sigma_space"
        ):
            formula = (a.args[0].left.left.value, a.args[0].right.value)
        else:
            raise Unsupported(f"{info.where}: unsupported argument of min() in the window formula")
    if formula is None:
        raise Unsupported(f"{info.where}: window formula int(K1 * sigma_space + K2) not found")
    return (sorted(dims), formula[0], formula[1])


def _split_call(node, info):
    """np.array_split(<a>, np.arange(start, <dim>, step), axis=k) -> (k, start, dim, step)"""
    if not (isinstance(node, ast.Call) and _is_np(node.func, "array_split")):
        return None
    if len(node.args) != 2:
        raise Unsupported(f"{info.where}: array_split with {len(node.args)} positional arguments")
    axis = None
    for kw in node.keywords:
        if kw.arg == "axis" and _int(kw.value):
            axis = kw.value.value
    if axis not in (0, 1):
        raise Unsupported(f"{info.where}: array_split without axis=0/1")
    ar = node.args[1]
    if not (isinstance(ar, ast.Call) and _is_np(ar.func, "arange") and len(ar.args) == 3 and not ar.keywords):
        raise Unsupported(f"{info.where}: split points are not np.arange(start, stop, step)")
    start = info.value(ar.args[0], "arange start")
    step = info.value(ar.args[2], "arange step")
    if not (isinstance(ar.args[1], ast.Name) and ar.args[1].id in info.dims):
        raise Unsupported(f"{info.where}: arange stop is not a dimension of the array")
    if step <= 0 or start < 0:
        raise Unsupported(f"{info.where}: arange with start {start}, step {step}")
    return (axis, start, info.dims[ar.args[1].id], step)


def _scan_simple_assigns(stmts, info):
    for st in stmts:
        if isinstance(st, ast.Assign) and len(st.targets) == 1:
            tgt, val = st.targets[0], st.value
            if isinstance(tgt, ast.Tuple) and isinstance(val, ast.Attribute) and val.attr == "shape":
                for i, e in enumerate(tgt.elts):
                    if isinstance(e, ast.Name):
                        info.dims[e.id] = i
            elif isinstance(tgt, ast.Name):
                if _int(val):
                    info.consts[tgt.id] = val.value
                elif _half(val):
                    info.halves[tgt.id] = _half(val)
                elif _sliding_window(val):
                    info.windows[tgt.id] = _sliding_window(val)
                else:
                    w = _window(val, info) if tgt.id == "win_width" else None
                    if w:
                        info.window = w
                    sp = _split_call(val, info)
                    if sp:
                        info.splits[tgt.id] = sp
                        info.split_arrays[tgt.id] = val.args[0]


def _loops(stmts):
    """for-loops in a statement list, looking through `with` blocks"""
    for st in stmts:
        if isinstance(st, ast.For):
            yield st
        elif isinstance(st, ast.With):
            yield from _loops(st.body)


class ChunkVar:
    """how the current chunk is spelled inside a block loop: a loop variable, or `chunks[k]`"""

    def __init__(self, name=None, chunks=None, index=None):
        self.name, self.chunks, self.index = name, chunks, index

    def matches(self, node):
        if self.name is not None:
            return isinstance(node, ast.Name) and node.id == self.name
        return (
            isinstance(node, ast.Subscript) and isinstance(node.value, ast.Name) and node.value.id == self.chunks
            and isinstance(node.slice, ast.Name) and node.slice.id == self.index
        )

    def __str__(self):
        return self.name if self.name is not None else f"{self.chunks}[{self.index}]"


def _loop_var_and_iter(loop, info):
    """`for i, v in enumerate(chunks)` or `for v in chunks` -> (v, chunks);
    `for k in np.arange(len(chunks))` / `range(len(chunks))` -> (chunks[k], chunks)"""
    it, tgt = loop.iter, loop.target
    if loop.orelse:
        raise Unsupported(f"{info.where}: block loop with an else clause")
    if (
        isinstance(it, ast.Call) and len(it.args) == 1 and not it.keywords
        and (_is_np(it.func, "arange") or (isinstance(it.func, ast.Name) and it.func.id == "range"))
    ):
        ln = it.args[0]
        if not (
            isinstance(ln, ast.Call) and isinstance(ln.func, ast.Name) and ln.func.id == "len" and len(ln.args) == 1
            and isinstance(ln.args[0], ast.Name) and isinstance(tgt, ast.Name)
        ):
            raise Unsupported(f"{info.where}: unsupported index loop header")
        return ChunkVar(chunks=ln.args[0].id, index=tgt.id), ln.args[0].id
    if isinstance(it, ast.Call) and isinstance(it.func, ast.Name) and it.func.id == "enumerate" and len(it.args) == 1:
        it = it.args[0]
        if not (isinstance(tgt, ast.Tuple) and len(tgt.elts) == 2 and isinstance(tgt.elts[1], ast.Name)):
            raise Unsupported(f"{info.where}: unsupported enumerate target")
        tgt = tgt.elts[1]
    if not (isinstance(it, ast.Name) and isinstance(tgt, ast.Name)):
        raise Unsupported(f"{info.where}: unsupported loop header")
    return ChunkVar(name=tgt.id), it.id


def _is_len_of(node, var, axis):
    """<var>.shape[axis]"""
    return (
        isinstance(node, ast.Subscript) and isinstance(node.value, ast.Attribute) and node.value.attr == "shape"
        and var.matches(node.value.value) and _int(node.slice) and node.slice.value == axis
    )


def _check_writes(inner_body, info, ybegin, xbegin, yvar, xvar):
    """every `out[a:b, c:d] = ...` of the inner loop writes the block
    `[y_begin : y_begin + chunk_y.shape[0], x_begin : x_begin + chunk_x.shape[1]]`"""
    ends = {}
    for st in inner_body:
        if isinstance(st, ast.Assign) and len(st.targets) == 1 and isinstance(st.targets[0], ast.Name):
            ends[st.targets[0].id] = st.value

    def is_end(node, begin, var, axis):
        if isinstance(node, ast.Name) and node.id in ends:
            node = ends[node.id]
        return (
            isinstance(node, ast.BinOp) and isinstance(node.op, ast.Add)
            and isinstance(node.left, ast.Name) and node.left.id == begin and _is_len_of(node.right, var, axis)
        )

    writes = 0
    for st in inner_body:
        if not isinstance(st, (ast.Assign, ast.AugAssign)):
            continue
        for tgt in (st.targets if isinstance(st, ast.Assign) else [st.target]):
            if not isinstance(tgt, ast.Subscript):
                continue
            sl = tgt.slice
            if not (isinstance(sl, ast.Tuple) and len(sl.elts) == 2 and all(isinstance(e, ast.Slice) for e in sl.elts)):
                raise Unsupported(f"{info.where}: unsupported subscript written inside the inner block loop")
            if isinstance(st, ast.AugAssign):
                raise Unsupported(f"{info.where}: a block is updated in place inside the inner block loop")
            for e, begin, var, axis in ((sl.elts[0], ybegin, yvar, 0), (sl.elts[1], xbegin, xvar, 1)):
                ok = (
                    e.step is None and isinstance(e.lower, ast.Name) and e.lower.id == begin
                    and e.upper is not None and is_end(e.upper, begin, var, axis)
                )
                if not ok:
                    raise Unsupported(
                        f"{info.where}: a block is not written at [{begin} : {begin} + {var}.shape[{axis}]]"
                    )
            writes += 1
    if writes == 0:
        raise Unsupported(f"{info.where}: no block is written inside the inner block loop")


def _begin_assigns(stmts, info):
    """`<name> = <begin>` statements directly in `stmts` (looking through `with`) whose name ends with _begin"""
    out = {}
    for st in stmts:
        if isinstance(st, ast.With):
            out.update(_begin_assigns(st.body, info))
        if isinstance(st, ast.Assign) and len(st.targets) == 1 and isinstance(st.targets[0], ast.Name):
            n = st.targets[0].id
            if n.endswith("_begin"):
                out[n] = info.begin(st.value, n)
    return out


def _advance(stmts, info, var, axis):
    """the statement `<x>_begin += <var>.shape[axis]` in stmts -> name of the offset"""
    for st in stmts:
        if (
            isinstance(st, ast.AugAssign) and isinstance(st.op, ast.Add) and isinstance(st.target, ast.Name)
            and st.target.id.endswith("_begin")
        ):
            if not _is_len_of(st.value, var, axis):
                raise Unsupported(f"{info.where}: {st.target.id} is not advanced by {var}.shape[{axis}]")
            return st.target.id
    raise Unsupported(f"{info.where}: no offset is advanced by {var}.shape[{axis}]")


def _no_jumps(loop, where):
    """the block loops must run every statement of their body on every iteration: a `continue`/`break`/`return`
    (or a conditional around the offset bookkeeping) would make the offsets and the chunks drift apart"""
    for sub in ast.walk(loop):
        if isinstance(sub, (ast.Continue, ast.Break, ast.Return)):
            raise Unsupported(f"{where}: `{type(sub).__name__.lower()}` inside a block loop")
        if isinstance(sub, ast.If):
            for inner in ast.walk(sub):
                if isinstance(inner, ast.AugAssign) and isinstance(inner.target, ast.Name) and inner.target.id.endswith("_begin"):
                    raise Unsupported(f"{where}: offset {inner.target.id} advanced conditionally")


def extract_one(rel, cls_name, meth_name, size_text):
    where = f"{rel}:{cls_name}.{meth_name}"
    fn = find_method(find_class(parse(rel), cls_name), meth_name)
    info = LoopInfo(where)
    _scan_simple_assigns(fn.body, info)
    outer = list(_loops(fn.body))
    if len(outer) != 1:
        raise Unsupported(f"{where}: expected exactly one outer block loop, found {len(outer)}")
    outer = outer[0]
    _no_jumps(outer, where)
    yvar, ychunks = _loop_var_and_iter(outer, info)
    _scan_simple_assigns(outer.body, info)
    inner = list(_loops(outer.body))
    if len(inner) != 1:
        raise Unsupported(f"{where}: expected exactly one inner block loop, found {len(inner)}")
    inner = inner[0]
    xvar, xchunks = _loop_var_and_iter(inner, info)
    if ychunks not in info.splits or xchunks not in info.splits:
        raise Unsupported(f"{where}: loop does not iterate over an np.array_split result")
    ay, sy, dy, ty = info.splits[ychunks]
    ax, sx, dx, tx = info.splits[xchunks]
    if (ay, ax) != (0, 1):
        raise Unsupported(f"{where}: outer/inner split axes are {(ay, ax)}, expected (0, 1)")
    if not yvar.matches(info.split_arrays[xchunks]):
        raise Unsupported(f"{where}: the inner split does not cut the chunk {yvar} of the outer loop")
    ybegin = _advance(outer.body, info, yvar, 0)
    xbegin = _advance(inner.body, info, xvar, 1)
    _check_writes(inner.body, info, ybegin, xbegin, yvar, xvar)
    b_outer = _begin_assigns(fn.body, info)
    b_inner = _begin_assigns(outer.body, info)
    if ybegin not in b_outer or xbegin not in b_inner:
        raise Unsupported(f"{where}: initial value of {ybegin}/{xbegin} not found")
    for b in (b_outer[ybegin], b_inner[xbegin]):
        if b[0] in ("half", "halfm") and b[1] != size_text:
            raise Unsupported(f"{where}: offset derived from {b[1]!r}, expected {size_text!r}")
    if size_text is not None:
        arr = info.split_arrays[ychunks]
        if not (isinstance(arr, ast.Name) and info.windows.get(arr.id) == size_text):
            raise Unsupported(f"{where}: the array that is split is not sliding_window(<a>, ({size_text}, {size_text}))")
    out = {
        "startY": sy, "stepY": ty, "stopYDim": dy, "startX": sx, "stepX": tx, "stopXDim": dx,
        "beginY": list(b_outer[ybegin]), "beginX": list(b_inner[xbegin]),
    }
    if info.window is not None:
        out["window"] = {"dims": info.window[0], "k1": info.window[1], "k2": info.window[2]}
    return out


def extract():
    return {name: extract_one(rel, c, m, size) for (name, rel, c, m, size) in TARGETS}


def _begin_lean(b):
    if b[0] == "lit":
        return str(b[1])
    if b[0] == "halfm":
        return f"(size - {b[3]}) / {b[2]}"
    return f"size / {b[2]}"


def render(data) -> str:
    lines = [
        "-- GENERATED by translator/gen_blocks.py from pandora/disparity/disparity.py, pandora/filter/median.py,",
        "-- pandora/filter/bilateral.py, pandora/multiscale/fixed_zoom_pyramid.py. Do not edit.",
        "import PandoraModel.Model.Blocks",
        "namespace Pandora.Generated.Blocks",
        "open Pandora.Blocks",
        "",
    ]
    for name, d in data.items():
        param = any(b[0] in ("half", "halfm") for b in (d["beginY"], d["beginX"]))
        head = f"def {name} (size : Nat) : Split :=" if param else f"def {name} : Split :="
        lines.append(head)
        lines.append(
            f"  {{ startY := {d['startY']}, stepY := {d['stepY']}, stopYDim := {d['stopYDim']}, "
            f"startX := {d['startX']}, stepX := {d['stepX']}, stopXDim := {d['stopXDim']},"
        )
        lines.append(f"    beginY := {_begin_lean(d['beginY'])}, beginX := {_begin_lean(d['beginX'])} }}")
        lines.append(f"def {name}TakesSize : Bool := {'true' if param else 'false'}")
        lines.append("")
        if "window" in d:
            w = d["window"]
            dims = w["dims"]
            expr = f"(Rat.floor ({w['k1']} * sigmaSpace + {w['k2']})).toNat"
            for i in reversed(dims):
                expr = f"min (dims.getD {i} 0) ({expr})"
            lines.append(f"/-- `win_width = min(<dims>, int({w['k1']} * sigma_space + {w['k2']}))` -/")
            lines.append(f"def {name}WinWidth (dims : List Nat) (sigmaSpace : Rat) : Nat := {expr}")
            lines.append("")
    lines.append("end Pandora.Generated.Blocks")
    return "\n".join(lines) + "\n"


SRCS = sorted({t[1] for t in TARGETS})


def generate():
    data = extract()
    write_if_changed("Blocks.lean", render(data))
    return {"T8": {"source": SRCS, "digest": digest(*SRCS), "loops": {k: {kk: vv for kk, vv in v.items()} for k, v in data.items()}}}
