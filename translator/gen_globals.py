"""T13: process-level mutable state written from inside functions -> Generated/Globals.lean

A run is reproducible and leaves nothing behind (C18) only if no function of the package keeps state in the process.
This extractor lists, for the whole `pandora` package, with `ast` only:

* every module-level name bound to a mutable container (dict / list / set literal or constructor, comprehension, numpy
  allocation) that some function of the same module writes (subscript store, `del`, `.update/.append/.add/.pop/...`),
  and every `global` statement;
* every class-level mutable container written through `cls.<attr>[...]` / `self.<attr>[...]` or a mutating method call;
* every function decorated with a memoising decorator (`lru_cache`, `cache`, `cached_property`).

Today the only such state is the eleven plugin registries (`*_methods_avail`), written by `register_subclass` at import
time. The theorem `process_state_is_the_plugin_registries` pins that list.
"""
from __future__ import annotations

import ast
import os

from .common import REPO, Unsupported, lean_str, write_if_changed

NAME = "Globals"
MUT_CALLS = {"update", "append", "add", "pop", "clear", "extend", "insert", "remove", "setdefault", "popitem", "discard", "appendleft"}
CTORS = {"dict", "list", "set", "defaultdict", "OrderedDict", "deque", "Counter", "bytearray"}
NP_ALLOC = {"zeros", "empty", "full", "array", "ones", "zeros_like", "empty_like", "full_like"}
MEMO = {"lru_cache", "cache", "cached_property"}


def is_mutable_ctor(v) -> bool:
    if isinstance(v, (ast.Dict, ast.List, ast.Set, ast.ListComp, ast.DictComp, ast.SetComp)):
        return True
    if isinstance(v, ast.Call):
        f = v.func
        if isinstance(f, ast.Name) and f.id in CTORS:
            return True
        if isinstance(f, ast.Attribute) and (f.attr in NP_ALLOC or f.attr in CTORS):
            return True
    return False


def bound_names(body):
    out = {}
    for st in body:
        pairs = []
        if isinstance(st, ast.Assign):
            pairs = [(t, st.value) for t in st.targets]
        elif isinstance(st, ast.AnnAssign) and st.value is not None:
            pairs = [(st.target, st.value)]
        for t, v in pairs:
            if isinstance(t, ast.Name) and is_mutable_ctor(v):
                out[t.id] = True
    return out


def decorator_name(d) -> str:
    if isinstance(d, ast.Call):
        d = d.func
    if isinstance(d, ast.Attribute):
        return d.attr
    if isinstance(d, ast.Name):
        return d.id
    return ""


def scan_module(rel: str):
    with open(os.path.join(REPO, rel), "r", encoding="utf-8") as f:
        try:
            mod = ast.parse(f.read(), filename=rel)
        except SyntaxError as exc:
            raise Unsupported(f"{rel}: syntax error {exc}") from exc
    mod_names = bound_names(mod.body)
    class_attrs = {}
    for st in ast.walk(mod):
        if isinstance(st, ast.ClassDef):
            for name in bound_names(st.body):
                class_attrs.setdefault(name, []).append(st.name)
    writes, memo = set(), set()
    for fn in ast.walk(mod):
        if not isinstance(fn, (ast.FunctionDef, ast.AsyncFunctionDef)):
            continue
        for d in fn.decorator_list:
            if decorator_name(d) in MEMO:
                memo.add((rel, fn.name))
        for sub in ast.walk(fn):
            if isinstance(sub, ast.Global):
                for n in sub.names:
                    writes.add((rel, n, "global"))
            targets = []
            if isinstance(sub, ast.Assign):
                targets = sub.targets
            elif isinstance(sub, (ast.AugAssign, ast.AnnAssign)):
                targets = [sub.target]
            elif isinstance(sub, ast.Delete):
                targets = sub.targets
            for t in targets:
                if not isinstance(t, ast.Subscript):
                    continue
                v = t.value
                while isinstance(v, ast.Subscript):
                    v = v.value
                if isinstance(v, ast.Name) and v.id in mod_names:
                    writes.add((rel, v.id, "store"))
                if isinstance(v, ast.Attribute) and isinstance(v.value, ast.Name) and v.value.id in ("cls", "self") and v.attr in class_attrs:
                    for cn in class_attrs[v.attr]:
                        writes.add((rel, f"{cn}.{v.attr}", "store"))
            if isinstance(sub, ast.Call) and isinstance(sub.func, ast.Attribute) and sub.func.attr in MUT_CALLS:
                v = sub.func.value
                if isinstance(v, ast.Name) and v.id in mod_names:
                    writes.add((rel, v.id, "call"))
                if isinstance(v, ast.Attribute) and isinstance(v.value, ast.Name) and v.value.id in ("cls", "self") and v.attr in class_attrs:
                    for cn in class_attrs[v.attr]:
                        writes.add((rel, f"{cn}.{v.attr}", "call"))
    return writes, memo


def extract():
    writes, memo = set(), set()
    root = os.path.join(REPO, "pandora")
    n = 0
    for dp, _dn, fns in os.walk(root):
        for f in fns:
            if f.endswith(".py"):
                n += 1
                w, m = scan_module(os.path.relpath(os.path.join(dp, f), REPO))
                writes |= w
                memo |= m
    if n == 0:
        raise Unsupported("no module found under pandora/")
    return sorted(writes), sorted(memo), n


def render(writes, memo) -> str:
    lines = [
        "-- GENERATED by translator/gen_globals.py from every module of the pandora package. Do not edit.",
        "namespace Pandora.Generated.Globals",
        "",
        "/-- (file, container, how): module-level or class-level mutable containers written from inside a function -/",
        "def processStateWrites : List (String × String × String) := [",
        ",\n".join(f"  ({lean_str(a)}, {lean_str(b)}, {lean_str(c)})" for a, b, c in writes),
        "]",
        "",
        "/-- (file, function): functions behind a memoising decorator -/",
        "def memoised : List (String × String) := [",
        ",\n".join(f"  ({lean_str(a)}, {lean_str(b)})" for a, b in memo),
        "]",
        "",
        "end Pandora.Generated.Globals",
    ]
    return "\n".join(lines) + "\n"


def generate():
    writes, memo, n = extract()
    write_if_changed("Globals.lean", render(writes, memo))
    return {"T13": {"modules": n, "process_state_writes": len(writes), "memoised": len(memo)}}
