"""Extension of the statement-level translator (T14, translator/pyloops.py) for the occlusion / mismatch filling kernels
(`find_valid_neighbors` of pandora/img_tools.py, `interpolate_*` of pandora/validation/interpolated_disparity.py).
pyloops.py itself is untouched: everything here is a subclass or a new function.

WHAT IS ADDED (anything else still raises `translator.common.Unsupported`)

  expressions   * `a & b`, `a | b` on two `int`s  -> `PyInterp.band` / `PyInterp.bor`: defined for NON-NEGATIVE operands only
                  (Python's `&` on negative ints is two's complement).  Every operand that is not a non-negative literal is
                  TESTED: `0 ≤ operand` joins the bounds tests of the array reads in the flag `pyOk`, and the function
                  answers `Res.outOfBounds` when one fails.
                * `a | b`, `a & b` on two `bool`s (numpy / numba style `(x < 0) | (x >= n)`): logical or / and, BOTH operands
                  evaluated (no short-circuit: array reads are allowed on both sides and are all tested).
                * `arr[i][j]` on a 2-D array = `arr[i, j]` (numba reads the same cell).
                * dotted integer constants `cst.NAME`, resolved by the generator from pandora/constants.py (ast).
                * `int(e)` of an exact rational / int expression: truncation toward zero (`PyInterp.truncRat`);
                  `math.floor(e)` of an `int` expression: the identity.
  kernel shapes * VECTOR KERNEL (`translate_vec_kernel`):  prelude (`a, b = arr.shape`, scalars,
                  `out = np.zeros(<int literal N>, dtype=np.T)`), ONE loop `for v in range(<the same literal N>): BODY`,
                  `return out`; BODY stores only at `out[v]`.  `out[k]` is then a function of `k`: the per-index function
                  `<name>At … k : Res α` is what is translated, and `<name> … : Res (List α)` collects its N values.
                * PIXEL KERNEL with copied outputs (`translate_copy_kernel`): `out_a = np.copy(A)`, `out_b = np.copy(B)`
                  (A, B array parameters), optional literal table `dirs = np.array([[…], …])`, `n0, n1 = A.shape`, scalars,
                  the pixel nest `for v0 in range(n0): for v1 in range(n1): BODY`, `return out_a, out_b`.  BODY stores only at
                  `out_x[v0, v1]` (also `-=`, `+=`, `|=`: the cell is then read first) and never reads `out_x` otherwise:
                  cell `[v0, v1]` of each output is a function of the pixel, starting from `A[v0, v1]` / `B[v0, v1]`.

Two readings of the IR, as in pyloops: `render_*` (Lean text) and `evaluate_*` (exact values); the harness compares the
evaluator with the real compiled functions, Lean compares the text with the evaluator on generated `example`s.
"""
from __future__ import annotations

import ast
from fractions import Fraction
from typing import Dict, List, Sequence

from . import pyexpr, pyloops
from .common import Unsupported
from .pyexpr import BOOL, INT, RAT, VAL, Binding, Ex, Param, TranslatorBug, lean_ident, src
from .pyloops import (AParam, ArrayInfo, LEAN_TYPE, OK, LoopKernel, MapKernelTranslator, TIf, TLet, TLoop, TMerge, TYield)

NEW_OPS = {"band", "bor", "trunc"}


def nonneg_check(e: Ex):
    """the test `0 ≤ e` a bit operation needs, None when `e` is a non-negative literal"""
    if e.op == "lit" and e.aux >= 0:
        return None
    return Ex("cmp", BOOL, (Ex("lit", INT, (), Fraction(0)), e), "le")


class ExtExprTranslator(pyloops.ExprTranslator):
    def expr(self, node, env, facts) -> Ex:  # noqa: C901
        fn = self.fn.name
        if isinstance(node, ast.Subscript) and isinstance(node.value, ast.Subscript) \
                and isinstance(node.value.value, ast.Name) and node.value.value.id in self.arrays:
            arr = self.arrays[node.value.value.id]
            inner, outer = node.value.slice, node.slice
            if arr.ndim != 2 or isinstance(inner, (ast.Tuple, ast.Slice)) or isinstance(outer, (ast.Tuple, ast.Slice)):
                raise Unsupported(f"{fn}: chained subscript `{src(node)}` (only `arr[i][j]` on a 2-D array)")
            flat = ast.Subscript(value=node.value.value, slice=ast.Tuple(elts=[inner, outer], ctx=ast.Load()), ctx=ast.Load())
            return super().expr(ast.copy_location(flat, node), env, facts)
        if isinstance(node, ast.BinOp) and isinstance(node.op, (ast.BitAnd, ast.BitOr)):
            a = self.expr(node.left, env, facts)
            b = self.expr(node.right, env, facts)
            is_and = isinstance(node.op, ast.BitAnd)
            if a.ty == BOOL and b.ty == BOOL:
                return Ex("and" if is_and else "or", BOOL, (a, b))
            if a.ty == INT and b.ty == INT:
                for x in (a, b):
                    c = nonneg_check(x)
                    if c is not None:
                        self.reads.append(c)
                    elif x.op == "lit" and x.aux < 0:
                        raise Unsupported(f"{fn}: negative literal in `{src(node)}`")
                return Ex("band" if is_and else "bor", INT, (a, b))
            raise Unsupported(f"{fn}: `{src(node)}`: `&` / `|` on {a.ty} and {b.ty}")
        if isinstance(node, ast.Call) and not node.keywords and len(node.args) == 1:
            f = node.func
            if isinstance(f, ast.Name) and f.id == "int" and "int" not in env:
                e = self.expr(node.args[0], env, facts)
                if e.ty == INT:
                    return e
                if e.ty == RAT:
                    return Ex("trunc", INT, (e,))
                raise Unsupported(f"{fn}: `{src(node)}`: int() of a {e.ty} (NaN / infinities have no integer value)")
            if isinstance(f, ast.Attribute) and isinstance(f.value, ast.Name) and f.value.id == "math" and f.attr == "floor" \
                    and "math" not in env:
                e = self.expr(node.args[0], env, facts)
                if e.ty == INT:
                    return e
                raise Unsupported(f"{fn}: `{src(node)}`: math.floor of a {e.ty}")
        return super().expr(node, env, facts)


# ------------------------------------------------------------------------------------------------
# Lean rendering: the new operators are lowered to opaque variables carrying their Lean text, the rest is pyloops'
# ------------------------------------------------------------------------------------------------
def lower(e: Ex, arrays) -> Ex:
    args = tuple(lower(x, arrays) for x in e.args)
    if e.op in NEW_OPS:
        a = [pyloops.lean_expr(x, arrays) for x in args]
        text = {"band": "(PyInterp.band {0} {1})", "bor": "(PyInterp.bor {0} {1})", "trunc": "(PyInterp.truncRat {0})"}[e.op].format(*a)
        return Ex("var", e.ty, (), text)
    return Ex(e.op, e.ty, args, e.aux)


def lower_tree(t, arrays):
    if isinstance(t, TYield):
        return TYield([lower(v, arrays) for v in t.values], t.brk)
    if isinstance(t, TLet):
        return TLet(t.name, lower(t.value, arrays), lower_tree(t.body, arrays))
    if isinstance(t, TIf):
        return TIf(lower(t.cond, arrays), lower_tree(t.then, arrays), lower_tree(t.orelse, arrays))
    if isinstance(t, TMerge):
        return TMerge(t.names, lower(t.cond, arrays), lower_tree(t.then, arrays), lower_tree(t.orelse, arrays), lower_tree(t.body, arrays))
    if isinstance(t, TLoop):
        return TLoop(t.uid, t.names, lower(t.start, arrays), lower(t.stop, arrays), t.step, t.var, lower_tree(t.body, arrays),
                     lower_tree(t.rest, arrays))
    raise TranslatorBug(f"cannot lower {type(t).__name__}")


def render_px(k: LoopKernel, lean_name=None) -> str:
    """the per-index / per-pixel function, rendered by pyloops from the lowered tree"""
    low = LoopKernel(k.py_name, lean_name or k.lean_name, k.params, k.lean_params, k.arrays, k.pixel_vars, k.bounds, k.cells,
                     k.out_name, k.out_elem, lower_tree(k.tree, k.arrays))
    return pyloops.render_lean(low)


# ------------------------------------------------------------------------------------------------
# evaluation (exact): pyloops' evaluator plus the new operators
# ------------------------------------------------------------------------------------------------
def ev(e: Ex, env, arrays):
    if e.op in ("and", "or"):
        x = ev(e.args[0], env, arrays)
        y = ev(e.args[1], env, arrays)  # both evaluated: harmless for pure operands, required for `|` / `&`
        return (x and y) if e.op == "and" else (x or y)
    a = [ev(x, env, arrays) for x in e.args]
    if e.op == "band":
        return (a[0] & a[1]) if a[0] >= 0 and a[1] >= 0 else 0  # Int.toNat of a negative number is 0: as the Lean text
    if e.op == "bor":
        return max(a[0], 0) | max(a[1], 0)
    if e.op == "trunc":
        q = Fraction(a[0])
        n = abs(q.numerator) // q.denominator
        return n if q >= 0 else -n
    env2 = dict(env)
    names = []
    for i, v in enumerate(a):
        env2[f"#x{i}"] = v
        names.append(Ex("var", e.args[i].ty, (), f"#x{i}"))
    return pyloops.ev(Ex(e.op, e.ty, tuple(names), e.aux), env2, arrays)


def run_tree(tree, env, arrays):  # noqa: C901
    """pyloops.run_tree with this module's `ev`"""
    while True:
        if isinstance(tree, TYield):
            return tree.brk, tuple(ev(v, env, arrays) for v in tree.values)
        if isinstance(tree, TLet):
            env = dict(env)
            env[tree.name] = ev(tree.value, env, arrays)
            tree = tree.body
        elif isinstance(tree, TIf):
            tree = tree.then if ev(tree.cond, env, arrays) else tree.orelse
        elif isinstance(tree, TMerge):
            _, vals = run_tree(tree.then if ev(tree.cond, env, arrays) else tree.orelse, env, arrays)
            env = dict(env)
            for (n, _), v in zip(tree.names, vals):
                env[n] = v
            tree = tree.body
        elif isinstance(tree, TLoop):
            a, b = ev(tree.start, env, arrays), ev(tree.stop, env, arrays)
            s = tree.step
            count = max(0, (b - a + s - 1) // s) if s > 0 else max(0, (a - b - s - 1) // (-s))
            state = (True,) + tuple(env[n] for n, _ in tree.names[1:])
            i = a
            for _ in range(count):
                benv = dict(env)
                benv["pyI"] = i
                for (n, _), v in zip(tree.names, state):
                    benv[n] = v
                brk, state = run_tree(tree.body, benv, arrays)
                if brk:
                    break
                i += s
            env = dict(env)
            env[OK] = env[OK] and state[0]
            for (n, _), v in list(zip(tree.names, state))[1:]:
                env[n] = v
            tree = tree.rest
        else:
            raise TranslatorBug(f"cannot run {type(tree).__name__}")


def evaluate_at(k: LoopKernel, args, *index):
    """the per-index / per-pixel function: ("ok", cells) | ("outOfBounds", None)"""
    env, arrays = pyloops.bind_args(k, args)
    for v, i in zip(k.pixel_vars, index):
        env[lean_ident(v)] = int(i)
    _, vals = run_tree(k.tree, env, arrays)
    return ("ok", vals[1:]) if vals[0] else ("outOfBounds", None)


# ------------------------------------------------------------------------------------------------
# vector kernels:  out = np.zeros(N, dtype=…); for v in range(N): BODY (stores at out[v]); return out
# ------------------------------------------------------------------------------------------------
def int_literal(node):
    if isinstance(node, ast.Constant) and isinstance(node.value, int) and not isinstance(node.value, bool):
        return node.value
    return None


class VecKernelTranslator(MapKernelTranslator):
    def __init__(self, fn, lean_name, params, numpy_names=("np",), source_text=None, consts=None):
        super().__init__(fn, lean_name, params, numpy_names, source_text)
        self.x = ExtExprTranslator(fn, lean_name, numpy_names, source_text)
        self.x.consts = dict(consts or {})
        self.length = None

    def store_cell(self, t: ast.Subscript) -> int:
        if not (isinstance(t.value, ast.Name) and t.value.id == self.out_name):
            self.bad(f"store into `{src(t)}`: only the allocated array `{self.out_name}` is written")
        if not (isinstance(t.slice, ast.Name) and t.slice.id == self.pix[0]):
            self.bad(f"`{src(t)}`: a vector kernel stores at `{self.out_name}[{self.pix[0]}]` only")
        return 0

    def prelude_stmt(self, st, env, lets):
        if isinstance(st, ast.Assign) and len(st.targets) == 1 and isinstance(st.targets[0], ast.Name):
            v = st.value
            if isinstance(v, ast.Call) and isinstance(v.func, ast.Attribute) and v.func.attr == "zeros" \
                    and isinstance(v.func.value, ast.Name) and v.func.value.id in self.numpy_names:
                t = st.targets[0]
                if self.out_name is not None:
                    self.bad("more than one allocated array")
                n = int_literal(v.args[0]) if len(v.args) == 1 else None
                if n is None or not 1 <= n <= 64 or len(v.keywords) != 1 or v.keywords[0].arg != "dtype":
                    self.bad(f"allocation `{src(v)}`: expected np.zeros(<int literal>, dtype=np.<type>)")
                d = v.keywords[0].value
                if not (isinstance(d, ast.Attribute) and isinstance(d.value, ast.Name) and d.value.id in self.numpy_names):
                    self.bad(f"dtype `{src(d)}`")
                if d.attr in pyloops.INT_DTYPES:
                    self.out_elem = INT
                    self.notes.append(f"`{t.id}` is {d.attr}: the integer width is not modelled")
                elif d.attr in pyloops.FLOAT_DTYPES:
                    self.out_elem = VAL
                else:
                    self.bad(f"dtype `{src(d)}`")
                if t.id in env or t.id in self.x.arrays:
                    self.bad(f"`{t.id}` is already bound")
                self.out_name, self.out_shape, self.length = t.id, [v.args[0]], n
                return
        super().prelude_stmt(st, env, lets)

    def translate(self) -> LoopKernel:  # noqa: C901
        fn = self.fn
        a = fn.args
        if a.vararg or a.kwarg or a.kwonlyargs or a.posonlyargs or a.defaults or a.kw_defaults:
            self.bad("only plain positional parameters are supported")
        if [x.arg for x in a.args] != [p.name for p in self.params]:
            self.bad(f"parameters {[x.arg for x in a.args]} are not the declared {[p.name for p in self.params]}")
        for node in ast.walk(fn):
            if isinstance(node, (ast.Global, ast.Nonlocal, ast.Lambda, ast.FunctionDef, ast.ClassDef, ast.While, ast.Continue,
                                 ast.Try, ast.With, ast.ListComp, ast.GeneratorExp, ast.IfExp)) and node is not fn:
                self.bad(f"`{type(node).__name__}` is outside the subset")
        env: Dict[str, Binding] = {}
        lean_params = []
        for p in self.params:
            if isinstance(p, AParam):
                if p.elem not in (INT, VAL) or not 1 <= p.ndim <= 3:
                    self.bad(f"array parameter `{p.name}`: element type {p.elem} / {p.ndim} dimensions")
                dims = [lean_ident(f"{p.name}_n{i}") for i in range(p.ndim)]
                self.x.arrays[p.name] = ArrayInfo(p.name, p.elem, p.ndim, lean_ident(p.name), dims)
                lean_params.append((lean_ident(p.name), " → ".join(["Int"] * p.ndim + [LEAN_TYPE[p.elem]])))
                lean_params += [(d, "Int") for d in dims]
            elif isinstance(p, Param) and p.kind in (VAL, RAT, INT, BOOL):
                env[p.name] = Binding(lean_ident(p.name), p.kind)
                lean_params.append((lean_ident(p.name), LEAN_TYPE[p.kind]))
            else:
                self.bad(f"parameter `{p.name}` of an unsupported kind")
        body = list(fn.body)
        if body and isinstance(body[0], ast.Expr) and isinstance(body[0].value, ast.Constant) and isinstance(body[0].value.value, str):
            body = body[1:]
        k = next((i for i, st in enumerate(body) if isinstance(st, ast.For)), None)
        if k is None or len(body) != k + 2:
            self.bad("not a vector kernel: expected prelude, one `for` loop, `return <array>`")
        prelude, outer, ret = body[:k], body[k], body[k + 1]
        lets = []
        for st in prelude:
            self.prelude_stmt(st, env, lets)
        if self.out_name is None or self.length is None:
            self.bad("no `np.zeros(<int literal>, …)` allocation in the prelude")
        if not (isinstance(ret, ast.Return) and isinstance(ret.value, ast.Name) and ret.value.id == self.out_name):
            self.bad(f"the function must end with `return {self.out_name}`")
        v0, e0, loop_body = self.simple_range_loop(outer)
        if int_literal(e0) != self.length:
            self.bad(f"the loop runs over range({src(e0)}) but `{self.out_name}` has {self.length} cells")
        self.pix = (v0,)
        self.frozen = set(env) | {v0} | set(self.x.arrays) | {self.out_name}
        for n in self.assigned(loop_body):
            if n == OK:
                continue
            if n in self.frozen:
                self.bad(f"the loop body assigns `{n}`, which is bound outside it (a value would flow between iterations)")
            if "#" not in n and (n.startswith("py") or n in pyexpr.BUILTINS or n in self.numpy_names or n in ("int", "math")):
                self.bad(f"the local `{n}` collides with a name the translator uses")
        self.check_out_uses(loop_body)
        env = dict(env)
        if v0 in env:
            self.bad(f"the loop variable `{v0}` shadows a local")
        env[v0] = Binding(lean_ident(v0), INT)
        lean_params.append((lean_ident(v0), "Int"))
        cells = [(self.cell_lean(0), self.out_elem)]
        names = {n for n, _ in lean_params} | {c for c, _ in cells}
        if len(names) != len(lean_params) + len(cells):
            self.bad("generated names collide")
        env[OK] = Binding(OK, BOOL)
        env[self.cell_name(0)] = Binding(cells[0][0], self.out_elem)
        want = [OK, self.cell_name(0)]
        tree = self.block(loop_body, env, [], lambda e: TYield([self.var(e[n]) for n in want]), None)
        zero = Ex("lit", INT, (), Fraction(0)) if self.out_elem == INT else Ex("cast", VAL, (Ex("lit", RAT, (), Fraction(0)),))
        tree = TLet(cells[0][0], zero, tree)
        tree = TLet(OK, Ex("const", BOOL, (), True), tree)
        for n, e in reversed(lets):
            tree = TLet(n, e, tree)
        kern = LoopKernel(fn.name, self.lean_name + "At", self.params, lean_params, self.x.arrays, (v0,),
                          (Ex("lit", INT, (), Fraction(self.length)),), cells, self.out_name, self.out_elem, tree, notes=self.notes)
        kern.prelude = lets
        kern.length = self.length
        kern.whole_name = self.lean_name
        try:
            kern.source = ast.unparse(fn)
        except Exception:  # pylint: disable=broad-except
            kern.source = ""
        return kern


def translate_vec_kernel(fn, lean_name, params: Sequence, numpy_names=("np",), source_text=None, consts=None) -> LoopKernel:
    return VecKernelTranslator(fn, lean_name, params, numpy_names, source_text, consts).translate()


def render_vec(k: LoopKernel) -> str:
    """`<name>At … v : Res α` and `<name> … : Res (List α)`"""
    text = render_px(k)
    params = k.lean_params[:-1]
    sig = " ".join(f"({n} : {t})" for n, t in params)
    call = " ".join(n for n, _ in params)
    text += (f"\n/-- the array `{k.py_name}` returns: cell `k` is `{k.lean_name} … k` -/\n"
             f"def {k.whole_name} {sig} : PyLoops.Res (List {LEAN_TYPE[k.out_elem]}) :=\n"
             f"  PyInterp.collect {k.length} (fun (pyK : Int) => {k.lean_name} {call} pyK)\n")
    return text


def evaluate_vec(k: LoopKernel, args):
    """the whole array: ("ok", [cells]) | ("outOfBounds", None)"""
    out = []
    for i in range(k.length):
        res, vals = evaluate_at(k, args, i)
        if res != "ok":
            return ("outOfBounds", None)
        out.append(vals[0])
    return ("ok", out)
