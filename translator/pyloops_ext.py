"""Extension of the statement-level translator (T14, translator/pyloops.py) for the occlusion / mismatch filling kernels
(`find_valid_neighbors` of pandora/img_tools.py, `interpolate_*` of pandora/validation/interpolated_disparity.py).
pyloops.py itself is untouched: everything here is a subclass or a new function.

WHAT IS ADDED (anything else still raises `translator.common.Unsupported`)

  expressions   * `a & b`, `a | b` on two `int`s  -> `PyInterp.band` / `PyInterp.bor`: defined for NON-NEGATIVE operands only
                  (Python's `&` on negative ints is two's complement).  Every operand that is not a non-negative literal is
                  TESTED: `0 ≤ operand` joins the bounds tests of the array reads in the flag `pyOk`, and the function
                  answers `Res.outOfBounds` when one fails.
                * `a | b`, `a & b` on two `bool`s (numpy / numba style `(x < 0) | (x >= n)`): logical or / and, BOTH operands
                  evaluated (no short-circuit: array reads are allowed on both sides and are all tested).
                * `arr[i][j]` on a 2-D array = `arr[i, j]` (numba reads the same cell).
                * dotted integer constants `cst.NAME`, resolved by the generator from pandora/constants.py (ast).
                * `int(e)` of an exact rational / int expression: truncation toward zero (`PyInterp.truncRat`);
                  `math.floor(e)` of an `int` expression: the identity.
  kernel shapes * VECTOR KERNEL (`translate_vec_kernel`):  prelude (`a, b = arr.shape`, scalars,
                  `out = np.zeros(<int literal N>, dtype=np.T)`), ONE loop `for v in range(<the same literal N>): BODY`,
                  `return out`; BODY stores only at `out[v]`.  `out[k]` is then a function of `k`: the per-index function
                  `<name>At … k : Res α` is what is translated, and `<name> … : Res (List α)` collects its N values.
                * PIXEL KERNEL with copied outputs (`translate_copy_kernel`): `out_a = np.copy(A)`, `out_b = np.copy(B)`
                  (A, B array parameters), optional literal table `dirs = np.array([[…], …])`, `n0, n1 = A.shape`, scalars,
                  the pixel nest `for v0 in range(n0): for v1 in range(n1): BODY`, `return out_a, out_b`.  BODY stores only at
                  `out_x[v0, v1]` (also `-=`, `+=`, `|=`: the cell is then read first) and never reads `out_x` otherwise:
                  cell `[v0, v1]` of each output is a function of the pixel, starting from `A[v0, v1]` / `B[v0, v1]`.

Two readings of the IR, as in pyloops: `render_*` (Lean text) and `evaluate_*` (exact values); the harness compares the
evaluator with the real compiled functions, Lean compares the text with the evaluator on generated `example`s.
"""
from __future__ import annotations

import ast
from dataclasses import dataclass
from fractions import Fraction
from typing import Dict, List, Sequence

from . import pyexpr, pyloops
from .common import Unsupported
from .pyexpr import BOOL, INT, RAT, VAL, Binding, Ex, Param, TranslatorBug, lean_ident, src
from .pyloops import (AParam, Arr, ArrayInfo, LEAN_TYPE, OK, LoopKernel, MapKernelTranslator, TIf, TLet, TLoop, TMerge, TYield)

NEW_OPS = {"band", "bor", "trunc"}


def nonneg_check(e: Ex):
    """the test `0 ≤ e` a bit operation needs, None when `e` is a non-negative literal"""
    if e.op == "lit" and e.aux >= 0:
        return None
    return Ex("cmp", BOOL, (Ex("lit", INT, (), Fraction(0)), e), "le")


class ExtExprTranslator(pyloops.ExprTranslator):
    def expr(self, node, env, facts) -> Ex:  # noqa: C901
        fn = self.fn.name
        if isinstance(node, ast.Subscript) and isinstance(node.value, ast.Subscript) \
                and isinstance(node.value.value, ast.Name) and node.value.value.id in self.arrays:
            arr = self.arrays[node.value.value.id]
            inner, outer = node.value.slice, node.slice
            if arr.ndim != 2 or isinstance(inner, (ast.Tuple, ast.Slice)) or isinstance(outer, (ast.Tuple, ast.Slice)):
                raise Unsupported(f"{fn}: chained subscript `{src(node)}` (only `arr[i][j]` on a 2-D array)")
            flat = ast.Subscript(value=node.value.value, slice=ast.Tuple(elts=[inner, outer], ctx=ast.Load()), ctx=ast.Load())
            return super().expr(ast.copy_location(flat, node), env, facts)
        if isinstance(node, ast.BinOp) and isinstance(node.op, (ast.BitAnd, ast.BitOr)):
            a = self.expr(node.left, env, facts)
            b = self.expr(node.right, env, facts)
            is_and = isinstance(node.op, ast.BitAnd)
            if a.ty == BOOL and b.ty == BOOL:
                return Ex("and" if is_and else "or", BOOL, (a, b))
            if a.ty == INT and b.ty == INT:
                for x in (a, b):
                    c = nonneg_check(x)
                    if c is not None:
                        self.reads.append(c)
                    elif x.op == "lit" and x.aux < 0:
                        raise Unsupported(f"{fn}: negative literal in `{src(node)}`")
                return Ex("band" if is_and else "bor", INT, (a, b))
            raise Unsupported(f"{fn}: `{src(node)}`: `&` / `|` on {a.ty} and {b.ty}")
        if isinstance(node, ast.Call) and not node.keywords and len(node.args) == 1:
            f = node.func
            if isinstance(f, ast.Name) and f.id == "int" and "int" not in env:
                e = self.expr(node.args[0], env, facts)
                if e.ty == INT:
                    return e
                if e.ty == RAT:
                    return Ex("trunc", INT, (e,))
                raise Unsupported(f"{fn}: `{src(node)}`: int() of a {e.ty} (NaN / infinities have no integer value)")
            if isinstance(f, ast.Attribute) and isinstance(f.value, ast.Name) and f.value.id == "math" and f.attr == "floor" \
                    and "math" not in env:
                e = self.expr(node.args[0], env, facts)
                if e.ty == INT:
                    return e
                raise Unsupported(f"{fn}: `{src(node)}`: math.floor of a {e.ty}")
        return super().expr(node, env, facts)


# ------------------------------------------------------------------------------------------------
# Lean rendering: the new operators are lowered to opaque variables carrying their Lean text, the rest is pyloops'
# ------------------------------------------------------------------------------------------------
def lower(e: Ex, arrays) -> Ex:
    args = tuple(lower(x, arrays) for x in e.args)
    if e.op in NEW_OPS:
        a = [pyloops.lean_expr(x, arrays) for x in args]
        if e.op == "call":
            py_name, parts = e.aux
            words = [arrays["#callees"][py_name].kernel.whole_name]
            for kind, ref in parts:
                if kind == "array":
                    words += [arrays[ref].lean] + list(arrays[ref].dims)
                else:
                    words.append(a[ref])
            return Ex("var", e.ty, (), "(" + " ".join(words) + ")")
        if e.op in ("sumband2", "slicenonneg2", "rowmaskzero", "rownonneg"):
            info = arrays[e.aux]
            f = {"sumband2": "PyInterp.sumBand2", "slicenonneg2": "PyInterp.allNonneg2", "rowmaskzero": "PyInterp.rowMaskZero",
                 "rownonneg": "PyInterp.rowNonneg"}[e.op]
            return Ex("var", e.ty, (), "(" + " ".join([f, info.lean] + list(info.dims) + a) + ")")
        if e.op == "vecloop":
            n, var, sub = e.aux

            class _K:  # what pyloops.lean_tree needs of a kernel
                pass
            _K.arrays = arrays
            lines = pyloops.lean_tree(lower_tree(sub, arrays), "          ", _K)
            last = lines.pop().strip()
            lines += [f"          let pyOut : Bool × Val := {last}",
                      "          if pyOut.1 then PyLoops.Res.ok pyOut.2 else PyLoops.Res.outOfBounds))"]
            return Ex("var", e.ty, (), f"(PyInterp.collect {n} (fun ({var} : Int) =>\n" + "\n".join(lines))
        if e.op == "inbaxis0":
            return Ex("var", e.ty, (), f"(PyLoops.inb {arrays[e.aux].dims[0]} {a[0]})")
        text = {"band": "(PyInterp.band {0} {1})", "bor": "(PyInterp.bor {0} {1})", "trunc": "(PyInterp.truncRat {0})"}
        text.update(LOWER_TEXT)
        return Ex("var", e.ty, (), text[e.op].format(*a))
    return Ex(e.op, e.ty, args, e.aux)


def lower_tree(t, arrays):
    if isinstance(t, TYield):
        return TYield([lower(v, arrays) for v in t.values], t.brk)
    if isinstance(t, TLet):
        return TLet(t.name, lower(t.value, arrays), lower_tree(t.body, arrays))
    if isinstance(t, TIf):
        return TIf(lower(t.cond, arrays), lower_tree(t.then, arrays), lower_tree(t.orelse, arrays))
    if isinstance(t, TMerge):
        return TMerge(t.names, lower(t.cond, arrays), lower_tree(t.then, arrays), lower_tree(t.orelse, arrays), lower_tree(t.body, arrays))
    if isinstance(t, TLoop):
        return TLoop(t.uid, t.names, lower(t.start, arrays), lower(t.stop, arrays), t.step, t.var, lower_tree(t.body, arrays),
                     lower_tree(t.rest, arrays))
    raise TranslatorBug(f"cannot lower {type(t).__name__}")


def render_px(k: LoopKernel, lean_name=None) -> str:
    """the per-index / per-pixel function, rendered by pyloops from the lowered tree"""
    k.arrays["#callees"] = getattr(k, "callees", {})
    low = LoopKernel(k.py_name, lean_name or k.lean_name, k.params, k.lean_params, k.arrays, k.pixel_vars, k.bounds, k.cells,
                     k.out_name, k.out_elem, lower_tree(k.tree, k.arrays))
    return pyloops.render_lean(low)


# ------------------------------------------------------------------------------------------------
# evaluation (exact): pyloops' evaluator plus the new operators
# ------------------------------------------------------------------------------------------------
def ev(e: Ex, env, arrays):
    if e.op in ("and", "or"):
        x = ev(e.args[0], env, arrays)
        y = ev(e.args[1], env, arrays)  # both evaluated: harmless for pure operands, required for `|` / `&`
        return (x and y) if e.op == "and" else (x or y)
    a = [ev(x, env, arrays) for x in e.args]
    if e.op == "band":
        return (a[0] & a[1]) if a[0] >= 0 and a[1] >= 0 else 0  # Int.toNat of a negative number is 0: as the Lean text
    if e.op == "bor":
        return max(a[0], 0) | max(a[1], 0)
    if e.op == "trunc":
        q = Fraction(a[0])
        n = abs(q.numerator) // q.denominator
        return n if q >= 0 else -n
    if e.op == "call":
        py_name, parts = e.aux
        ck = arrays["#callees"][py_name].kernel
        return evaluate_vec(ck, [arrays[ref] if kind == "array" else a[ref] for kind, ref in parts])
    if e.op in ("sumband2", "slicenonneg2"):
        arr = arrays[e.aux]
        cells = [arr.data[i][j] for i in range(*clip_slice(arr.shape[0], a[0], a[1])) for j in range(*clip_slice(arr.shape[1], a[2], a[3]))]
        if e.op == "slicenonneg2":
            return all(x >= 0 for x in cells)
        return sum((x & a[4]) if x >= 0 and a[4] >= 0 else 0 for x in cells)
    if e.op in ("rowmaskzero", "rownonneg"):
        arr = arrays[e.aux]
        i = pyloops.wrap(arr.shape[0], a[0])
        row = arr.data[i] if 0 <= i < arr.shape[0] else []  # the row index is tested separately (inbaxis0)
        cells = [row[j] for j in range(*clip_slice(arr.shape[1], a[1], a[2]))] if row else []
        if e.op == "rownonneg":
            return all(x >= 0 for x in cells)
        return [((x & a[3]) if x >= 0 and a[3] >= 0 else 0) == 0 for x in cells]
    if e.op == "inbaxis0":
        n = arrays[e.aux].shape[0]
        return 0 <= pyloops.wrap(n, a[0]) < n
    if e.op == "vreverse":
        return list(reversed(a[0]))
    if e.op == "argmax":
        return a[0].index(True) if True in a[0] else 0
    if e.op == "vnonempty":
        return len(a[0]) > 0
    if e.op == "vgetb":
        i = pyloops.wrap(len(a[0]), a[1])
        return a[0][i] if 0 <= i < len(a[0]) else False
    if e.op == "vinbb":
        return 0 <= pyloops.wrap(len(a[0]), a[1]) < len(a[0])
    if e.op == "vecloop":
        n, var, sub = e.aux
        out = []
        for k in range(n):
            env_k = dict(env)
            env_k[var] = k
            _, vals = run_tree(sub, env_k, arrays)
            if not vals[0]:
                return ("outOfBounds", None)
            out.append(vals[1])
        return ("ok", out)
    if e.op == "resok":
        return a[0][0] == "ok"
    if e.op == "resget":
        return list(a[0][1]) if a[0][0] == "ok" else []
    if e.op == "countfinite":
        return sum(1 for v in a[0] if v is not None)
    if e.op == "anyfinite":
        return any(v is not None for v in a[0])
    if e.op == "nanmedian":
        xs = sorted(v for v in a[0] if v is not None)
        n = len(xs)
        if n == 0:
            return None
        return xs[n // 2] if n % 2 else (xs[n // 2 - 1] + xs[n // 2]) / 2
    if e.op == "sortedabsget":
        xs = sorted(a[0], key=lambda v: (v is None, abs(v) if v is not None else 0))  # stable, NaN last
        i = a[1] + len(xs) if a[1] < 0 else a[1]
        return xs[i] if 0 <= i < len(xs) else None
    if e.op == "vinb":
        n = len(a[0])
        return 0 <= (a[1] + n if a[1] < 0 else a[1]) < n
    env2 = dict(env)
    names = []
    for i, v in enumerate(a):
        env2[f"#x{i}"] = v
        names.append(Ex("var", e.args[i].ty, (), f"#x{i}"))
    return pyloops.ev(Ex(e.op, e.ty, tuple(names), e.aux), env2, arrays)


def clip_slice(n, lo, hi):
    """the index range of `a[lo:hi]` on an axis of length n (Python's clipping; PyInterp.clipIdx)"""
    def clip(x):
        x = x + n if x < 0 else x
        return 0 if x < 0 else (n if x > n else x)
    lo, hi = clip(lo), clip(hi)
    return lo, max(lo, hi)


def run_tree(tree, env, arrays):  # noqa: C901
    """pyloops.run_tree with this module's `ev`"""
    while True:
        if isinstance(tree, TYield):
            return tree.brk, tuple(ev(v, env, arrays) for v in tree.values)
        if isinstance(tree, TLet):
            env = dict(env)
            env[tree.name] = ev(tree.value, env, arrays)
            tree = tree.body
        elif isinstance(tree, TIf):
            tree = tree.then if ev(tree.cond, env, arrays) else tree.orelse
        elif isinstance(tree, TMerge):
            _, vals = run_tree(tree.then if ev(tree.cond, env, arrays) else tree.orelse, env, arrays)
            env = dict(env)
            for (n, _), v in zip(tree.names, vals):
                env[n] = v
            tree = tree.body
        elif isinstance(tree, TLoop):
            a, b = ev(tree.start, env, arrays), ev(tree.stop, env, arrays)
            s = tree.step
            count = max(0, (b - a + s - 1) // s) if s > 0 else max(0, (a - b - s - 1) // (-s))
            state = (True,) + tuple(env[n] for n, _ in tree.names[1:])
            i = a
            for _ in range(count):
                benv = dict(env)
                benv["pyI"] = i
                for (n, _), v in zip(tree.names, state):
                    benv[n] = v
                brk, state = run_tree(tree.body, benv, arrays)
                if brk:
                    break
                i += s
            env = dict(env)
            env[OK] = env[OK] and state[0]
            for (n, _), v in list(zip(tree.names, state))[1:]:
                env[n] = v
            tree = tree.rest
        else:
            raise TranslatorBug(f"cannot run {type(tree).__name__}")


def evaluate_at(k: LoopKernel, args, *index):
    """the per-index / per-pixel function: ("ok", cells) | ("outOfBounds", None)"""
    env, arrays = pyloops.bind_args(k, args)
    for name, rows in getattr(k, "literals", {}).items():
        arrays[name] = pyloops.Arr([list(r) for r in rows], (len(rows), len(rows[0])))
    arrays["#callees"] = getattr(k, "callees", {})
    for v, i in zip(k.pixel_vars, index):
        env[lean_ident(v)] = int(i)
    _, vals = run_tree(k.tree, env, arrays)
    return ("ok", vals[1:]) if vals[0] else ("outOfBounds", None)


# ------------------------------------------------------------------------------------------------
# vector kernels:  out = np.zeros(N, dtype=…); for v in range(N): BODY (stores at out[v]); return out
# ------------------------------------------------------------------------------------------------
def int_literal(node):
    if isinstance(node, ast.Constant) and isinstance(node.value, int) and not isinstance(node.value, bool):
        return node.value
    return None


class VecKernelTranslator(MapKernelTranslator):
    def __init__(self, fn, lean_name, params, numpy_names=("np",), source_text=None, consts=None):
        super().__init__(fn, lean_name, params, numpy_names, source_text)
        self.x = ExtExprTranslator(fn, lean_name, numpy_names, source_text)
        self.x.consts = dict(consts or {})
        self.length = None

    def assigned(self, stmts):
        """pyloops carries `pyOk` through an `if` / a loop only when it sees an array read; here bit operations, calls and
        slice sums are tested too: the flag is always carried"""
        out = super().assigned(stmts)
        if OK not in out:
            out.append(OK)
        return out

    def store_cell(self, t: ast.Subscript) -> int:
        if not (isinstance(t.value, ast.Name) and t.value.id == self.out_name):
            self.bad(f"store into `{src(t)}`: only the allocated array `{self.out_name}` is written")
        if not (isinstance(t.slice, ast.Name) and t.slice.id == self.pix[0]):
            self.bad(f"`{src(t)}`: a vector kernel stores at `{self.out_name}[{self.pix[0]}]` only")
        return 0

    def prelude_stmt(self, st, env, lets):
        if isinstance(st, ast.Assign) and len(st.targets) == 1 and isinstance(st.targets[0], ast.Name):
            v = st.value
            if isinstance(v, ast.Call) and isinstance(v.func, ast.Attribute) and v.func.attr == "zeros" \
                    and isinstance(v.func.value, ast.Name) and v.func.value.id in self.numpy_names:
                t = st.targets[0]
                if self.out_name is not None:
                    self.bad("more than one allocated array")
                n = int_literal(v.args[0]) if len(v.args) == 1 else None
                if n is None or not 1 <= n <= 64 or len(v.keywords) != 1 or v.keywords[0].arg != "dtype":
                    self.bad(f"allocation `{src(v)}`: expected np.zeros(<int literal>, dtype=np.<type>)")
                d = v.keywords[0].value
                if not (isinstance(d, ast.Attribute) and isinstance(d.value, ast.Name) and d.value.id in self.numpy_names):
                    self.bad(f"dtype `{src(d)}`")
                if d.attr in pyloops.INT_DTYPES:
                    self.out_elem = INT
                    self.notes.append(f"`{t.id}` is {d.attr}: the integer width is not modelled")
                elif d.attr in pyloops.FLOAT_DTYPES:
                    self.out_elem = VAL
                else:
                    self.bad(f"dtype `{src(d)}`")
                if t.id in env or t.id in self.x.arrays:
                    self.bad(f"`{t.id}` is already bound")
                self.out_name, self.out_shape, self.length = t.id, [v.args[0]], n
                return
        super().prelude_stmt(st, env, lets)

    def translate(self) -> LoopKernel:  # noqa: C901
        fn = self.fn
        a = fn.args
        if a.vararg or a.kwarg or a.kwonlyargs or a.posonlyargs or a.defaults or a.kw_defaults:
            self.bad("only plain positional parameters are supported")
        if [x.arg for x in a.args] != [p.name for p in self.params]:
            self.bad(f"parameters {[x.arg for x in a.args]} are not the declared {[p.name for p in self.params]}")
        for node in ast.walk(fn):
            if isinstance(node, (ast.Global, ast.Nonlocal, ast.Lambda, ast.FunctionDef, ast.ClassDef, ast.While, ast.Continue,
                                 ast.Try, ast.With, ast.ListComp, ast.GeneratorExp, ast.IfExp)) and node is not fn:
                self.bad(f"`{type(node).__name__}` is outside the subset")
        env: Dict[str, Binding] = {}
        lean_params = []
        for p in self.params:
            if isinstance(p, AParam):
                if p.elem not in (INT, VAL) or not 1 <= p.ndim <= 3:
                    self.bad(f"array parameter `{p.name}`: element type {p.elem} / {p.ndim} dimensions")
                dims = [lean_ident(f"{p.name}_n{i}") for i in range(p.ndim)]
                self.x.arrays[p.name] = ArrayInfo(p.name, p.elem, p.ndim, lean_ident(p.name), dims)
                lean_params.append((lean_ident(p.name), " → ".join(["Int"] * p.ndim + [LEAN_TYPE[p.elem]])))
                lean_params += [(d, "Int") for d in dims]
            elif isinstance(p, Param) and p.kind in (VAL, RAT, INT, BOOL):
                env[p.name] = Binding(lean_ident(p.name), p.kind)
                lean_params.append((lean_ident(p.name), LEAN_TYPE[p.kind]))
            else:
                self.bad(f"parameter `{p.name}` of an unsupported kind")
        body = list(fn.body)
        if body and isinstance(body[0], ast.Expr) and isinstance(body[0].value, ast.Constant) and isinstance(body[0].value.value, str):
            body = body[1:]
        k = next((i for i, st in enumerate(body) if isinstance(st, ast.For)), None)
        if k is None or len(body) != k + 2:
            self.bad("not a vector kernel: expected prelude, one `for` loop, `return <array>`")
        prelude, outer, ret = body[:k], body[k], body[k + 1]
        lets = []
        for st in prelude:
            self.prelude_stmt(st, env, lets)
        if self.out_name is None or self.length is None:
            self.bad("no `np.zeros(<int literal>, …)` allocation in the prelude")
        if not (isinstance(ret, ast.Return) and isinstance(ret.value, ast.Name) and ret.value.id == self.out_name):
            self.bad(f"the function must end with `return {self.out_name}`")
        v0, e0, loop_body = self.simple_range_loop(outer)
        if int_literal(e0) != self.length:
            self.bad(f"the loop runs over range({src(e0)}) but `{self.out_name}` has {self.length} cells")
        self.pix = (v0,)
        self.frozen = set(env) | {v0} | set(self.x.arrays) | {self.out_name}
        for n in self.assigned(loop_body):
            if n == OK:
                continue
            if n in self.frozen:
                self.bad(f"the loop body assigns `{n}`, which is bound outside it (a value would flow between iterations)")
            if "#" not in n and (n.startswith("py") or n in pyexpr.BUILTINS or n in self.numpy_names or n in ("int", "math")):
                self.bad(f"the local `{n}` collides with a name the translator uses")
        self.check_out_uses(loop_body)
        env = dict(env)
        if v0 in env:
            self.bad(f"the loop variable `{v0}` shadows a local")
        env[v0] = Binding(lean_ident(v0), INT)
        lean_params.append((lean_ident(v0), "Int"))
        cells = [(self.cell_lean(0), self.out_elem)]
        names = {n for n, _ in lean_params} | {c for c, _ in cells}
        if len(names) != len(lean_params) + len(cells):
            self.bad("generated names collide")
        env[OK] = Binding(OK, BOOL)
        env[self.cell_name(0)] = Binding(cells[0][0], self.out_elem)
        want = [OK, self.cell_name(0)]
        tree = self.block(loop_body, env, [], lambda e: TYield([self.var(e[n]) for n in want]), None)
        zero = Ex("lit", INT, (), Fraction(0)) if self.out_elem == INT else Ex("cast", VAL, (Ex("lit", RAT, (), Fraction(0)),))
        tree = TLet(cells[0][0], zero, tree)
        tree = TLet(OK, Ex("const", BOOL, (), True), tree)
        for n, e in reversed(lets):
            tree = TLet(n, e, tree)
        kern = LoopKernel(fn.name, self.lean_name + "At", self.params, lean_params, self.x.arrays, (v0,),
                          (Ex("lit", INT, (), Fraction(self.length)),), cells, self.out_name, self.out_elem, tree, notes=self.notes)
        kern.prelude = lets
        kern.length = self.length
        kern.whole_name = self.lean_name
        try:
            kern.source = ast.unparse(fn)
        except Exception:  # pylint: disable=broad-except
            kern.source = ""
        return kern


def translate_vec_kernel(fn, lean_name, params: Sequence, numpy_names=("np",), source_text=None, consts=None) -> LoopKernel:
    return VecKernelTranslator(fn, lean_name, params, numpy_names, source_text, consts).translate()


def render_vec(k: LoopKernel) -> str:
    """`<name>At … v : Res α` and `<name> … : Res (List α)`"""
    text = render_px(k)
    params = k.lean_params[:-1]
    sig = " ".join(f"({n} : {t})" for n, t in params)
    call = " ".join(n for n, _ in params)
    text += (f"\n/-- the array `{k.py_name}` returns: cell `k` is `{k.lean_name} … k` -/\n"
             f"def {k.whole_name} {sig} : PyLoops.Res (List {LEAN_TYPE[k.out_elem]}) :=\n"
             f"  PyInterp.collect {k.length} (fun (pyK : Int) => {k.lean_name} {call} pyK)\n")
    return text


def evaluate_vec(k: LoopKernel, args):
    """the whole array: ("ok", [cells]) | ("outOfBounds", None)"""
    out = []
    for i in range(k.length):
        res, vals = evaluate_at(k, args, i)
        if res != "ok":
            return ("outOfBounds", None)
        out.append(vals[0])
    return ("ok", out)


# ------------------------------------------------------------------------------------------------
# pixel kernels with copied outputs, calls of translated vector kernels, named numpy reductions
# ------------------------------------------------------------------------------------------------
VECVAL = "vecval"  # a 1-D float array, as `List Val`
RESVEC = "resvecval"  # what a call of a vector kernel returns
LEAN_TYPE.setdefault(VECVAL, "List Val")  # additive: pyloops renders `let x : <type>` through this table
LEAN_TYPE.setdefault(RESVEC, "PyLoops.Res (List Val)")
VECBOOL = "vecbool"  # a 1-D boolean array (a mask), as `List Bool`
LEAN_TYPE.setdefault(VECBOOL, "List Bool")
NEW_OPS |= {"call", "resok", "resget", "countfinite", "anyfinite", "nanmedian", "sortedabsget", "vinb", "sumband2", "slicenonneg2",
            "rowmaskzero", "rownonneg", "inbaxis0", "vreverse", "argmax", "vnonempty", "vgetb", "vinbb", "vecloop"}
LOWER_TEXT = {
    "resok": "(PyInterp.Res.isOk {0})", "resget": "(PyInterp.Res.getD [] {0})", "countfinite": "(PyInterp.countFinite {0})",
    "anyfinite": "(PyInterp.anyFinite {0})", "nanmedian": "(PyInterp.nanmedian {0})",
    "sortedabsget": "(PyInterp.sortedAbsGet {0} {1})", "vinb": "(PyInterp.vinb {0} {1})",
    "vreverse": "(List.reverse {0})", "argmax": "(PyInterp.argmax {0})", "vnonempty": "(!(List.isEmpty {0}))",
    "vgetb": "(PyInterp.vget false {0} {1})", "vinbb": "(PyInterp.vinb {0} {1})",
}


@dataclass
class Callee:
    """a translated vector kernel another kernel may call: its python name and its `LoopKernel`"""
    py_name: str
    kernel: LoopKernel


class CopyExprTranslator(ExtExprTranslator):
    """+ reductions of a vector local: np.sum(np.isfinite(v)), np.isfinite(v).any(), np.nanmedian(v), v[perm[k]]"""

    def vec_local(self, node, env):
        if isinstance(node, ast.Name) and node.id in env and env[node.id].ty == VECVAL:
            return Ex("var", VECVAL, (), env[node.id].lean)
        return None

    def bool_vec_local(self, node, env):
        if isinstance(node, ast.Name) and node.id in env and env[node.id].ty == VECBOOL:
            return Ex("var", VECBOOL, (), env[node.id].lean)
        return None

    def row_mask(self, node, env, facts):
        """`(arr[i, lo:hi] & c) == 0`: the mask of a row slice (Python clips the slice: no read outside along the row; the
        row index `i` is an ordinary index and is tested) -> Ex of type vecbool, or None when `node` is not of that form"""
        if not (isinstance(node, ast.Compare) and len(node.ops) == 1 and isinstance(node.ops[0], ast.Eq)
                and int_literal(node.comparators[0]) == 0 and isinstance(node.left, ast.BinOp) and isinstance(node.left.op, ast.BitAnd)):
            return None
        sub, cnode = node.left.left, node.left.right
        if not (isinstance(sub, ast.Subscript) and isinstance(sub.value, ast.Name) and sub.value.id in self.arrays
                and isinstance(sub.slice, ast.Tuple) and len(sub.slice.elts) == 2 and isinstance(sub.slice.elts[1], ast.Slice)
                and not isinstance(sub.slice.elts[0], ast.Slice)):
            return None
        fn = self.fn.name
        arr = self.arrays[sub.value.id]
        sl = sub.slice.elts[1]
        if arr.ndim != 2 or arr.elem != INT or sl.step is not None:
            raise Unsupported(f"{fn}: `{src(node)}`: row-slice mask of a {arr.ndim}-D {arr.elem} array / slice with a step")
        if self.short_circuit:
            raise Unsupported(f"{fn}: array read `{src(node)}` inside the right operand of and/or")
        i = self.expr(sub.slice.elts[0], env, facts)
        lo = Ex("lit", INT, (), Fraction(0)) if sl.lower is None else self.expr(sl.lower, env, facts)
        hi = Ex("var", INT, (), arr.dims[1]) if sl.upper is None else self.expr(sl.upper, env, facts)
        c = self.expr(cnode, env, facts)
        if not all(x.ty == INT for x in (i, lo, hi, c)):
            raise Unsupported(f"{fn}: `{src(node)}`: index, slice bounds and constant must be integers")
        self.reads.append(Ex("inbaxis0", BOOL, (i,), arr.name))
        chk = nonneg_check(c)
        if chk is not None:
            self.reads.append(chk)
        self.reads.append(Ex("rownonneg", BOOL, (i, lo, hi), arr.name))
        return Ex("rowmaskzero", VECBOOL, (i, lo, hi, c), arr.name)

    def expr(self, node, env, facts) -> Ex:  # noqa: C901
        fn = self.fn.name
        m = self.row_mask(node, env, facts)
        if m is not None:
            return m
        if isinstance(node, ast.Subscript) and isinstance(node.value, ast.Name) and node.value.id in env \
                and env[node.value.id].ty == VECBOOL:
            v = Ex("var", VECBOOL, (), env[node.value.id].lean)
            sl = node.slice
            if isinstance(sl, ast.Slice):
                step = sl.step
                if sl.lower is None and sl.upper is None and isinstance(step, ast.UnaryOp) and isinstance(step.op, ast.USub) \
                        and int_literal(step.operand) == 1:
                    return Ex("vreverse", VECBOOL, (v,))
                raise Unsupported(f"{fn}: `{src(node)}`: the only slice of a mask is `[::-1]`")
            if isinstance(sl, ast.Tuple):
                raise Unsupported(f"{fn}: `{src(node)}`: a mask has one dimension")
            if self.short_circuit:
                raise Unsupported(f"{fn}: mask read `{src(node)}` inside the right operand of and/or")
            k = self.expr(sl, env, facts)
            if k.ty != INT:
                raise Unsupported(f"{fn}: index `{src(sl)}` is a {k.ty}")
            self.reads.append(Ex("vinbb", BOOL, (v, k)))
            return Ex("vgetb", BOOL, (v, k))
        if isinstance(node, ast.Name) and node.id in env and env[node.id].ty == VECBOOL:
            return Ex("var", VECBOOL, (), env[node.id].lean)
        if isinstance(node, ast.Call) and not node.keywords and self.is_np_call(node, "argmax"):
            v = self.expr(node.args[0], env, facts)
            if v.ty != VECBOOL:
                raise Unsupported(f"{fn}: `{src(node)}`: np.argmax of something that is not a mask")
            self.reads.append(Ex("vnonempty", BOOL, (v,)))  # numpy raises on an empty array
            return Ex("argmax", INT, (v,))
        if isinstance(node, ast.Call) and not node.keywords:
            f = node.func
            if self.is_np_call(node, "sum") and self.is_np_call(node.args[0], "isfinite"):
                v = self.vec_local(node.args[0].args[0], env)
                if v is not None:
                    return Ex("countfinite", INT, (v,))
            if self.is_np_call(node, "sum") and isinstance(node.args[0], ast.BinOp) and isinstance(node.args[0].op, ast.BitAnd):
                # np.sum(arr[lo0:hi0, lo1:hi1] & c): a 2-D slice (clipped as Python clips it: no read outside) of an int array
                sub, cnode = node.args[0].left, node.args[0].right
                if isinstance(sub, ast.Subscript) and isinstance(sub.value, ast.Name) and sub.value.id in self.arrays \
                        and isinstance(sub.slice, ast.Tuple) and len(sub.slice.elts) == 2 \
                        and all(isinstance(x, ast.Slice) for x in sub.slice.elts):
                    arr = self.arrays[sub.value.id]
                    if arr.ndim != 2 or arr.elem != INT:
                        raise Unsupported(f"{fn}: `{src(node)}`: slice sum of a {arr.ndim}-D {arr.elem} array")
                    bounds = []
                    for axis, sl in enumerate(sub.slice.elts):
                        if sl.step is not None:
                            raise Unsupported(f"{fn}: `{src(node)}`: slice with a step")
                        lo = Ex("lit", INT, (), Fraction(0)) if sl.lower is None else self.expr(sl.lower, env, facts)
                        hi = Ex("var", INT, (), arr.dims[axis]) if sl.upper is None else self.expr(sl.upper, env, facts)
                        if lo.ty != INT or hi.ty != INT:
                            raise Unsupported(f"{fn}: `{src(node)}`: slice bounds are not integers")
                        bounds += [lo, hi]
                    c = self.expr(cnode, env, facts)
                    if c.ty != INT:
                        raise Unsupported(f"{fn}: `{src(node)}`: `&` with a {c.ty}")
                    chk = nonneg_check(c)
                    if chk is not None:
                        self.reads.append(chk)
                    self.reads.append(Ex("slicenonneg2", BOOL, tuple(bounds), arr.name))  # `&` is defined on non-negative words
                    return Ex("sumband2", INT, tuple(bounds) + (c,), arr.name)
            if self.is_np_call(node, "nanmedian"):
                v = self.vec_local(node.args[0], env)
                if v is not None:
                    return Ex("nanmedian", VAL, (v,))
            if isinstance(f, ast.Attribute) and f.attr == "any" and not node.args and self.is_np_call(f.value, "isfinite"):
                v = self.vec_local(f.value.args[0], env)
                if v is not None:
                    return Ex("anyfinite", BOOL, (v,))
        if isinstance(node, ast.Subscript) and isinstance(node.value, ast.Name) and node.value.id in env \
                and env[node.value.id].ty == VECVAL:
            # v[perm[k]] with perm = np.argsort(np.abs(v)): entry k of the values sorted stably by |.|, NaN last
            inner = node.slice
            if isinstance(inner, ast.Subscript) and isinstance(inner.value, ast.Name) and inner.value.id in env \
                    and env[inner.value.id].ty == "perm:" + node.value.id and not isinstance(inner.slice, (ast.Tuple, ast.Slice)):
                if self.short_circuit:
                    raise Unsupported(f"{fn}: vector read `{src(node)}` inside the right operand of and/or")
                k = self.expr(inner.slice, env, facts)
                if k.ty != INT:
                    raise Unsupported(f"{fn}: index `{src(inner.slice)}` is a {k.ty}")
                v = Ex("var", VECVAL, (), env[node.value.id].lean)
                self.reads.append(Ex("vinb", BOOL, (v, k)))
                return Ex("sortedabsget", VAL, (v, k))
            raise Unsupported(f"{fn}: `{src(node)}`: a vector local is only read as `v[np.argsort(np.abs(v))[k]]` or through a reduction")
        if isinstance(node, ast.Name) and node.id in env and (env[node.id].ty == VECVAL or str(env[node.id].ty).startswith("perm:")):
            raise Unsupported(f"{fn}: the vector `{node.id}` is used outside a reduction")
        return super().expr(node, env, facts)


@dataclass
class OutArray:
    name: str
    source: str  # the array parameter it copies (None: a local vector filled by an inner loop)
    elem: str
    index: tuple = None  # the index variables a store must use (None: the two pixel variables)


class CopyKernelTranslator(VecKernelTranslator):
    def __init__(self, fn, lean_name, params, numpy_names=("np",), source_text=None, consts=None, callees=()):
        super().__init__(fn, lean_name, params, numpy_names, source_text, consts)
        self.x = CopyExprTranslator(fn, lean_name, numpy_names, source_text)
        self.x.consts = dict(consts or {})
        self.outs: List[OutArray] = []
        self.callees = {c.py_name: c for c in callees}
        self.literals: Dict[str, list] = {}  # literal tables of the prelude
        self.ncall = 0

    # ---- cells: one per output array
    def out_index(self, name):
        for i, o in enumerate(self.outs):
            if o.name == name:
                return i
        return None

    def cell_name(self, k) -> str:
        if isinstance(k, str):  # a local vector met by the assignment analysis outside the loop that fills it
            return f"{k}#0"
        return f"{self.outs[k].name}#0"

    def local_vectors(self):
        """names bound somewhere in the function by `v = np.full(N, np.nan, …)`"""
        if not hasattr(self, "_local_vecs"):
            self._local_vecs = {node.targets[0].id for node in ast.walk(self.fn)
                                if isinstance(node, ast.Assign) and len(node.targets) == 1 and isinstance(node.targets[0], ast.Name)
                                and isinstance(node.value, ast.Call) and self.is_np_full_nan(node.value) is not None}
        return self._local_vecs

    def cell_lean(self, k: int) -> str:
        return lean_ident(f"{self.outs[k].name}_px")

    def lean_of(self, name: str) -> str:
        if "#" in name:
            return self.cell_lean(self.out_index(name.split("#")[0]))
        return lean_ident(name)

    def store_cell(self, t: ast.Subscript) -> int:
        k = self.out_index(t.value.id) if isinstance(t.value, ast.Name) else None
        if k is None and isinstance(t.value, ast.Name) and t.value.id in self.local_vectors():
            return t.value.id  # only the analysis of assigned names gets here (`block` refuses such a store, see below)
        if k is None:
            self.bad(f"store into `{src(t)}`: only the copies {[o.name for o in self.outs]} are written")
        idx = t.slice.elts if isinstance(t.slice, ast.Tuple) else [t.slice]
        want = self.outs[k].index or self.pix
        if len(idx) != len(want) or not all(isinstance(i, ast.Name) and i.id == v for i, v in zip(idx, want)):
            self.bad(f"`{src(t)}`: `{self.outs[k].name}` is stored at `[{', '.join(want)}]` only")
        self.out_elem = self.outs[k].elem  # the element type `block` tests the stored value against
        return k

    def check_out_uses(self, stmts):
        targets = set()
        for st in stmts:
            for node in ast.walk(st):
                if isinstance(node, ast.Assign):
                    for t in node.targets:
                        if isinstance(t, ast.Subscript):
                            targets.add(id(t.value))
                elif isinstance(node, ast.AugAssign) and isinstance(node.target, ast.Subscript):
                    targets.add(id(node.target.value))
        for st in stmts:
            for node in ast.walk(st):
                if isinstance(node, ast.Name) and self.out_index(node.id) is not None and id(node) not in targets:
                    self.bad(f"`{node.id}` is read in the pixel body (only `{node.id}[…] = e` / `op=` are allowed)")

    # ---- prelude
    def prelude_stmt(self, st, env, lets):
        if isinstance(st, ast.Assign) and len(st.targets) == 1 and isinstance(st.targets[0], ast.Name) and isinstance(st.value, ast.Call):
            t, v = st.targets[0], st.value
            f = v.func
            is_np = isinstance(f, ast.Attribute) and isinstance(f.value, ast.Name) and f.value.id in self.numpy_names
            if is_np and f.attr == "copy":
                if len(v.args) != 1 or v.keywords or not (isinstance(v.args[0], ast.Name) and v.args[0].id in self.x.arrays):
                    self.bad(f"`{src(st)}`: expected np.copy(<array parameter>)")
                a = self.x.arrays[v.args[0].id]
                if a.ndim != 2 or t.id in env or t.id in self.x.arrays or self.out_index(t.id) is not None or t.id in self.literals:
                    self.bad(f"`{src(st)}`: copy of a non 2-D array, or `{t.id}` already bound")
                self.outs.append(OutArray(t.id, a.name, a.elem))
                return
            if is_np and f.attr == "array":
                if len(v.args) != 1 or v.keywords or not isinstance(v.args[0], ast.List):
                    self.bad(f"`{src(st)}`: expected np.array([[…], …]) of numeric literals")
                rows, is_float = [], False
                for r in v.args[0].elts:
                    if not isinstance(r, ast.List) or not r.elts:
                        self.bad(f"`{src(st)}`: a row of the table is not a list")
                    row = []
                    for e in r.elts:
                        neg = isinstance(e, ast.UnaryOp) and isinstance(e.op, ast.USub)
                        lit = e.operand if neg else e
                        if not (isinstance(lit, ast.Constant) and isinstance(lit.value, (int, float)) and not isinstance(lit.value, bool)):
                            self.bad(f"`{src(st)}`: entry `{src(e)}` is not a numeric literal")
                        q = self.x.literal(lit)  # exact decimal reading of a float literal, or refusal
                        is_float = is_float or q.ty == RAT
                        row.append(-q.aux if neg else q.aux)
                    rows.append(row)
                if not rows or len({len(r) for r in rows}) != 1:
                    self.bad(f"`{src(st)}`: ragged table")
                if t.id in env or t.id in self.x.arrays or self.out_index(t.id) is not None:
                    self.bad(f"`{t.id}` is already bound")
                # numpy: one float entry makes the whole table float64 (exact for these literals); otherwise int64
                elem = RAT if is_float else INT
                ty = "Rat" if is_float else "Int"
                cell = (lambda q: pyexpr.lean_lit(q, "rat")) if is_float else (lambda q: f"({int(q)} : Int)")
                rows = [[Fraction(q) if is_float else int(q) for q in r] for r in rows]
                text = f"(PyLoops.tab2 (0 : {ty}) [" + ", ".join("[" + ", ".join(cell(q) for q in r) + "]" for r in rows) + "])"
                self.x.arrays[t.id] = ArrayInfo(t.id, elem, 2, text, [f"({len(rows)} : Int)", f"({len(rows[0])} : Int)"])
                self.literals[t.id] = rows
                return
        super().prelude_stmt(st, env, lets)

    # ---- statements beyond pyloops': `|=` on a cell, a vector local bound to a call / to np.argsort(np.abs(v))
    def block(self, ss, env, cont, leaf, brk_leaf):  # noqa: C901
        if ss:
            st, rest = ss[0], list(ss[1:])
            if isinstance(st, (ast.Assign, ast.AugAssign)):
                tg = st.targets[0] if isinstance(st, ast.Assign) else st.target
                if isinstance(tg, ast.Subscript) and isinstance(tg.value, ast.Name) and tg.value.id in self.local_vectors() \
                        and self.out_index(tg.value.id) is None:
                    self.bad(f"`{src(st)}`: `{tg.value.id}` is stored outside the loop that fills it")
            if isinstance(st, ast.AugAssign) and isinstance(st.target, ast.Subscript) and isinstance(st.op, (ast.BitOr, ast.BitAnd)):
                k = self.store_cell(st.target)
                name = self.cell_name(k)
                if self.outs[k].elem != INT:
                    self.bad(f"`{src(st)}`: bit operation on a float array")
                cur = self.var(env[name])
                r = self.expr(st.value, env)
                if r.ty != INT:
                    self.bad(f"`{src(st)}`: bit operation with a {r.ty}")
                for x in (cur, r):
                    c = nonneg_check(x)
                    if c is not None:
                        self.x.reads.append(c)
                e = Ex("bor" if isinstance(st.op, ast.BitOr) else "band", INT, (cur, r))
                env2 = dict(env)
                env2[name] = Binding(self.lean_of(name), INT)
                return self.with_checks(lambda: TLet(self.lean_of(name), e, self.block(rest, env2, cont, leaf, brk_leaf)))
            if isinstance(st, ast.Assign) and len(st.targets) == 1 and isinstance(st.targets[0], ast.Name) and isinstance(st.value, ast.Call) \
                    and self.is_np_full_nan(st.value) is not None:
                return self.vec_loop_stmt(st, rest, env, cont, leaf, brk_leaf)
            if isinstance(st, ast.Assign) and len(st.targets) == 1 and isinstance(st.targets[0], ast.Name) and isinstance(st.value, ast.Call):
                t, v = st.targets[0].id, st.value
                if isinstance(v.func, ast.Name) and v.func.id in self.callees and v.func.id not in env:
                    return self.call_stmt(st, t, v, rest, env, cont, leaf, brk_leaf)
                if self.x.is_np_call(v, "argsort") and self.x.is_np_call(v.args[0], "abs"):
                    inner = v.args[0].args[0]
                    if not (isinstance(inner, ast.Name) and inner.id in env and env[inner.id].ty == VECVAL):
                        self.bad(f"`{src(st)}`: np.argsort(np.abs(v)) of something that is not a vector local")
                    self.fresh_local(t, env)
                    # the permutation is only ever used as `v[perm[k]]`: it is represented by the vector it sorts
                    env2 = dict(env)
                    env2[t] = Binding(env[inner.id].lean, "perm:" + inner.id)
                    return self.block(rest, env2, cont, leaf, brk_leaf)
            if isinstance(st, ast.Assign) and len(st.targets) == 1 and isinstance(st.targets[0], ast.Name):
                # a mask local (`msk = (valid[col, a:b] & c) == 0`, `msk = msk[::-1]`); may be re-assigned
                mark = len(self.x.reads)
                try:
                    e = self.expr(st.value, env)
                except Unsupported:
                    e = None
                if e is not None and e.ty == VECBOOL:
                    name = st.targets[0].id
                    if name in self.frozen or name.startswith("py") or (name in env and env[name].ty != VECBOOL):
                        self.bad(f"`{src(st)}`: `{name}` cannot hold a mask")
                    env2 = dict(env)
                    env2[name] = Binding(lean_ident(name), VECBOOL)
                    return self.with_checks(lambda: TLet(lean_ident(name), e, self.block(rest, env2, cont, leaf, brk_leaf)))
                del self.x.reads[mark:]
            if isinstance(st, (ast.Assign, ast.AugAssign)):
                tg = st.targets[0] if isinstance(st, ast.Assign) else st.target
                if isinstance(tg, ast.Name) and tg.id in env and env[tg.id].ty == VECBOOL:
                    self.bad(f"`{src(st)}`: the mask `{tg.id}` is assigned something that is not a mask")
                if isinstance(tg, ast.Name) and tg.id in env and (env[tg.id].ty == VECVAL or str(env[tg.id].ty).startswith("perm:")):
                    self.bad(f"`{src(st)}`: the vector local `{tg.id}` is assigned twice")
        return super().block(ss, env, cont, leaf, brk_leaf)

    def is_np_full_nan(self, v: ast.Call):
        """`np.full(<int literal N>, np.nan, dtype=np.float32|float64)` -> N, else None"""
        f = v.func
        if not (isinstance(f, ast.Attribute) and f.attr == "full" and isinstance(f.value, ast.Name) and f.value.id in self.numpy_names):
            return None
        if len(v.args) != 2 or len(v.keywords) != 1 or v.keywords[0].arg != "dtype":
            return None
        n, fill, d = int_literal(v.args[0]), v.args[1], v.keywords[0].value
        if n is None or not 1 <= n <= 64:
            return None
        if not (isinstance(fill, ast.Attribute) and isinstance(fill.value, ast.Name) and fill.value.id in self.numpy_names
                and fill.attr in ("nan", "NaN", "NAN")):
            return None
        if not (isinstance(d, ast.Attribute) and isinstance(d.value, ast.Name) and d.value.id in self.numpy_names
                and d.attr in pyloops.FLOAT_DTYPES):
            return None
        return n

    def vec_loop_stmt(self, st, rest, env, cont, leaf, brk_leaf):  # noqa: C901
        """`v = np.full(N, np.nan, dtype=…)` immediately followed by `for k in range(N): BODY`, BODY storing only at `v[k]`,
        never reading `v`, assigning no local bound outside it: an inlined vector kernel.  `v[k]` is a function of `k`
        (starting from NaN): `v := PyInterp.collect N (fun k => <that function>)`, `Res.outOfBounds` when one of its tests fails."""
        name = st.targets[0].id
        n = self.is_np_full_nan(st.value)
        self.fresh_local(name, env)
        if not rest or not isinstance(rest[0], ast.For):
            self.bad(f"`{src(st)}` must be followed by the loop that fills `{name}`")
        loop, after = rest[0], rest[1:]
        var, e0, body = self.simple_range_loop(loop)
        if int_literal(e0) != n:
            self.bad(f"`{name}` has {n} cells but the loop that fills it runs over range({src(e0)})")
        if var in env or var in self.frozen or var.startswith("py"):
            self.bad(f"the loop variable `{var}` is already bound")
        store_bases = {id(node.value) for node in ast.walk(loop) if isinstance(node, ast.Subscript) and isinstance(node.ctx, ast.Store)}
        for node in ast.walk(loop):
            if isinstance(node, ast.AugAssign) and isinstance(node.target, ast.Subscript) and isinstance(node.target.value, ast.Name) \
                    and node.target.value.id == name:
                self.bad(f"`{src(node)}`: `{name}` is read inside the loop that fills it")
            if isinstance(node, ast.Name) and node.id == name and id(node) not in store_bases:
                self.bad(f"`{name}` is read inside the loop that fills it")
        saved_outs, saved_frozen = self.outs, self.frozen
        self.outs = list(self.outs) + [OutArray(name, None, VAL, (var,))]
        self.frozen = set(self.frozen) | {var}
        try:
            k = len(self.outs) - 1
            cell = self.cell_name(k)
            for a in self.assigned(body):
                if a in (OK, cell):
                    continue
                if "#" in a:
                    self.bad(f"the loop that fills `{name}` stores into `{a.split('#')[0]}`")
                if a in env or a in saved_frozen:
                    self.bad(f"the loop that fills `{name}` assigns `{a}`, bound outside it (a value would flow between its iterations)")
                if a.startswith("py") or a in pyexpr.BUILTINS or a in self.numpy_names or a in ("int", "math"):
                    self.bad(f"the local `{a}` collides with a name the translator uses")
            env_in = dict(env)
            env_in[var] = Binding(lean_ident(var), INT)
            env_in[OK] = Binding(OK, BOOL)
            env_in[cell] = Binding(self.cell_lean(k), VAL)
            sub = self.block(list(body), env_in, [], lambda e: TYield([self.var(e[OK]), self.var(e[cell])]), None)
            sub = TLet(OK, Ex("const", BOOL, (), True), TLet(self.cell_lean(k), Ex("nan", VAL), sub))
        finally:
            self.outs, self.frozen = saved_outs, saved_frozen
        self.ncall += 1
        res = f"pyVec{self.ncall}"
        e_loop = Ex("vecloop", RESVEC, (), (n, lean_ident(var), sub))
        env2 = dict(env)
        env2[name] = Binding(lean_ident(name), VECVAL)
        rvar = Ex("var", RESVEC, (), res)
        return TLet(res, e_loop,
                    TLet(OK, Ex("and", BOOL, (Ex("var", BOOL, (), OK), Ex("resok", BOOL, (rvar,)))),
                         TLet(lean_ident(name), Ex("resget", VECVAL, (rvar,)), self.block(list(after), env2, cont, leaf, brk_leaf))))

    def fresh_local(self, name, env):
        if name in env or name in self.frozen or name in self.x.arrays or self.out_index(name) is not None or name.startswith("py"):
            self.bad(f"the vector local `{name}` is already bound")

    def call_stmt(self, st, target, call, rest, env, cont, leaf, brk_leaf):
        callee = self.callees[call.func.id]
        ck = callee.kernel
        if call.keywords or len(call.args) != len(ck.params):
            self.bad(f"`{src(st)}`: {callee.py_name} takes {len(ck.params)} positional arguments")
        self.fresh_local(target, env)
        parts, scalars = [], []
        for p, a in zip(ck.params, call.args):
            if isinstance(p, AParam):
                if not (isinstance(a, ast.Name) and a.id in self.x.arrays):
                    self.bad(f"`{src(st)}`: argument `{src(a)}` is not an array of this kernel")
                info = self.x.arrays[a.id]
                if info.elem != p.elem or info.ndim != p.ndim:
                    self.bad(f"`{src(st)}`: `{a.id}` is a {info.ndim}-D {info.elem} array, `{p.name}` a {p.ndim}-D {p.elem} one")
                parts.append(("array", a.id))
            else:
                e = self.expr(a, env)
                if e.ty != p.kind:
                    self.bad(f"`{src(st)}`: argument `{src(a)}` is a {e.ty}, `{p.name}` a {p.kind}")
                parts.append(("scalar", len(scalars)))
                scalars.append(e)
        self.ncall += 1
        res = f"pyCall{self.ncall}"
        e_call = Ex("call", RESVEC, tuple(scalars), (callee.py_name, tuple(parts)))
        env2 = dict(env)
        env2[target] = Binding(lean_ident(target), VECVAL)
        rvar = Ex("var", RESVEC, (), res)

        def build():
            return TLet(res, e_call,
                        TLet(OK, Ex("and", BOOL, (Ex("var", BOOL, (), OK), Ex("resok", BOOL, (rvar,)))),
                             TLet(lean_ident(target), Ex("resget", VECVAL, (rvar,)), self.block(rest, env2, cont, leaf, brk_leaf))))
        return self.with_checks(build)

    # ---- entry
    def translate(self) -> LoopKernel:  # noqa: C901
        fn = self.fn
        a = fn.args
        if a.vararg or a.kwarg or a.kwonlyargs or a.posonlyargs or a.defaults or a.kw_defaults:
            self.bad("only plain positional parameters are supported")
        if [x.arg for x in a.args] != [p.name for p in self.params]:
            self.bad(f"parameters {[x.arg for x in a.args]} are not the declared {[p.name for p in self.params]}")
        for node in ast.walk(fn):
            if isinstance(node, (ast.Global, ast.Nonlocal, ast.Lambda, ast.FunctionDef, ast.ClassDef, ast.While, ast.Continue,
                                 ast.Try, ast.With, ast.ListComp, ast.GeneratorExp, ast.IfExp)) and node is not fn:
                self.bad(f"`{type(node).__name__}` is outside the subset")
        env: Dict[str, Binding] = {}
        lean_params = []
        for p in self.params:
            if not (isinstance(p, AParam) and p.elem in (INT, VAL) and p.ndim == 2):
                self.bad(f"parameter `{p.name}`: a pixel kernel with copied outputs takes 2-D arrays only")
            dims = [lean_ident(f"{p.name}_n{i}") for i in range(p.ndim)]
            self.x.arrays[p.name] = ArrayInfo(p.name, p.elem, p.ndim, lean_ident(p.name), dims)
            lean_params.append((lean_ident(p.name), " → ".join(["Int"] * p.ndim + [LEAN_TYPE[p.elem]])))
            lean_params += [(d, "Int") for d in dims]
        body = list(fn.body)
        if body and isinstance(body[0], ast.Expr) and isinstance(body[0].value, ast.Constant) and isinstance(body[0].value.value, str):
            body = body[1:]
        k = next((i for i, st in enumerate(body) if isinstance(st, ast.For)), None)
        if k is None or len(body) != k + 2:
            self.bad("not a pixel kernel: expected prelude, one `for` nest, `return <copies>`")
        prelude, outer, ret = body[:k], body[k], body[k + 1]
        lets = []
        for st in prelude:
            self.prelude_stmt(st, env, lets)
        if self.out_name is not None or not self.outs:
            self.bad("a pixel kernel with copied outputs allocates nothing and copies at least one parameter")
        rv = ret.value if isinstance(ret, ast.Return) else None
        names = [e.id for e in rv.elts] if isinstance(rv, ast.Tuple) and all(isinstance(e, ast.Name) for e in rv.elts) else None
        if names is None or sorted(names) != sorted(o.name for o in self.outs) or len(set(names)) != len(names):
            self.bad(f"the function must end with `return` of the copies {[o.name for o in self.outs]}")
        self.outs = [self.outs[self.out_index(n)] for n in names]
        v0, e0, inner_body = self.simple_range_loop(outer)
        if len(inner_body) != 1 or not isinstance(inner_body[0], ast.For):
            self.bad("the outer pixel loop must contain exactly the inner pixel loop")
        v1, e1, pix_body = self.simple_range_loop(inner_body[0])
        if v0 == v1:
            self.bad("the two pixel loops use the same variable")
        self.pix = (v0, v1)
        b0, b1 = self.expr(e0, env), self.expr(e1, env)
        if self.x.take_checks() is not None or b0.ty != INT or b1.ty != INT:
            self.bad("the bounds of the pixel loops must be integer expressions without array reads")
        self.frozen = set(env) | {v0, v1} | set(self.x.arrays) | {o.name for o in self.outs} | set(self.callees)
        for n in self.assigned(pix_body):
            if n == OK:
                continue
            if n in self.frozen:
                self.bad(f"the pixel body assigns `{n}`, which is bound outside it (a value would flow between pixels)")
            if "#" not in n and (n.startswith("py") or n in pyexpr.BUILTINS or n in self.numpy_names or n in ("int", "math")):
                self.bad(f"the local `{n}` collides with a name the translator uses")
        self.check_out_uses(pix_body)
        env = dict(env)
        for v in (v0, v1):
            if v in env:
                self.bad(f"the loop variable `{v}` shadows a local")
            env[v] = Binding(lean_ident(v), INT)
        lean_params += [(lean_ident(v0), "Int"), (lean_ident(v1), "Int")]
        cells = [(self.cell_lean(i), o.elem) for i, o in enumerate(self.outs)]
        allnames = {n for n, _ in lean_params} | {c for c, _ in cells}
        if len(allnames) != len(lean_params) + len(cells):
            self.bad("generated names collide")
        env[OK] = Binding(OK, BOOL)
        for i, (c, ty) in enumerate(cells):
            env[self.cell_name(i)] = Binding(c, ty)
        want = [OK] + [self.cell_name(i) for i in range(len(cells))]
        tree = self.block(pix_body, env, [], lambda e: TYield([self.var(e[n]) for n in want]), None)
        # the copies start from the cell of the array they copy (read, hence tested)
        px = (Ex("var", INT, (), lean_ident(v0)), Ex("var", INT, (), lean_ident(v1)))
        for (c, ty), o in reversed(list(zip(cells, self.outs))):
            tree = TLet(c, Ex("aread", o.elem, px, o.source), tree)
        ok0 = None
        for o in self.outs:
            chk = Ex("inb", BOOL, px, o.source)
            ok0 = chk if ok0 is None else Ex("and", BOOL, (ok0, chk))
        tree = TLet(OK, ok0, tree)
        for n, e in reversed(lets):
            tree = TLet(n, e, tree)
        kern = LoopKernel(fn.name, self.lean_name, self.params, lean_params, self.x.arrays, (v0, v1), (b0, b1), cells,
                          ",".join(o.name for o in self.outs), None, tree, notes=self.notes)
        kern.prelude = lets
        kern.literals = self.literals
        kern.callees = self.callees
        kern.outs = self.outs
        self.notes.append("the uint16 width of the validity mask is not modelled (`-=` / `|=` on unbounded integers)")
        try:
            kern.source = ast.unparse(fn)
        except Exception:  # pylint: disable=broad-except
            kern.source = ""
        return kern


def translate_copy_kernel(fn, lean_name, params, numpy_names=("np",), source_text=None, consts=None, callees=()) -> LoopKernel:
    return CopyKernelTranslator(fn, lean_name, params, numpy_names, source_text, consts, callees).translate()


# ------------------------------------------------------------------------------------------------
# independent reading: pyloops' imperative interpreter of the AST, extended to the constructs above.  It shares nothing
# with the translation (no IR, no per-pixel decomposition): the WHOLE function is run statement by statement on mutable
# arrays, as Python does.  Arrays of any rank are `pyloops.Arr` (cells: int | bool | Fraction | "nan").
# ------------------------------------------------------------------------------------------------
class EmptyArgmax(Exception):
    """numpy raises ValueError on the argmax of an empty array"""


def _flat(x):
    return [z for y in x for z in _flat(y)] if isinstance(x, list) else [x]


def _shape_of(x):
    return (len(x),) + _shape_of(x[0]) if isinstance(x, list) and x else ((0,) if isinstance(x, list) else ())


def _mk(data, integer=False):
    a = Arr(data, _shape_of(data))
    a.integer = integer
    return a


def _map(x, f):
    return [_map(y, f) for y in x] if isinstance(x, list) else f(x)


class InterpExt(pyloops.Interp):
    def __init__(self, numpy_names=("np",), consts=None, functions=None):
        super().__init__(numpy_names)
        self.consts = dict(consts or {})
        self.functions = dict(functions or {})  # python name -> ast.FunctionDef of a callable kernel

    # ---- scalars
    def binop(self, op, a, b):
        if isinstance(op, (ast.BitAnd, ast.BitOr)):
            if isinstance(a, pyloops.Arr) or isinstance(b, pyloops.Arr):
                arr, other = (a, b) if isinstance(a, pyloops.Arr) else (b, a)
                return _mk(_map(arr.data, lambda x: self.binop(op, x, other)), integer=getattr(arr, "integer", False))
            if isinstance(a, bool) and isinstance(b, bool):
                return (a and b) if isinstance(op, ast.BitAnd) else (a or b)
            if isinstance(a, int) and isinstance(b, int) and a >= 0 and b >= 0:
                return (a & b) if isinstance(op, ast.BitAnd) else (a | b)
            raise Unsupported("interpreter: `&` / `|` on something that is not two bools or two non-negative ints")
        return super().binop(op, a, b)

    # ---- subscripts with slices / partial indices
    def subscript(self, arr, parts):
        data, integer = arr.data, getattr(arr, "integer", False)

        def rec(x, shape, parts):
            if not parts:
                return x
            n, p = shape[0], parts[0]
            if isinstance(p, tuple):  # ("slice", lo, hi, step)
                _, lo, hi, step = p
                idx = range(n)[slice(lo, hi, step)]
                return [rec(x[i], shape[1:], parts[1:]) for i in idx]
            i = pyloops.wrap(n, p)
            if not 0 <= i < n:
                raise pyloops.OutOfBounds("index outside the array")
            return rec(x[i], shape[1:], parts[1:])

        out = rec(data, arr.shape, parts)
        return _mk(out, integer) if isinstance(out, list) else out

    def index_parts(self, sl, env):
        out = []
        for p in (sl.elts if isinstance(sl, ast.Tuple) else [sl]):
            if isinstance(p, ast.Slice):
                out.append(("slice",) + tuple(None if x is None else self.ex(x, env) for x in (p.lower, p.upper, p.step)))
            else:
                v = self.ex(p, env)
                if not (isinstance(v, int) and not isinstance(v, bool)):
                    raise Unsupported("interpreter: non-integer index")
                out.append(v)
        return out

    def ex(self, node, env):  # noqa: C901
        if isinstance(node, ast.Attribute) and src(node) in self.consts:
            return self.consts[src(node)]
        if isinstance(node, ast.Subscript):
            base = self.ex(node.value, env) if not isinstance(node.value, ast.Name) else env[node.value.id]
            if not isinstance(base, pyloops.Arr):
                raise Unsupported("interpreter: subscript of a non-array")
            return self.subscript(base, self.index_parts(node.slice, env))
        if isinstance(node, ast.Name) and node.id in env:
            return env[node.id]
        if isinstance(node, ast.List):
            return [self.ex(e, env) for e in node.elts]
        if isinstance(node, ast.Compare) and len(node.ops) == 1:
            left = self.ex(node.left, env)
            if isinstance(left, pyloops.Arr):
                right = self.ex(node.comparators[0], env)
                name = {ast.Eq: "eq", ast.NotEq: "ne", ast.Lt: "lt", ast.LtE: "le", ast.Gt: "gt", ast.GtE: "ge"}[type(node.ops[0])]
                return _mk(_map(left.data, lambda x: pyloops.f_cmp(name, self.num(x), self.num(right))))
        if isinstance(node, ast.Call):
            f = node.func
            if isinstance(f, ast.Name) and f.id in self.functions and f.id not in env:
                return self.call(self.functions[f.id], [self.ex(a, env) for a in node.args])
            if isinstance(f, ast.Name) and f.id == "int" and len(node.args) == 1:
                v = self.ex(node.args[0], env)
                if isinstance(v, int):
                    return int(v)
                if pyloops.is_special(v):
                    raise Unsupported("interpreter: int() of NaN / infinity")
                q = Fraction(v)
                n = abs(q.numerator) // q.denominator
                return n if q >= 0 else -n
            if isinstance(f, ast.Attribute) and isinstance(f.value, ast.Name) and f.value.id == "math" and f.attr == "floor":
                v = self.ex(node.args[0], env)
                if isinstance(v, int) and not isinstance(v, bool):
                    return v
                raise Unsupported("interpreter: math.floor of a non-integer")
            if isinstance(f, ast.Attribute) and f.attr == "any" and not node.args:
                return any(bool(x) for x in _flat(self.ex(f.value, env).data))
            if isinstance(f, ast.Attribute) and isinstance(f.value, ast.Name) and f.value.id in self.np:
                return self.np_call(f.attr, node, env)
        return super().ex(node, env)

    def np_call(self, name, node, env):  # noqa: C901
        args = [self.ex(a, env) for a in node.args]
        dtype = next((k.value.attr for k in node.keywords if k.arg == "dtype" and isinstance(k.value, ast.Attribute)), None)
        if name == "copy":
            return _mk(_map(args[0].data, lambda x: x), getattr(args[0], "integer", False))
        if name == "array":
            integer = all(isinstance(x, int) for x in _flat(args[0]))
            return _mk(_map(args[0], lambda x: x if integer else Fraction(x)), integer)
        if name in ("zeros", "full"):
            shape = args[0] if isinstance(args[0], tuple) else (args[0],)
            integer = dtype in pyloops.INT_DTYPES
            fill = (0 if integer else Fraction(0)) if name == "zeros" else args[1]

            def mk(sh):
                return [mk(sh[1:]) for _ in range(sh[0])] if len(sh) > 1 else [fill] * sh[0]
            a = Arr(mk(list(shape)), shape)
            a.integer = integer
            return a
        if name in ("isfinite", "isnan", "abs") and isinstance(args[0], pyloops.Arr):
            f = {"isfinite": lambda x: not pyloops.is_special(x), "isnan": lambda x: x == pyloops.FNAN,
                 "abs": lambda x: abs(x) if isinstance(x, int) else pyloops.f_abs(x)}[name]
            return _mk(_map(args[0].data, f), name == "abs" and getattr(args[0], "integer", False))
        if name == "sum":
            cells = _flat(args[0].data)
            if any(pyloops.is_special(x) or isinstance(x, Fraction) for x in cells):
                raise Unsupported("interpreter: np.sum of floats")
            return sum(int(x) for x in cells)
        if name == "argmax":
            cells = _flat(args[0].data)
            if not cells:
                raise EmptyArgmax()
            if not all(isinstance(x, bool) for x in cells):
                raise Unsupported("interpreter: np.argmax of a non-boolean array")
            return cells.index(True) if True in cells else 0
        if name == "argsort":
            cells = args[0].data
            order = sorted(range(len(cells)), key=lambda i: (cells[i] == pyloops.FNAN, 0 if cells[i] == pyloops.FNAN else cells[i]))
            return _mk(order, True)
        if name == "nanmedian":
            xs = sorted(x for x in _flat(args[0].data) if x != pyloops.FNAN)
            n = len(xs)
            if n == 0:
                return pyloops.FNAN
            return Fraction(xs[n // 2]) if n % 2 else (Fraction(xs[n // 2 - 1]) + Fraction(xs[n // 2])) / 2
        node2 = node
        return super().ex(node2, env)


def interpret_ext(fn: ast.FunctionDef, args, numpy_names=("np",), consts=None, functions=None):
    """the whole function on `Arr` / scalar arguments (run imperatively, exactly) -> what it returns (an `Arr` or a tuple
    of `Arr`s); raises pyloops.OutOfBounds on a read or store outside an array, EmptyArgmax on np.argmax of an empty mask"""
    return InterpExt(numpy_names, consts, functions).call(fn, list(args))
