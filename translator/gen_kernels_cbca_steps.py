"""T14 (array-state kernels, translator/pyscan.py): the four integral-image kernels of cbca -> Generated/KernelsCbcaSteps.lean.

    pandora/aggregation/cbca.py  cbca_step_1 -> Pandora.Generated.KernelsCbcaSteps.cbcaStep1   (row scan, zero sentinel column)
                                 cbca_step_2 -> cbcaStep2   (indirect stores, `+=`)
                                 cbca_step_3 -> cbcaStep3   (row assignment, column scan, zero sentinel row)
                                 cbca_step_4 -> cbcaStep4   (np.copy, `+=`, np.sum of a slice)

The Lean text is re-read from the Python source on every run; `Properties/C11KernelsSteps.lean` proves the definitions equal
to `Cbca.step1/s1At`, `step2`, `sum2`, `step3/s3At`, `step4`, `sum4` of the hand model for all sizes / costs / arm arrays.
"""
from __future__ import annotations

import ast
import re
from fractions import Fraction

from . import pyexpr, pyloops, pyscan
from .common import Unsupported, digest, find_function, parse, read_source, write_if_changed
from .gen_kernels import module_aliases, python_comment
from .gen_kernels_cbca import check_njit, lean_table
from .pyexpr import INT, VAL
from .pyloops import AParam, Arr

NAME = "KernelsCbcaSteps"
SRC = "pandora/aggregation/cbca.py"

_CROSS = [AParam("cross_left", INT, 3), AParam("cross_right", INT, 3), AParam("range_col", INT, 1), AParam("range_col_right", INT, 1)]
# (python function, Lean name, parameters as the translator must read them)
ARRAY_KERNELS = [
    ("cbca_step_1", "cbcaStep1", [AParam("cv", VAL, 2)]),
    ("cbca_step_3", "cbcaStep3", [AParam("step2", VAL, 2)]),
    ("cbca_step_2", "cbcaStep2", [AParam("step1", VAL, 2)] + _CROSS),
    ("cbca_step_4", "cbcaStep4", [AParam("step3", VAL, 2), AParam("sum2", VAL, 2)] + _CROSS),
]


def check_signature(fn: ast.FunctionDef, params, rel: str):
    """the explicit numba signature, when there is one, declares the element classes / ranks the parameters are read with"""
    for d in fn.decorator_list:
        if not (isinstance(d, ast.Call) and d.args):
            continue
        s = d.args[0]
        if len(d.args) != 1 or not (isinstance(s, ast.Constant) and isinstance(s.value, str)):
            raise Unsupported(f"{rel}: {fn.name}: signature `{ast.unparse(d)}` is not one string")
        m = re.search(r"\(([^()]*)\)\s*$", s.value.strip()) or re.search(r"\(([^()]*)\)", s.value)
        if not m:
            raise Unsupported(f"{rel}: {fn.name}: cannot read the signature `{s.value}`")
        types = re.findall(r"([a-z]+\d*)\s*\[([:,\s]*)\]", m.group(1))
        if len(types) != len(params):
            raise Unsupported(f"{rel}: {fn.name}: signature `{s.value}` does not declare {len(params)} arrays")
        for (ty, dims), p in zip(types, params):
            elem = VAL if ty in ("f4", "f8", "float32", "float64") else INT if ty in ("i2", "i4", "i8", "int16", "int32", "int64") else None
            if elem != p.elem or dims.count(":") != p.ndim:
                raise Unsupported(f"{rel}: {fn.name}: parameter `{p.name}` is declared `{ty}[{dims}]`, read as {p.ndim}-D {p.elem}")


def kernels():
    """-> {lean name: pyscan.ScanKernel} read from the source tree now"""
    mod = parse(SRC)
    numpy_names, _ = module_aliases(mod, SRC)
    out = {}
    for py, lean, params in ARRAY_KERNELS:
        fn = find_function(mod, py)
        check_njit(fn, SRC)
        check_signature(fn, params, SRC)
        k = pyscan.translate_array_kernel(fn, lean, params, numpy_names=numpy_names, source_text=read_source(SRC))
        k.origin = f"{SRC}: {py}"
        k.fn = fn
        k.numpy_names = numpy_names
        out[lean] = k
    return out


# ---- golden values (N = NaN)
N = pyloops.FNAN


def varr(rows) -> Arr:
    rows = [[v if v == N else Fraction(v) for v in r] for r in rows]
    return Arr(rows, (len(rows), len(rows[0]) if rows else 0))


def iarr(x) -> Arr:
    shape = []
    y = x
    while isinstance(y, list):
        shape.append(len(y))
        y = y[0] if y else None
    return Arr(x, tuple(shape))


def arms3(rows):
    """rows of (left, right, top, bot) -> (H, W, 4) integer array"""
    return iarr([[list(c) for c in r] for r in rows])


_AL = arms3([[(0, 1, 0, 1), (1, 1, 0, 0), (2, 0, 0, 1)], [(0, 2, 1, 0), (1, 0, 1, 0), (1, 0, 1, 0)]])
_AR = arms3([[(0, 1, 0, 1), (1, 1, 0, 1), (1, 0, 0, 1)], [(0, 1, 1, 0), (1, 1, 1, 0), (2, 0, 0, 0)]])
_S1 = varr([[1, 3, 6, 0], [5, 5, Fraction(11, 2), 0]])
_S3 = varr([[1, 3, 6], [5, 8, 9], [0, 0, 0]])
_SUM2 = varr([[1, 2, 2], [2, 1, 0]])
GOLDEN = {
    "cbcaStep1": [[varr([[1, 2, 3], [N, 5, Fraction(1, 2)]])], [varr([[N], [2]])], [varr([[4, N, N, 1]])]],
    "cbcaStep3": [[varr([[1, 2, 3], [4, 5, Fraction(1, 2)], [0, 1, 1]])], [varr([[7, 8]])]],
    "cbcaStep2": [
        [_S1, _AL, _AR, iarr([0, 1, 2]), iarr([0, 1, 2])],
        [_S1, _AL, _AR, iarr([1, 2]), iarr([0, 1])],
        [_S1, _AL, _AR, iarr([0, 1]), iarr([1, 2])],
    ],
    "cbcaStep4": [
        [_S3, _SUM2, _AL, _AR, iarr([0, 1, 2]), iarr([0, 1, 2])],
        [_S3, _SUM2, _AL, _AR, iarr([1, 2]), iarr([0, 1])],
    ],
}


def lean_cell(v, elem) -> str:
    if elem == INT:
        return f"({int(v)} : Int)"
    return "Val.nan" if v == N or v is None else f"Val.num {pyexpr.lean_lit(Fraction(v), 'rat')}"


def lean_args(k, args) -> str:
    out = []
    for p, a in zip(k.params, args):
        default = "(0 : Int)" if p.elem == INT else "Val.nan"
        table = lean_table(a.data, p.elem) if p.elem == INT else _val_table(a.data)
        out.append(f"(PyLoops.tab{p.ndim} {default} {table})")
        out += [str(int(n)) for n in a.shape]
    return " ".join(out)


def _val_table(x) -> str:
    return "[" + ", ".join(_val_table(y) for y in x) + "]" if isinstance(x, list) else lean_cell(x, VAL)


def golden(k) -> list:
    out = []
    for args in GOLDEN.get(k.lean_name, []):
        res, vals = pyscan.evaluate(k, args)
        f = f"PyArrays.tab{len(k.returns)}Of"
        if res != "ok":
            rhs = "PyLoops.Res.outOfBounds"
        else:
            tabs = [_val_table(data) if k.arrays[r].elem == VAL else lean_table(data, INT) for (data, _), r in zip(vals, k.returns)]
            rhs = "PyLoops.Res.ok " + (tabs[0] if len(tabs) == 1 else "(" + ", ".join(tabs) + ")")
        out.append(f"example : {f} ({k.lean_name} {lean_args(k, args)}) = {rhs} := by decide +kernel")
    return out


def render(ks) -> str:
    lines = [
        "-- GENERATED by translator/gen_kernels_cbca_steps.py (translator/pyscan.py) from the Python source. Do not edit.",
        "import PandoraModel.Model.PyArrays",
        "set_option linter.unusedVariables false",
        "namespace Pandora.Generated.KernelsCbcaSteps",
        "open Pandora",
        "",
    ]
    for _, k in ks.items():
        lines.append(f"/- {k.origin}   (array-state kernel: the arrays are values threaded through the loops)")
        lines.append(python_comment(k))
        for note in sorted(set(k.notes)):
            lines.append(f"   note: {note.replace('-/', '- /')}")
        lines.append("-/")
        lines.append(pyscan.render_lean(k))
        lines.append("-- what translator/pyscan.py's own evaluator computes on a few inputs, checked here by evaluation")
        lines += golden(k)
        lines.append("")
    lines.append("end Pandora.Generated.KernelsCbcaSteps")
    return "\n".join(lines) + "\n"


def generate():
    ks = kernels()
    write_if_changed("KernelsCbcaSteps.lean", render(ks))
    return {"T14-steps": {"source": SRC, "digest": digest(SRC), "kernels": sorted(ks)}}
