"""T12 (criteria): the DECISIONS of pandora/criteria.py translated expression by expression -> Generated/KernelsCriteria.lean.

criteria.py is vectorised numpy: every decision is an elementwise boolean expression inside `np.where(...)` and every
update is a fancy-indexed `+=` of a constant.  This generator reads each function *per pixel* (per column for
`validity_mask`): an elementwise expression over arrays of one shape is the same expression over one cell of each, and
`A[..., np.where(P)] += K` adds `K` to the cells where `P` holds.  The Lean definitions written here ARE these
statements, re-read from the source text on every run; `Properties/C04Kernels.lean` proves them equal, for all
integers, to the hand model `Model/Criteria.lean` (`vm1`/`vmBit1`, `allocLeft`, `inIdx`/`rightIter`, `maskInvalidVar`,
`maskBorder`).  The expressions are built with translator/pyexpr.py's typed tree (`Ex`, `Let`/`If`/`Merge`/`Ret`),
printed by `pyexpr.render_lean` and evaluated exactly by `pyexpr.evaluate` (the harness compares that evaluation with
the REAL functions on every run of `./check C04`: harness/props/C04.py, `kernels_cross_check`).

    validity_mask        body up to the allocate_* calls        -> validityMaskCol c col0 colLast d_min d_max offset
                                                                    : Int × Bool      (flag word of the column, column ∈ bit_1)
    allocate_left_mask   both `+=`                              -> allocLeftPx flag dil m noData valid : Int
                         `(r_mask != nodata) & (r_mask != valid)`-> leftMaskedPred m noData valid : Bool
    allocate_right_mask  the same predicate                      -> rightMaskedPred m noData valid : Bool
                         `valid_index`                           -> validIndex c idx0 idxLast dsp offset : Bool
                         `xr.where(P, 1, 0)` (the cell of r_mask)-> rightMaskCell m noData valid : Int
                         `for dsp in range(LO, HI)`              -> rightLoopBounds d_min d_max : Int × Int
                         `len(range(d_min, d_max + 1))`          -> rangeLen d_min d_max : Int
                         the body of `for dsp in range(…)`       -> rightIterPx c idx0 idxLast dsp offset d_min d_max bit_1
                                                                    rMaskAt dilAt b_2_7 no_data_right flag
                                                                    : Int × Int × Int × Int   (counters, flag, gather index)
    mask_invalid_variable_disparity_range  the three locals + np.where -> maskInvalidPx flag : Int
    mask_border          the four slice assignments              -> maskBorderPx r c rows cols offset flag : Int

What the atoms stand for (declared here; exercised against the real functions by the harness):

    col            the value of the `col` coordinate at the column (`c`); `col[0]`, `col[-1]` its first and last value
    d_min, d_max   first and last sample of the `disp` coordinate — integers (the ends of the global interval)
    offset         `offset_row_col`, an integer
    col_range      `np.arange(cv.sizes["col"])` at the column (the column index); `col_range[0]`, `col_range[-1]`
    r_mask         the cell of the input mask aligned with the pixel; `img_*.attrs[...]` the two mask codes
    dil            the cell of `binary_dilation_msk` (a bool)
    rMaskAt/dilAt  `r_mask[row, col_d]` / `dil[row, col_d]` at the gathered column `col_d` (returned as 4th component)

THE SUBSET (anything else raises `Unsupported`): elementwise `&` `|` `~` on booleans, `&` on two non-negative ints,
comparisons (not chained), `+ - *` and unary minus on ints, int literals, the declared atoms, `cst.*` constants, locals,
`len(range(a, b))`; scalar `and`/`or`/`not` (refused on arrays: numpy raises).  Statements: the pinned definitions of
the atoms (compared as text), `x = e`, `x = np.where(P)` / `x = ([],)` (an index set, usable only as an index),
scalar `if/else`, and the update shapes listed with each function below.  `.astype(np.uint16)` is read as the identity on
the small non-negative values involved (no wrap-around is modelled).
"""
from __future__ import annotations

import ast
from fractions import Fraction

from . import gen_constants, pyexpr
from .common import Unsupported, digest, find_function, parse, read_source, write_if_changed
from .gen_kernels_glue import module_bindings
from .pyexpr import BOOL, INT, Binding, Ex, If, Kernel, Let, Merge, Param, Ret, Yield, lean_ident, src

NAME = "KernelsCriteria"
SRC = "pandora/criteria.py"
CONSTS = "pandora/constants.py"

PRELUDE = """\
/-- Python's `a & b` on two integers that are not negative (flag words) -/
def pyBand (a b : Int) : Int := ((a.toNat &&& b.toNat : Nat) : Int)
/-- a bound `x` of a Python slice on an axis of length `n` (step 1): negative counts from the end, then clamped -/
def pySliceBound (x n : Int) : Int := if x < 0 then max (x + n) 0 else min x n
/-- `i ∈ range(n)[lo:hi]`, `[lo:]`, `[:hi]` for an index `0 ≤ i < n` -/
def pySlice (lo hi n i : Int) : Bool := decide (pySliceBound lo n ≤ i ∧ i < pySliceBound hi n)
def pySliceFrom (lo n i : Int) : Bool := decide (pySliceBound lo n ≤ i ∧ i < n)
def pySliceTo (hi n i : Int) : Bool := decide (0 ≤ i ∧ i < pySliceBound hi n)
"""


# ------------------------------------------------------------------------------------------------
# the operations this generator adds to pyexpr's tree (`ext`): exact Python readings
# ------------------------------------------------------------------------------------------------
def py_band(a, b):
    if a < 0 or b < 0:
        raise pyexpr.TranslatorBug("`&` on a negative integer is outside the reading of pyBand")
    return a & b


def py_slice_bound(x, n):
    return max(x + n, 0) if x < 0 else min(x, n)


def py_slice(lo, hi, n, i):
    return py_slice_bound(lo, n) <= i < py_slice_bound(hi, n)


def py_slice_from(lo, n, i):
    return py_slice_bound(lo, n) <= i < n


def py_slice_to(hi, n, i):
    return 0 <= i < py_slice_bound(hi, n)


def ext(name, ty, args, fn):
    return Ex("ext", ty, tuple(args), (name, fn))


def lit(v):
    return Ex("lit", INT, (), Fraction(v))


def add(a, b):
    return Ex("add", INT, (a, b))


# ------------------------------------------------------------------------------------------------
# the elementwise expression layer
# ------------------------------------------------------------------------------------------------
CMP = {ast.Lt: "lt", ast.LtE: "le", ast.Gt: "gt", ast.GtE: "ge", ast.Eq: "eq", ast.NotEq: "ne"}


class Pointwise:
    """One per translated function.  `atoms`: (source text, Lean parameter, type, is it an array?) — every occurrence of
    the text is the parameter (at the current cell when it is an array)."""

    def __init__(self, what, atoms, consts, source_text=None):
        self.what = what
        dummy = ast.FunctionDef(name=what, args=ast.arguments(posonlyargs=[], args=[], kwonlyargs=[], kw_defaults=[], defaults=[]),
                                body=[], decorator_list=[])
        self.t = pyexpr.Translator(dummy, what, [], consts, ("np",), source_text)
        self.params, self.lean_params = [], []
        self.arrays = set()
        self.reserved = set()
        for text, lean, ty, is_array in atoms:
            node = ast.parse(text, mode="eval").body
            self.t.atoms[src(node)] = Binding(lean_ident(lean), ty)
            if (lean, ty) not in self.lean_params:
                self.params.append(Param(lean, ty))
                self.lean_params.append((lean_ident(lean), ty))
            if is_array:
                self.arrays.add(lean_ident(lean))
            self.reserved |= {n.id for n in ast.walk(node) if isinstance(n, ast.Name)}
            self.reserved.add(lean)
        self.reserved |= {"np", "xr", "cst", "len", "range", "flag"}

    def bad(self, node, why):
        return Unsupported(f"{SRC}: {self.what}: `{src(node)}`: {why}")

    def is_array(self, e: Ex) -> bool:
        if e.op == "var":
            return e.aux in self.arrays
        return any(self.is_array(x) for x in e.args)

    def local(self, name, e: Ex, env, node, index_set=False):
        """bind the local `name` to the value `e`: -> (lean name, new env)"""
        if name in self.reserved or name in pyexpr.BUILTINS or name.startswith("py"):
            raise self.bad(node, f"the local `{name}` has a meaning given by the translator")
        ln = lean_ident(name)
        if any(ln == p for p, _ in self.lean_params):
            raise self.bad(node, f"the local `{name}` collides with a parameter")
        env = dict(env)
        env[name] = Binding(ln, e.ty)
        if index_set:
            return ln, env
        if self.is_array(e):
            self.arrays.add(ln)
        elif ln in self.arrays:
            raise self.bad(node, f"`{name}` is an array on one path and a scalar on another")
        return ln, env

    def expr(self, node, env) -> Ex:
        e = self.expr_(node, env)
        if e.ty not in (INT, BOOL):
            raise self.bad(node, f"a {e.ty} (only ints and booleans are read)")
        return e

    def expr_(self, node, env) -> Ex:
        if not isinstance(node, ast.Constant) and src(node) in self.t.atoms:
            return self.t.var(self.t.atoms[src(node)])
        if isinstance(node, ast.BinOp):
            if isinstance(node.op, (ast.BitAnd, ast.BitOr)):
                a, b = self.expr(node.left, env), self.expr(node.right, env)
                if a.ty == BOOL and b.ty == BOOL:
                    return self.t.mk_bool("and" if isinstance(node.op, ast.BitAnd) else "or", a, b)
                if a.ty == INT and b.ty == INT and isinstance(node.op, ast.BitAnd):
                    return ext("pyBand", INT, (a, b), py_band)
                raise self.bad(node, f"`&` / `|` on {a.ty} and {b.ty}")
            if isinstance(node.op, (ast.Add, ast.Sub, ast.Mult)):
                a, b = self.expr(node.left, env), self.expr(node.right, env)
                if a.ty != INT or b.ty != INT:
                    raise self.bad(node, f"arithmetic on {a.ty} and {b.ty}")
                return Ex({ast.Add: "add", ast.Sub: "sub", ast.Mult: "mul"}[type(node.op)], INT, (a, b))
            raise self.bad(node, "operator outside the subset")
        if isinstance(node, ast.UnaryOp):
            e = self.expr(node.operand, env)
            if isinstance(node.op, ast.Invert) and e.ty == BOOL:
                return self.t.mk_not(e)
            if isinstance(node.op, ast.Not) and e.ty == BOOL and not self.is_array(e):
                return self.t.mk_not(e)
            if isinstance(node.op, ast.USub) and e.ty == INT:
                return Ex("lit", INT, (), -e.aux) if e.op == "lit" else Ex("neg", INT, (e,))
            if isinstance(node.op, ast.UAdd) and e.ty == INT:
                return e
            raise self.bad(node, f"unary operator on a {e.ty}{' array' if self.is_array(e) else ''}")
        if isinstance(node, ast.BoolOp):
            es = [self.expr(v, env) for v in node.values]
            if any(e.ty != BOOL or self.is_array(e) for e in es):
                raise self.bad(node, "`and` / `or` on arrays (numpy raises) or on numbers")
            out = es[0]
            for e in es[1:]:
                out = self.t.mk_bool("and" if isinstance(node.op, ast.And) else "or", out, e)
            return out
        if isinstance(node, ast.Compare):
            if len(node.ops) != 1 or type(node.ops[0]) not in CMP:
                raise self.bad(node, "only single comparisons `< <= > >= == !=`")
            a, b = self.expr(node.left, env), self.expr(node.comparators[0], env)
            if a.ty != INT or b.ty != INT:
                raise self.bad(node, f"comparison of {a.ty} and {b.ty}")
            return self.t.mk_cmp(CMP[type(node.ops[0])], a, b)
        if isinstance(node, ast.Call):
            # len(range(a, b)) = max(b - a, 0)
            if isinstance(node.func, ast.Name) and node.func.id == "len" and len(node.args) == 1 and not node.keywords:
                r = node.args[0]
                if isinstance(r, ast.Call) and isinstance(r.func, ast.Name) and r.func.id == "range" and not r.keywords \
                        and len(r.args) in (1, 2) and not any(isinstance(x, ast.Starred) for x in r.args):
                    lo = lit(0) if len(r.args) == 1 else self.expr(r.args[0], env)
                    hi = self.expr(r.args[-1], env)
                    if lo.ty != INT or hi.ty != INT or self.is_array(lo) or self.is_array(hi):
                        raise self.bad(node, "range of something that is not a scalar int")
                    return Ex("max", INT, (Ex("sub", INT, (hi, lo)), lit(0)))
            raise self.bad(node, "call outside the subset")
        if isinstance(node, (ast.Name, ast.Constant, ast.Attribute)):
            if isinstance(node, ast.Constant) and not (isinstance(node.value, int) and not isinstance(node.value, bool)):
                raise self.bad(node, "only integer literals")
            return self.t.expr(node, env, frozenset())
        raise self.bad(node, f"{type(node).__name__} is outside the subset")

    def kernel(self, lean_name, tree, ret_types, source) -> Kernel:
        k = Kernel(self.what, lean_name, list(self.params), list(self.lean_params), tree, ret_types, False)
        k.source = source
        return k


# ------------------------------------------------------------------------------------------------
# matching helpers
# ------------------------------------------------------------------------------------------------
def strip_doc(body):
    if body and isinstance(body[0], ast.Expr) and isinstance(body[0].value, ast.Constant) and isinstance(body[0].value.value, str):
        return body[1:]
    return body


def text(node) -> str:
    return " ".join(ast.unparse(node).split())


def is_full_slice(node) -> bool:
    return isinstance(node, ast.Slice) and node.lower is None and node.upper is None and node.step is None


def np_call(node, name, nargs=None, mods=("np",)):
    """`np.<name>(...)` without keywords -> its arguments, else None"""
    if isinstance(node, ast.Call) and isinstance(node.func, ast.Attribute) and node.func.attr == name \
            and isinstance(node.func.value, ast.Name) and node.func.value.id in mods and not node.keywords \
            and not any(isinstance(a, ast.Starred) for a in node.args) and (nargs is None or len(node.args) == nargs):
        return node.args
    return None


def strip_astype(node):
    """`e.astype(np.uint16)` -> e (identity on the small non-negative values involved), else the node itself"""
    while isinstance(node, ast.Call) and isinstance(node.func, ast.Attribute) and node.func.attr == "astype" \
            and len(node.args) == 1 and not node.keywords and text(node.args[0]) in ("np.uint16", "np.int64", "int"):
        node = node.func.value
    return node


def merge1(name, cond, then_val, else_val, body):
    return Merge([(name, INT)], cond, Yield([then_val]), Yield([else_val]), body)


def check_module(mod):
    b = module_bindings(mod)
    want = {"np": ("import", "numpy"), "xr": ("import", "xarray"), "cst": ("import", "pandora.constants")}
    for n, how in want.items():
        if b.get(n) != how:
            raise Unsupported(f"{SRC}: `{n}` is not bound by `import {how[1]} as {n}` ({b.get(n)})")
    for n in ("len", "range", "int"):
        if n in b:
            raise Unsupported(f"{SRC}: the builtin `{n}` is rebound at module level")


def constants():
    return {f"cst.{k}": v for k, v in gen_constants.extract().items()}


_SOURCE_OVERRIDE = None  # self-test only: the text read instead of pandora/criteria.py


def load(func):
    if _SOURCE_OVERRIDE is not None:
        mod = ast.parse(_SOURCE_OVERRIDE)
        check_module(mod)
        return find_function(mod, func), _SOURCE_OVERRIDE
    mod = parse(SRC)
    check_module(mod)
    fn = find_function(mod, func)
    if fn.decorator_list:
        raise Unsupported(f"{SRC}: {func}: decorators are not expected")
    return fn, read_source(SRC)


def take_pins(pw, stmts, pins, optional=()):
    """the statements that give the atoms their meaning are compared as text and dropped; each required one must be
    present exactly once at the top level of the body; no other statement may assign these names"""
    rest, seen = [], []
    for st in stmts:
        t = text(st)
        if t in pins or t in optional:
            seen.append(t)
        else:
            rest.append(st)
    for p in pins:
        if seen.count(p) != 1:
            raise Unsupported(f"{SRC}: {pw.what}: expected exactly one `{p}` (what the translated names stand for), found {seen.count(p)}")
    return rest


# ------------------------------------------------------------------------------------------------
# a generic statement walker: locals, index sets, scalar `if`, and the update shapes given by `update`
# ------------------------------------------------------------------------------------------------
class Walker:
    """`update(st, env, sets, body)` -> tree or None: the function-specific update statements (`body(env, sets)` gives the
    tree of what follows).  `final(env, sets)` -> the tree at the end of the statement list."""

    def __init__(self, pw: Pointwise, update, final, set_values=True):
        self.pw, self.update, self.final = pw, update, final
        self.set_values = set_values

    def index_set(self, node, env, sets):
        """an index set as the condition "the current cell is in it": `np.where(P)`, a set local, `([],)`"""
        a = np_call(node, "where", 1)
        if a is not None:
            e = self.pw.expr(a[0], env)
            if e.ty != BOOL:
                raise self.pw.bad(node, "np.where of something that is not a boolean")
            return e
        if isinstance(node, ast.Name) and node.id in sets:
            return self.pw.t.var(sets[node.id])
        if isinstance(node, ast.Tuple) and len(node.elts) == 1 and isinstance(node.elts[0], ast.List) and not node.elts[0].elts:
            return Ex("const", BOOL, (), False)
        return None

    def walk(self, ss, env, sets):
        pw = self.pw
        if not ss:
            return self.final(env, sets)
        st, rest = ss[0], ss[1:]

        def body(env2, sets2):
            return self.walk(rest, env2, sets2)

        if isinstance(st, ast.Pass):
            return body(env, sets)
        if isinstance(st, ast.If):
            cond = pw.expr(st.test, env)
            if cond.ty != BOOL or pw.is_array(cond):
                raise pw.bad(st.test, "the test of an `if` must be a scalar boolean")
            return If(cond, self.walk(list(st.body) + rest, env, sets), self.walk(list(st.orelse) + rest, env, sets))
        tree = self.update(st, env, sets, body)
        if tree is not None:
            return tree
        if isinstance(st, ast.Assign) and len(st.targets) == 1 and isinstance(st.targets[0], ast.Name):
            name = st.targets[0].id
            s = self.index_set(st.value, env, sets) if self.set_values else None
            if s is not None:
                ln, _ = pw.local(name, s, {}, st, index_set=True)
                if name in env:
                    raise pw.bad(st, f"`{name}` is a value on one path and an index set on another")
                sets2 = dict(sets)
                sets2[name] = Binding(ln, BOOL)
                return Let(ln, s, body(env, sets2))
            if name in sets:
                raise pw.bad(st, f"`{name}` is an index set on one path and a value on another")
            e = pw.expr(st.value, env)
            ln, env2 = pw.local(name, e, env, st)
            return Let(ln, e, body(env2, sets))
        raise pw.bad(st, "statement outside the subset")


# ------------------------------------------------------------------------------------------------
# validity_mask
# ------------------------------------------------------------------------------------------------
VM_ATOMS = [("col", "c", INT, True), ("col[0]", "col0", INT, False), ("col[-1]", "colLast", INT, False),
            ("d_min", "d_min", INT, False), ("d_max", "d_max", INT, False), ("offset", "offset", INT, False)]
VM_PINS = ["d_min, d_max = cv.coords['disp'].data[[0, -1]]", "col = cv.coords['col'].data", "offset = cv.attrs['offset_row_col']"]
VM_TAIL = ["if 'msk' in img_left.data_vars: allocate_left_mask(cv, img_left)",
           "if 'msk' in img_right.data_vars: allocate_right_mask(cv, img_right, bit_1)", "return cv"]
FULL_SHAPE = "(cv.sizes['row'], cv.sizes['col'])"


def flag_init(pw, st):
    """`cv["validity_mask"] = xr.DataArray(np.full((rows, cols), FILL), dims=["row", "col"])` -> FILL"""
    if isinstance(st, ast.Assign) and len(st.targets) == 1 and text(st.targets[0]) == "cv['validity_mask']":
        v = st.value
        if isinstance(v, ast.Call) and text(v.func) == "xr.DataArray" and len(v.args) == 1 \
                and [(k.arg, text(k.value)) for k in v.keywords] == [("dims", "['row', 'col']")]:
            a = np_call(v.args[0], "full", 2)
            if a is not None and text(a[0]) == FULL_SHAPE and isinstance(a[1], ast.Constant) and isinstance(a[1].value, int) \
                    and not isinstance(a[1].value, bool):
                return a[1].value
        raise pw.bad(st, "the allocation of the validity mask is not `xr.DataArray(np.full((rows, cols), <int>), dims=['row', 'col'])`")
    return None


def column_update(w, st, env, sets, body, base="cv['validity_mask'].data"):
    """`<base>[:, IDX] += V` (IDX an index set over the columns, V a scalar int) -> the column's flag"""
    pw = w.pw
    if isinstance(st, ast.AugAssign) and isinstance(st.target, ast.Subscript) and text(st.target.value) == base:
        sl = st.target.slice
        if not (isinstance(sl, ast.Tuple) and len(sl.elts) == 2 and is_full_slice(sl.elts[0])):
            raise pw.bad(st, "the mask is updated through `[:, <columns>]` only")
        cond = w.index_set(sl.elts[1], env, sets)
        if cond is None:
            raise pw.bad(st, "the columns are not `np.where(P)` or an index set")
        if not isinstance(st.op, ast.Add):
            raise pw.bad(st, "only `+=` on the mask")
        if "flag" not in env:
            raise pw.bad(st, "the mask is updated before it is allocated")
        v = pw.expr(st.value, env)
        if v.ty != INT or pw.is_array(v):
            raise pw.bad(st, "the value added is not a scalar int")
        f = pw.t.var(env["flag"])
        return merge1("flag", cond, add(f, v), f, body(env, sets))
    return None


def validity_mask_kernel():
    fn, source = load("validity_mask")
    pw = Pointwise("validity_mask", VM_ATOMS, constants(), source)
    ss = strip_doc(fn.body)
    n = len(VM_TAIL)
    if [text(s) for s in ss[-n:]] != VM_TAIL:
        raise Unsupported(f"{SRC}: validity_mask does not end with the two allocate_* calls and `return cv`: {[text(s) for s in ss[-n:]]}")
    ss = take_pins(pw, ss[:-n], VM_PINS)

    def update(st, env, sets, body):
        fill = flag_init(pw, st)
        if fill is not None:
            if "flag" in env:
                raise pw.bad(st, "the mask is allocated twice")
            env2 = dict(env)
            env2["flag"] = Binding("flag", INT)
            return Let("flag", lit(fill), body(env2, sets))
        return column_update(w, st, env, sets, body)

    def final(env, sets):
        if "flag" not in env or "bit_1" not in sets:
            raise Unsupported(f"{SRC}: validity_mask: the mask or `bit_1` is not defined on every path")
        return Ret([pw.t.var(env["flag"]), pw.t.var(sets["bit_1"])])

    w = Walker(pw, update, final)
    tree = w.walk(ss, {}, {})
    k = pw.kernel("validityMaskCol", tree, [INT, BOOL], ast.unparse(fn))
    k.origin = f"{SRC}: validity_mask, up to the allocate_* calls, read for one column -> (flag word, column in bit_1)"
    return k


# ------------------------------------------------------------------------------------------------
# allocate_left_mask / the "masked" predicate of both allocate functions
# ------------------------------------------------------------------------------------------------
def masked_atoms(side):
    return [("r_mask", "m", INT, True), (f"img_{side}.attrs['no_data_mask']", "noData", INT, False),
            (f"img_{side}.attrs['valid_pixels']", "valid", INT, False)]


def where3(node):
    """`xr.where(P, A, B)` / `np.where(P, A, B)` -> (P, A, B)"""
    a = np_call(node, "where", 3, mods=("np", "xr"))
    return None if a is None else tuple(a)


def flag_value_update(pw, value, f, env, body_tree_fn):
    """`flag += value` for an elementwise int `value`: `where(P, A, B)`, `B.astype(np.uint16) * K` (a bool cell times a
    scalar), or a plain int expression -> tree"""
    value = strip_astype(value)
    w3 = where3(value)
    if w3 is not None:
        p, a, b = (pw.expr(x, env) for x in w3)
        if p.ty != BOOL or a.ty != INT or b.ty != INT:
            raise pw.bad(value, "where(P, A, B) with P not boolean or A, B not ints")
        return merge1("flag", p, add(f, a), add(f, b), body_tree_fn())
    if isinstance(value, ast.BinOp) and isinstance(value.op, ast.Mult):
        for x, y in ((value.left, value.right), (value.right, value.left)):
            if strip_astype(x) is not x:
                bx = pw.expr(strip_astype(x), env)
                if bx.ty == BOOL:
                    ky = pw.expr(y, env)
                    if ky.ty != INT:
                        raise pw.bad(value, "a boolean cell times something that is not an int")
                    return merge1("flag", bx, add(f, ky), f, body_tree_fn())
    v = pw.expr(value, env)
    if v.ty != INT:
        raise pw.bad(value, "the value added to the mask is not an int")
    return Let("flag", add(f, v), body_tree_fn())


def allocate_left_kernels():
    fn, source = load("allocate_left_mask")
    atoms = [("flag", "flag", INT, True), ("dil", "dil", BOOL, True)] + masked_atoms("left")
    pw = Pointwise("allocate_left_mask", atoms, constants(), source)
    pw.reserved.discard("flag")
    ss = take_pins(pw, strip_doc(fn.body), ["_, r_mask = xr.align(cv['validity_mask'], img_left['msk'])",
                                           "dil = binary_dilation_msk(img_left, cv.attrs['window_size'])"])
    preds = []

    def update(st, env, sets, body):
        if isinstance(st, ast.AugAssign) and text(st.target) == "cv['validity_mask']":
            if not isinstance(st.op, ast.Add):
                raise pw.bad(st, "only `+=` on the mask")
            w3 = where3(strip_astype(st.value))
            if w3 is not None:
                preds.append(w3[0])
            f = pw.t.var(env["flag"]) if "flag" in env else pw.t.var(pw.t.atoms["flag"])
            env2 = dict(env)
            env2["flag"] = Binding("flag", INT)
            return flag_value_update(pw, st.value, f, env, lambda: body(env2, sets))
        return None

    def final(env, sets):
        return Ret([pw.t.var(env["flag"]) if "flag" in env else pw.t.var(pw.t.atoms["flag"])])

    tree = Walker(pw, update, final, set_values=False).walk(ss, {}, {})
    k = pw.kernel("allocLeftPx", tree, [INT], ast.unparse(fn))
    k.origin = f"{SRC}: allocate_left_mask, read for one pixel (flag word before -> after)"
    if len(preds) != 1:
        raise Unsupported(f"{SRC}: allocate_left_mask: expected one `xr.where(P, …)` on the left mask, found {len(preds)}")
    return k, masked_pred_kernel("left", preds[0], "leftMaskedPred", source)


def masked_pred_kernel(side, node, lean_name, source):
    pw = Pointwise(f"allocate_{side}_mask", masked_atoms(side), constants(), source)
    e = pw.expr(node, {})
    if e.ty != BOOL:
        raise pw.bad(node, "not a boolean")
    k = pw.kernel(lean_name, Ret([e]), [BOOL], text(node))
    k.origin = f"{SRC}: allocate_{side}_mask, the cells of the {side} mask that are neither no_data nor valid: `{text(node)}`"
    return k


# ------------------------------------------------------------------------------------------------
# allocate_right_mask
# ------------------------------------------------------------------------------------------------
RIGHT_ATOMS = [("col_range", "c", INT, True), ("col_range[0]", "idx0", INT, False), ("col_range[-1]", "idxLast", INT, False),
               ("dsp", "dsp", INT, False), ("offset", "offset", INT, False), ("d_min", "d_min", INT, False),
               ("d_max", "d_max", INT, False)]
RIGHT_STATE = [("bit_1", BOOL), ("rMaskAt", INT), ("dilAt", BOOL), ("b_2_7", INT), ("no_data_right", INT), ("flag", INT)]
RIGHT_PINS = ["offset = cv.attrs['offset_row_col']", "_, r_mask = xr.align(cv['validity_mask'], img_right['msk'])",
              "d_min, d_max = cv.coords['disp'].data[[0, -1]].astype(int)",
              "dil = binary_dilation_msk(img_right, cv.attrs['window_size'])",
              f"b_2_7 = np.full({FULL_SHAPE}, 0)", f"no_data_right = np.full({FULL_SHAPE}, 0)",
              "col_range = np.arange(cv.sizes['col'])"]
GATHER = {"r_mask": "rMaskAt", "dil": "dilAt"}
COUNTERS = ("b_2_7", "no_data_right")


def allocate_right_kernels():
    fn, source = load("allocate_right_mask")
    if [a.arg for a in fn.args.args] != ["cv", "img_right", "bit_1"]:
        raise Unsupported(f"{SRC}: allocate_right_mask: parameters {[a.arg for a in fn.args.args]}")
    consts = constants()
    ss = strip_doc(fn.body)
    pw = Pointwise("allocate_right_mask", RIGHT_ATOMS + [(n, n, ty, True) for n, ty in RIGHT_STATE], consts, source)
    ss = take_pins(pw, ss, RIGHT_PINS)
    # r_mask = xr.where(P, 1, 0).data ; for dsp in range(d_min, d_max + 1): <body>
    if len(ss) != 2:
        raise Unsupported(f"{SRC}: allocate_right_mask: expected `r_mask = xr.where(P, 1, 0).data` and the loop over the disparities, found {[text(s)[:60] for s in ss]}")
    st, loop = ss
    w3 = None
    if isinstance(st, ast.Assign) and len(st.targets) == 1 and text(st.targets[0]) == "r_mask" \
            and isinstance(st.value, ast.Attribute) and st.value.attr == "data":
        w3 = where3(st.value.value)
    if w3 is None:
        raise Unsupported(f"{SRC}: allocate_right_mask: `{text(st)[:80]}` is not `r_mask = xr.where(P, A, B).data`")
    pred = masked_pred_kernel("right", w3[0], "rightMaskedPred", source)
    # the cell of `r_mask` the loop reads: xr.where(P, A, B)
    pc = Pointwise("allocate_right_mask", masked_atoms("right"), consts, source)
    cp_, ca, cb = (pc.expr(x, {}) for x in w3)
    if cp_.ty != BOOL or ca.ty != INT or cb.ty != INT or pc.is_array(ca) or pc.is_array(cb):
        raise Unsupported(f"{SRC}: allocate_right_mask: `{text(st)[:80]}`: xr.where(P, A, B) with A, B not scalar ints")
    kc = pc.kernel("rightMaskCell", merge1("pyOut", cp_, ca, cb, Ret([Ex("var", INT, (), "pyOut")])), [INT], text(st))
    kc.origin = f"{SRC}: allocate_right_mask, the cell of `r_mask` after `{text(st)[:40]}…` (what the loop adds to `b_2_7`)"
    # for dsp in range(LO, HI): the bounds are translated (the fold of the loop body over them is Properties/C04Kernels.lean)
    if not (isinstance(loop, ast.For) and not loop.orelse and text(loop.target) == "dsp" and isinstance(loop.iter, ast.Call)
            and text(loop.iter.func) == "range" and len(loop.iter.args) == 2 and not loop.iter.keywords
            and not any(isinstance(a, ast.Starred) for a in loop.iter.args)):
        raise Unsupported(f"{SRC}: allocate_right_mask: the loop is not `for dsp in range(LO, HI)`")
    pb = Pointwise("allocate_right_mask", RIGHT_ATOMS[5:], consts, source)
    lo, hi = (pb.expr(a, {}) for a in loop.iter.args)
    if lo.ty != INT or hi.ty != INT:
        raise Unsupported(f"{SRC}: allocate_right_mask: the bounds of the loop are not ints")
    kb = pb.kernel("rightLoopBounds", Ret([lo, hi]), [INT, INT], f"for dsp in {text(loop.iter)}:")
    kb.origin = f"{SRC}: allocate_right_mask, the bounds (first, one past the last) of `for dsp in {text(loop.iter)}`"
    for node in ast.walk(loop):
        if isinstance(node, (ast.Break, ast.Continue, ast.Return)):
            raise Unsupported(f"{SRC}: allocate_right_mask: `{type(node).__name__.lower()}` inside the loop")
    for c in COUNTERS:
        pw.reserved.discard(c)
    pw.reserved.discard("flag")
    gathers = []
    found = {}

    def cur(name, env):
        return pw.t.var(env[name]) if name in env else pw.t.var(pw.t.atoms[name])

    def set_cond(node, env, sets):
        """`col_range[S]` / `col_range[np.setdiff1d(col_range, S)]` / `bit_1[0]` -> the condition on the column"""
        if isinstance(node, ast.Subscript) and text(node.value) == "col_range":
            if isinstance(node.slice, ast.Name) and node.slice.id in sets:
                return pw.t.var(sets[node.slice.id])
            a = np_call(node.slice, "setdiff1d", 2)
            if a is not None and text(a[0]) == "col_range" and isinstance(a[1], ast.Name) and a[1].id in sets:
                return pw.t.mk_not(pw.t.var(sets[a[1].id]))
        if text(node) == "bit_1[0]":
            return pw.t.var(pw.t.atoms["bit_1"])
        return None

    def update(st, env, sets, body):
        tgt = st.target if isinstance(st, ast.AugAssign) else (st.targets[0] if isinstance(st, ast.Assign) and len(st.targets) == 1 else None)
        if tgt is None or not isinstance(tgt, ast.Subscript):
            return None
        # counters
        if isinstance(tgt.value, ast.Name) and tgt.value.id in COUNTERS:
            name = tgt.value.id
            sl = tgt.slice
            if not (isinstance(sl, ast.Tuple) and len(sl.elts) == 2 and is_full_slice(sl.elts[0])):
                raise pw.bad(st, "a counter is updated through `[:, <columns>]` only")
            cond = set_cond(sl.elts[1], env, sets)
            if cond is None:
                raise pw.bad(st, "the columns are not `col_range[S]`, `col_range[np.setdiff1d(col_range, S)]` or `bit_1[0]`")
            old = cur(name, env)
            env2 = dict(env)
            env2[name] = Binding(name, INT)
            if isinstance(st, ast.Assign):
                v = pw.expr(st.value, env)
                if v.ty != INT or pw.is_array(v):
                    raise pw.bad(st, "a counter is reset to a scalar int only")
                return merge1(name, cond, v, old, body(env2, sets))
            if not isinstance(st.op, ast.Add):
                raise pw.bad(st, "only `+=` on a counter")
            val = strip_astype(st.value)
            if isinstance(val, ast.Subscript) and isinstance(val.value, ast.Name) and val.value.id in GATHER:
                # SRC[:, G[S]] gathered on the same set S as the target's col_range[S]
                vs = val.slice
                if not (isinstance(vs, ast.Tuple) and len(vs.elts) == 2 and is_full_slice(vs.elts[0]) and isinstance(vs.elts[1], ast.Subscript)
                        and isinstance(sl.elts[1], ast.Subscript) and text(sl.elts[1].value) == "col_range"
                        and text(vs.elts[1].slice) == text(sl.elts[1].slice) and isinstance(vs.elts[1].slice, ast.Name)):
                    raise pw.bad(st, "the gathered cells are not `SRC[:, G[S]]` on the set S of the target `[:, col_range[S]]`")
                g = pw.expr(vs.elts[1].value, env)
                if g.ty != INT:
                    raise pw.bad(st, "the gather index is not an int")
                gathers.append(g)
                a = pw.t.var(pw.t.atoms[GATHER[val.value.id]])
                if a.ty == BOOL:
                    return merge1(name, pw.t.mk_bool("and", cond, a), add(old, lit(1)), old, body(env2, sets))
                return merge1(name, cond, add(old, a), old, body(env2, sets))
            v = pw.expr(val, env)
            if v.ty != INT or pw.is_array(v):
                raise pw.bad(st, "the value added to a counter is not a scalar int or a gathered cell")
            return merge1(name, cond, add(old, v), old, body(env2, sets))
        # the mask: cv["validity_mask"].data[np.where(P)] += K   (P over the whole 2-D array)
        if text(tgt.value) == "cv['validity_mask'].data":
            a = np_call(tgt.slice, "where", 1)
            if a is None or not isinstance(st, ast.AugAssign) or not isinstance(st.op, ast.Add):
                raise pw.bad(st, "the mask is updated by `.data[np.where(P)] += K` only")
            cond = pw.expr(a[0], env)
            v = pw.expr(st.value, env)
            if cond.ty != BOOL or v.ty != INT or pw.is_array(v):
                raise pw.bad(st, "np.where of a non-boolean, or a value that is not a scalar int")
            for sub in ast.walk(a[0]):
                if isinstance(sub, ast.Call) and text(sub.func) == "len":
                    found["rangeLen"] = sub
            old = cur("flag", env)
            env2 = dict(env)
            env2["flag"] = Binding("flag", INT)
            return merge1("flag", cond, add(old, v), old, body(env2, sets))
        return None

    def final(env, sets):
        if not gathers or any(g != gathers[0] for g in gathers):
            raise Unsupported(f"{SRC}: allocate_right_mask: the gathered columns are not one expression")
        if "valid_index" in sets:
            found["validIndex"] = sets["valid_index"]
        return Ret([cur("b_2_7", env), cur("no_data_right", env), cur("flag", env), gathers[0]])

    tree = Walker(pw, update, final).walk(list(loop.body), {}, {})
    k = pw.kernel("rightIterPx", tree, [INT, INT, INT, INT], ast.unparse(loop))
    k.origin = (f"{SRC}: allocate_right_mask, the body of `for dsp in range(d_min, d_max + 1)` read for one pixel: "
                "(b_2_7, no_data_right, flag word) before -> after, and the column the right cells are gathered from")
    # valid_index on its own
    vi = None
    for s in loop.body:
        if isinstance(s, ast.Assign) and len(s.targets) == 1 and text(s.targets[0]) == "valid_index":
            vi = s
    if vi is None or np_call(vi.value, "where", 1) is None:
        raise Unsupported(f"{SRC}: allocate_right_mask: no `valid_index = np.where(P)` in the loop")
    pv = Pointwise("allocate_right_mask", RIGHT_ATOMS[:5], consts, source)
    envv, pre = {}, []
    for s in loop.body:  # the locals defined before valid_index (col_d)
        if s is vi:
            break
        if isinstance(s, ast.Assign) and len(s.targets) == 1 and isinstance(s.targets[0], ast.Name):
            e = pv.expr(s.value, envv)
            ln, envv = pv.local(s.targets[0].id, e, envv, s)
            pre.append((ln, e))
        else:
            raise pv.bad(s, "statement before `valid_index` outside the subset")
    e = pv.expr(np_call(vi.value, "where", 1)[0], envv)
    tv = Ret([e])
    for ln, val in reversed(pre):
        tv = Let(ln, val, tv)
    kv = pv.kernel("validIndex", tv, [BOOL], "\n".join(text(s) for s in loop.body[: loop.body.index(vi) + 1]))
    kv.origin = f"{SRC}: allocate_right_mask, `valid_index` of the loop read for one column index"
    # len(range(d_min, d_max + 1))
    if "rangeLen" not in found:
        raise Unsupported(f"{SRC}: allocate_right_mask: no `== len(range(…))` test")
    pl = Pointwise("allocate_right_mask", RIGHT_ATOMS[5:], consts, source)
    kl = pl.kernel("rangeLen", Ret([pl.expr(found["rangeLen"], {})]), [INT], text(found["rangeLen"]))
    kl.origin = f"{SRC}: allocate_right_mask, `{text(found['rangeLen'])}`"
    return pred, kc, kv, kl, kb, k


# ------------------------------------------------------------------------------------------------
# mask_invalid_variable_disparity_range
# ------------------------------------------------------------------------------------------------
MIV_CELL = "cv['validity_mask'].data[missing_range_y, missing_range_x]"
MIV_PINS = ["indices_nan = np.isnan(cv['cost_volume'].data)", "missing_disparity_range = np.min(indices_nan, axis=2)",
            "missing_range_y, missing_range_x = np.where(missing_disparity_range)"]


def mask_invalid_kernel():
    fn, source = load("mask_invalid_variable_disparity_range")
    pw = Pointwise("mask_invalid_variable_disparity_range", [(MIV_CELL, "flag", INT, True)], constants(), source)
    ss = take_pins(pw, strip_doc(fn.body), MIV_PINS)
    done = []

    def update(st, env, sets, body):
        if isinstance(st, ast.Assign) and len(st.targets) == 1 and text(st.targets[0]) == MIV_CELL:
            w3 = where3(st.value)
            if w3 is None:
                raise pw.bad(st, "the cells are not assigned `np.where(C, A, B)`")
            p, a, b = (pw.expr(x, env) for x in w3)
            if p.ty != BOOL or a.ty != INT or b.ty != INT:
                raise pw.bad(st, "np.where(C, A, B) with C not boolean or A, B not ints")
            if done:
                raise pw.bad(st, "the cells are assigned twice")
            done.append(1)
            return merge1("pyOut", p, a, b, body(env, sets))
        return None

    def final(env, sets):
        if not done:
            raise Unsupported(f"{SRC}: mask_invalid_variable_disparity_range: the mask is not assigned")
        return Ret([Ex("var", INT, (), "pyOut")])

    for st in ss[:-1]:
        if isinstance(st, ast.Assign) and text(st.targets[0]) == MIV_CELL:
            raise pw.bad(st, "the assignment of the mask is not the last statement")
    tree = Walker(pw, update, final, set_values=False).walk(ss, {}, {})
    k = pw.kernel("maskInvalidPx", tree, [INT], ast.unparse(fn))
    k.origin = (f"{SRC}: mask_invalid_variable_disparity_range read for one pixel whose costs are all NaN "
                "(`missing_range_y, missing_range_x`): flag word before -> after")
    return k


# ------------------------------------------------------------------------------------------------
# mask_border
# ------------------------------------------------------------------------------------------------
def mask_border_kernel():
    fn, source = load("mask_border")
    atoms = [("r", "r", INT, True), ("c", "c", INT, True), ("rows", "rows", INT, False), ("cols", "cols", INT, False),
             ("offset", "offset", INT, False), ("flag", "flag", INT, True)]
    pw = Pointwise("mask_border", atoms, constants(), source)
    pw.reserved.discard("flag")
    ss = take_pins(pw, strip_doc(fn.body), ["offset = dataset.attrs['offset_row_col']", "return dataset['validity_mask']"])
    if text(fn.body[-1]) != "return dataset['validity_mask']":
        raise Unsupported(f"{SRC}: mask_border does not end with `return dataset['validity_mask']`")

    def member(sl, n, i, env):
        if not isinstance(sl, ast.Slice) or sl.step is not None:
            raise pw.bad(sl, "only slices `lo:hi` of the mask are assigned")
        lo = None if sl.lower is None else pw.expr(sl.lower, env)
        hi = None if sl.upper is None else pw.expr(sl.upper, env)
        for b in (lo, hi):
            if b is not None and (b.ty != INT or pw.is_array(b)):
                raise pw.bad(sl, "a slice bound that is not a scalar int")
        n, i = pw.t.var(pw.t.atoms[n]), pw.t.var(pw.t.atoms[i])
        if lo is None and hi is None:
            return Ex("const", BOOL, (), True)
        if lo is None:
            return ext("pySliceTo", BOOL, (hi, n, i), py_slice_to)
        if hi is None:
            return ext("pySliceFrom", BOOL, (lo, n, i), py_slice_from)
        return ext("pySlice", BOOL, (lo, hi, n, i), py_slice)

    def update(st, env, sets, body):
        if isinstance(st, ast.Assign) and len(st.targets) == 1 and isinstance(st.targets[0], ast.Subscript) \
                and text(st.targets[0].value) == "dataset['validity_mask'].data":
            sl = st.targets[0].slice
            if not (isinstance(sl, ast.Tuple) and len(sl.elts) == 2):
                raise pw.bad(st, "the mask is assigned through `[rows, cols]` slices only")
            cond = pw.t.mk_bool("and", member(sl.elts[0], "rows", "r", env), member(sl.elts[1], "cols", "c", env))
            v = pw.expr(st.value, env)
            if v.ty != INT or pw.is_array(v):
                raise pw.bad(st, "the value assigned is not a scalar int")
            old = pw.t.var(env["flag"]) if "flag" in env else pw.t.var(pw.t.atoms["flag"])
            env2 = dict(env)
            env2["flag"] = Binding("flag", INT)
            return merge1("flag", cond, v, old, body(env2, sets))
        return None

    def final(env, sets):
        return Ret([pw.t.var(env["flag"]) if "flag" in env else pw.t.var(pw.t.atoms["flag"])])

    tree = Walker(pw, update, final, set_values=False).walk(ss, {}, {})
    k = pw.kernel("maskBorderPx", tree, [INT], ast.unparse(fn))
    k.origin = f"{SRC}: mask_border read for one pixel (r, c) of a rows x cols mask: flag word before -> after"
    return k


# ------------------------------------------------------------------------------------------------
# all kernels
# ------------------------------------------------------------------------------------------------
def build_left():
    k, p = allocate_left_kernels()
    return {"leftMaskedPred": p, "allocLeftPx": k}


def build_right():
    pred, kc, kv, kl, kb, k = allocate_right_kernels()
    return {"rightMaskedPred": pred, "rightMaskCell": kc, "validIndex": kv, "rangeLen": kl, "rightLoopBounds": kb, "rightIterPx": k}


GROUPS = [
    (("validityMaskCol",), lambda: {"validityMaskCol": validity_mask_kernel()}),
    (("leftMaskedPred", "allocLeftPx"), build_left),
    (("rightMaskedPred", "rightMaskCell", "validIndex", "rangeLen", "rightLoopBounds", "rightIterPx"), build_right),
    (("maskInvalidPx",), lambda: {"maskInvalidPx": mask_invalid_kernel()}),
    (("maskBorderPx",), lambda: {"maskBorderPx": mask_border_kernel()}),
]


def kernels():
    """-> ({lean name: Kernel}, {lean name: message of the Unsupported}) read from the source tree now"""
    out, errors = {}, {}
    for names, build in GROUPS:
        try:
            out.update(build())
        except Unsupported as exc:
            for n in names:
                errors[n] = str(exc)
    return out, errors


def kernel(name):
    for names, build in GROUPS:
        if name in names:
            return build()[name]
    raise KeyError(name)


# ------------------------------------------------------------------------------------------------
# rendering
# ------------------------------------------------------------------------------------------------
GOLDEN = {
    # c col0 colLast d_min d_max offset
    "validityMaskCol": [(3, 3, 9, -3, -1, 1), (5, 3, 9, -3, -1, 1), (7, 3, 9, -3, -1, 1), (8, 3, 9, 1, 3, 1), (6, 3, 9, 1, 3, 1),
                        (4, 3, 9, 1, 3, 1), (3, 3, 9, -2, 2, 0), (5, 3, 9, -2, 2, 0), (9, 3, 9, 0, 1, 2), (0, 0, 2, -5, -4, 0),
                        (1, 0, 2, 4, 5, 1), (4, 0, 6, -1, 0, 1)],
    "leftMaskedPred": [(0, 1, 0), (1, 1, 0), (2, 1, 0), (5, 7, 5), (9, 7, 5), (3, 3, 3)],
    "allocLeftPx": [(4, True, 2, 1, 0), (4, False, 2, 1, 0), (0, True, 1, 1, 0), (6, False, 0, 1, 0)],
    "rightMaskedPred": [(0, 1, 0), (1, 1, 0), (2, 1, 0), (5, 7, 5), (9, 7, 5)],
    "rightMaskCell": [(0, 1, 0), (1, 1, 0), (2, 1, 0), (9, 7, 5)],
    "rightLoopBounds": [(-2, 2), (3, 3), (2, 1)],
    "validIndex": [(0, 0, 5, -1, 0), (0, 0, 5, 0, 0), (4, 0, 5, 1, 0), (4, 0, 5, 2, 0), (1, 0, 5, 0, 1), (0, 0, 5, 1, 1),
                   (4, 0, 5, 0, 1), (5, 0, 5, -1, 1), (2, 0, 2, 0, 2)],
    "rangeLen": [(-2, 2), (3, 3), (1, 4), (2, 1), (5, -5)],
    # c idx0 idxLast dsp offset d_min d_max bit_1 rMaskAt dilAt b_2_7 no_data_right flag
    "rightIterPx": [(2, 0, 5, 1, 1, 0, 1, False, 1, False, 1, 0, 4), (2, 0, 5, 1, 1, 0, 1, False, 0, True, 1, 1, 4),
                    (5, 0, 5, 1, 1, 0, 1, False, 0, False, 1, 1, 4), (5, 0, 5, 1, 1, 0, 1, True, 0, False, 1, 1, 6),
                    (2, 0, 5, 0, 1, 0, 1, False, 1, True, 0, 0, 0), (0, 0, 5, -1, 0, -1, -1, False, 1, True, 0, 0, 2)],
    "maskInvalidPx": [(0,), (2,), (4,), (6,), (64,), (67,), (134,), (255,)],
    # r c rows cols offset flag
    "maskBorderPx": [(0, 2, 5, 6, 1, 4), (2, 2, 5, 6, 1, 4), (4, 2, 5, 6, 1, 4), (2, 0, 5, 6, 1, 4), (2, 5, 5, 6, 1, 4),
                     (2, 4, 5, 6, 1, 70), (1, 1, 5, 6, 2, 6), (2, 2, 5, 6, 2, 6), (2, 3, 5, 6, 2, 6), (1, 1, 2, 2, 1, 0),
                     (1, 1, 3, 3, 0, 6)],
}


def golden_examples(k, cases=None) -> list:
    from .gen_kernels import lean_value

    out = []
    for args in (GOLDEN.get(k.lean_name, []) if cases is None else cases):
        res, vals = pyexpr.evaluate(k, *args)
        if res != "ok":
            raise pyexpr.TranslatorBug(f"{k.lean_name}{args}: {res}")
        actual = " ".join(f"({lean_value(v, ty)})" for v, (_, ty) in zip(args, k.lean_params))
        val = ", ".join(lean_value(v, ty) for v, ty in zip(vals, k.ret_types))
        val = f"({val})" if len(vals) > 1 else val
        out.append(f"example : {k.lean_name} {actual} = {val} := by decide +kernel")
    return out


def render(ks, errors, namespace="KernelsCriteria", header=None) -> str:
    from .gen_kernels import python_comment

    lines = [
        header or "-- GENERATED by translator/gen_kernels_criteria.py (translator/pyexpr.py) from pandora/criteria.py. Do not edit.",
        "import PandoraModel.Model.PyExpr",
        "set_option linter.unusedVariables false",
        f"namespace Pandora.Generated.{namespace}",
        "open Pandora",
        "",
        "/-! support of the generated text (fixed; written by the generator) -/",
        PRELUDE,
    ]
    for name, k in ks.items():
        lines.append(f"/- {getattr(k, 'origin', name)}")
        lines.append(python_comment(k) if k.source.startswith("def ") else k.source.replace("-/", "- /").replace("/-", "/ -"))
        lines.append("-/")
        lines.append(pyexpr.render_lean(k, always_partial=False))
        lines.append("-- what translator/pyexpr.py's own evaluator computes on a few inputs, checked here by evaluation")
        lines += golden_examples(k)
        lines.append("")
    for name, msg in errors.items():
        lines.append(f"-- NOT TRANSLATED: {name}: " + msg.replace("\n", " ").replace("-/", "- /"))
    lines.append(f"end Pandora.Generated.{namespace}")
    return "\n".join(lines) + "\n"


def generate(*required):
    """write Generated/KernelsCriteria.lean with every kernel that translates; raise Unsupported if one does not"""
    ks, errors = kernels()
    write_if_changed("KernelsCriteria.lean", render(ks, errors))
    bad = {n: m for n, m in errors.items() if not required or n in required}
    if bad:
        raise Unsupported("; ".join(sorted({m for m in bad.values()})))
    return {"T12-criteria": {"source": [SRC, CONSTS], "digest": digest(SRC, CONSTS), "kernels": sorted(ks),
                             "examples": sum(len(GOLDEN.get(n, [])) for n in ks), "not_translated": sorted(errors)}}


# ------------------------------------------------------------------------------------------------
# self-test: constructs that must be refused / accepted (run by harness/props/C04.py on every run)
# ------------------------------------------------------------------------------------------------
SELFTEST_ATOMS = [("col", "c", INT, True), ("col[0]", "col0", INT, False), ("col[-1]", "colLast", INT, False),
                  ("d_min", "d_min", INT, False), ("offset", "offset", INT, False)]
REFUSED_EXPR = [
    "(col + d_min < col[0]) and (col > 0)",        # `and` on arrays: numpy raises
    "not (col + d_min < col[0])",                  # `not` on an array
    "col + d_min < col[0] & col > 0",              # precedence: `&` binds tighter than `<` (chained comparison of ints)
    "col[1] < offset",                             # a cell of `col` other than the declared ones
    "col[0:2] < offset",
    "col / 2 < offset",                            # division
    "col // 2 < offset",
    "col % 2 == 0",
    "col ** 2 < offset",
    "np.abs(col) < offset",                        # a call
    "np.logical_and(col < 1, col > 0)",
    "col < 1.5",                                   # a float literal
    "0 < col < offset",                            # chained comparison
    "col ^ offset",                                # xor
    "(col < 1) ^ (col > 0)",
    "col << 1 < offset",
    "~col < offset",                               # `~` on an int
    "(col < 1) | offset",                          # `|` of a boolean and an int
    "col | offset",                                # `|` on ints
    "unknown + col < offset",                      # unknown name
    "col if offset > 0 else d_min",                # conditional expression
    "cst.NOT_A_CONSTANT + col < offset",
    "len(col) < offset",                           # len of something that is not a range
    "len(range(col)) < offset",                    # range of an array
    "len(range(0, offset, 2)) < col",              # a step
    "(lambda x: x)(col) < offset",
    "col is offset",
    "col in (1, 2)",
    "True & (col < 1) + 1",
    "'a' < col",
]
ACCEPTED_EXPR = [
    # (expression, environments (c col0 colLast d_min offset) -> compared with CPython's eval on numpy-free ints)
    "(col + d_min < col[0] + offset) & (col - offset > col[-1])",
    "(col[0] + offset > col + d_min) | ~(col[-1] >= col)",
    "len(range(d_min, offset + 1)) == col",
    "(col & 3 == 0) & (-col <= +offset * 2)",
    "(d_min < 0 and offset > 0) | (col != col[0])",
]
REFUSED_STMTS = [
    # (function-like body for the validity_mask walker, why)
    "bit_1 = np.where(col < 1)\nbit_1 = col + 1\ncv['validity_mask'].data[:, bit_1] += 2",
    "cv['validity_mask'].data[:, np.where(col < 1)] -= 2",
    "cv['validity_mask'].data[:, np.where(col < 1)] |= 2",
    "cv['validity_mask'].data[1:, np.where(col < 1)] += 2",
    "cv['validity_mask'].data[:, np.where(col < 1)] += col",
    "cv['validity_mask'].data[:, np.where(col)] += 2",
    "cv['validity_mask'].data[:, col < 1] += 2",
    "if col < 1:\n    bit_1 = ([],)\nelse:\n    bit_1 = ([],)",
    "for x in range(3):\n    bit_1 = ([],)",
    "while d_min < 0:\n    bit_1 = ([],)",
    "d_min = d_min + 1\nbit_1 = np.where(col + d_min < 0)",
    "col = col + 1\nbit_1 = np.where(col + d_min < 0)",
    "bit_1 = np.where(col < 1)\nx = bit_1[0] + 1",
    "bit_1 = ([],)\ncv['validity_mask'].data[:, bit_1] += cst.PANDORA_MSK_NOT_THERE",
    "if d_min < 0:\n    bit_1 = ([],)",
    "bit_1: tuple = ([],)",
    "bit_1 = ([],)\nprint(bit_1)",
    "bit_1 = ([],)\nreturn cv",
    "bit_1 = ([],)\ncv['validity_mask'].data[:, bit_1] += 2\ncv['validity_mask'] = xr.DataArray(np.full((cv.sizes['row'], cv.sizes['col']), 0), dims=['row', 'col'])",
]


# whole-function edits of criteria.py that must be refused: (builder, text to replace, replacement); skipped when the text
# is not in the source any more
REFUSED_EDITS = [
    # seed C04-6: narrow counters wrap at 256 disparities — the allocation of the counters is pinned (dtype included)
    ("right", 'b_2_7 = np.full((cv.sizes["row"], cv.sizes["col"]), 0)', 'b_2_7 = np.zeros((cv.sizes["row"], cv.sizes["col"]), dtype=np.uint8)'),
    ("right", 'no_data_right = np.full((cv.sizes["row"], cv.sizes["col"]), 0)', 'no_data_right = np.full((cv.sizes["row"], cv.sizes["col"]), 0, dtype=np.uint8)'),
    ("right", "        0,\n    ).data\n", "        0,\n    ).data.astype(np.uint8)\n"),
    ("right", "for dsp in range(d_min, d_max + 1):", "for dsp in range(d_min, d_max + 1, 2):"),
    ("right", "d_min, d_max = cv.coords[\"disp\"].data[[0, -1]].astype(int)", "d_max, d_min = cv.coords[\"disp\"].data[[0, -1]].astype(int)"),
    ("right", "col_range = np.arange(cv.sizes[\"col\"])", "col_range = np.arange(1, cv.sizes[\"col\"])"),
    ("right", "b_2_7[:, bit_1[0]] = 0", "b_2_7[:, bit_1[0]] -= 1"),
    ("right", "+= dil[:, col_d[valid_index]]", "+= dil[:, col_range[valid_index]] + dil[:, col_d[valid_index]]"),
    ("vm", "d_min, d_max = cv.coords[\"disp\"].data[[0, -1]]\n", "d_max, d_min = cv.coords[\"disp\"].data[[0, -1]]\n"),
    ("vm", "np.full((cv.sizes[\"row\"], cv.sizes[\"col\"]), 0),", "np.full((cv.sizes[\"row\"], cv.sizes[\"col\"]), 0, dtype=np.uint8),"),
    ("vm", "allocate_right_mask(cv, img_right, bit_1)", "allocate_right_mask(cv, img_left, bit_1)"),
    ("vm", "col = cv.coords[\"col\"].data", "col = cv.coords[\"col\"].data + 1"),
    ("left", "dil = binary_dilation_msk(img_left, cv.attrs[\"window_size\"])", "dil = binary_dilation_msk(img_left, 3)"),
    ("miv", "missing_disparity_range = np.min(indices_nan, axis=2)", "missing_disparity_range = np.max(indices_nan, axis=2)"),
    ("border", "data[:offset, :] =", "data[:offset:2, :] ="),
]


def refused_edit_problems() -> list:
    global _SOURCE_OVERRIDE  # pylint: disable=global-statement
    builders = {"right": allocate_right_kernels, "vm": validity_mask_kernel, "left": allocate_left_kernels,
                "miv": mask_invalid_kernel, "border": mask_border_kernel}
    text0 = read_source(SRC)
    problems = []
    try:
        for which, old, new in REFUSED_EDITS:
            if text0.count(old) != 1:
                continue
            _SOURCE_OVERRIDE = text0.replace(old, new)
            try:
                builders[which]()
                problems.append(f"edit of criteria.py not refused: `{old.strip()}` -> `{new.strip()}`")
            except Unsupported:
                pass
    finally:
        _SOURCE_OVERRIDE = None
    return problems


def vm_walker_on(body_text, consts=None):
    """the validity_mask walker on a body given as text (the mask allocated to 0 first) -> Kernel"""
    consts = constants() if consts is None else consts
    pw = Pointwise("selftest", VM_ATOMS, consts)
    ss = ast.parse("cv['validity_mask'] = xr.DataArray(np.full((cv.sizes['row'], cv.sizes['col']), 0), dims=['row', 'col'])\n"
                   + body_text).body

    def update(st, env, sets, body):
        fill = flag_init(pw, st)
        if fill is not None:
            if "flag" in env:
                raise pw.bad(st, "the mask is allocated twice")
            env2 = dict(env)
            env2["flag"] = Binding("flag", INT)
            return Let("flag", lit(fill), body(env2, sets))
        return column_update(w, st, env, sets, body)

    def final(env, sets):
        if "bit_1" not in sets:
            raise Unsupported("selftest: `bit_1` is not defined on every path")
        return Ret([pw.t.var(env["flag"]), pw.t.var(sets["bit_1"])])

    w = Walker(pw, update, final)
    return pw.kernel("selftest", w.walk(ss, {}, {}), [INT, BOOL], body_text)


def selftest_problems() -> list:
    """-> list of messages (empty when the translator refuses what it must and reads what it accepts like CPython)"""
    import numpy as np  # only here: the accepted expressions are compared with numpy's own reading

    problems = refused_edit_problems()
    consts = constants()
    for e in REFUSED_EXPR:
        try:
            Pointwise("selftest", SELFTEST_ATOMS, consts).expr(ast.parse(e, mode="eval").body, {})
            problems.append(f"expression not refused: {e}")
        except Unsupported:
            pass
    for b in REFUSED_STMTS:
        try:
            vm_walker_on(b, consts)
            problems.append(f"statements not refused: {b!r}")
        except Unsupported:
            pass
    envs = [(c, c0, c0 + n, dm, off) for c0 in (0, 3) for n in (0, 2) for c in range(c0, c0 + n + 1) for dm in (-2, 0, 1)
            for off in (0, 1, 2)]
    for e in ACCEPTED_EXPR:
        try:
            pw = Pointwise("selftest", SELFTEST_ATOMS, consts)
            ex = pw.expr(ast.parse(e, mode="eval").body, {})
            k = pw.kernel("selftest", Ret([ex]), [ex.ty], e)
            for c, c0, cl, dm, off in envs:
                got = pyexpr.evaluate(k, c, c0, cl, dm, off)[1][0]
                i64 = np.int64  # numpy scalars: `~` and `&` on the results of comparisons are the elementwise ones
                want = eval(e.replace("col[0]", "col0").replace("col[-1]", "colLast"),  # pylint: disable=eval-used
                            {"col": i64(c), "col0": i64(c0), "colLast": i64(cl), "d_min": i64(dm), "offset": i64(off),
                             "len": len, "range": range})
                if bool(got) != bool(want) if ex.ty == BOOL else got != want:
                    problems.append(f"`{e}` evaluates to {got}, CPython says {want} at {(c, c0, cl, dm, off)}")
                    break
        except Unsupported as exc:
            problems.append(f"expression refused: {e}: {exc}")
    # the slice reading against Python's own slicing
    for n in range(0, 6):
        for lo in range(-7, 8):
            for i in range(n):
                if py_slice_from(lo, n, i) != (i in range(n)[lo:]) or py_slice_to(lo, n, i) != (i in range(n)[:lo]):
                    problems.append(f"slice reading differs from Python at n={n} bound={lo} i={i}")
                for hi in range(-7, 8):
                    if py_slice(lo, hi, n, i) != (i in range(n)[lo:hi]):
                        problems.append(f"slice reading differs from Python at n={n} {lo}:{hi} i={i}")
    return problems
