"""Self-test of the glue reader of cbca (translator/gen_kernels_cbca_glue.py), run by harness/props/C11.py on every run.

Each entry rewrites the text of pandora/aggregation/cbca.py of the tree under test (one textual replacement) and runs the
reader on the result: REFUSED entries are constructs outside the subset (the reader must raise `Unsupported`, never translate
them into something else), ACCEPTED entries are harmless rewrites it must still read (the proofs decide whether the meaning is
the same).  An entry whose anchor text is not in the tree under test (a mutated tree) is skipped and counted."""
from __future__ import annotations

import ast

from . import gen_kernels_cbca_glue as glue
from .common import Unsupported, read_source

A = "aggregation"
S = "supports"
REFUSED = {
    "slice object for the crop": (S, "right_masked[offset:-offset, offset:-offset],", "right_masked[slice(offset, -offset), slice(offset, -offset)],"),
    "crop with a step": (S, "left_masked[offset:-offset, offset:-offset],", "left_masked[offset:-offset:1, offset:-offset],"),
    "crop without upper bound": (S, "left_masked[offset:-offset, offset:-offset],", "left_masked[offset:, offset:-offset],"),
    "cross support of another array": (S, "cross_left = cross_support(left_masked, self._cbca_distance", "cross_left = cross_support(img_left['im'].data, self._cbca_distance"),
    "another distance for the right support": (S, "cross_right.append(cross_support(right_masked, self._cbca_distance,", "cross_right.append(cross_support(right_masked, self._cbca_distance + 1,"),
    "mean pre-filter": (S, '"filter_method": "median"', '"filter_method": "mean"'),
    "nan_to_num on a copy": (S, "np.nan_to_num(left_masked, copy=False, nan=np.inf)", "np.nan_to_num(left_masked, nan=np.inf)"),
    "nan replaced by a finite number": (S, "np.nan_to_num(right_masked, copy=False, nan=np.inf)", "np.nan_to_num(right_masked, copy=False, nan=1e9)"),
    "left mask read from the right dataset": (S, 'left_masked[np.where(img_left["msk"].data != img_left.attrs["valid_pixels"])] = np.nan', 'left_masked[np.where(img_right["msk"].data != img_left.attrs["valid_pixels"])] = np.nan'),
    "window running down the rows": (S, "strides_windows = (str_row, str_col, str_col)", "strides_windows = (str_row, str_col, str_row)"),
    "window leaving the mask": (S, "shape_windows = (shift_mask.shape[0], shift_mask.shape[1] - 1, 2)", "shape_windows = (shift_mask.shape[0], shift_mask.shape[1], 2)"),
    "max of the window instead of its sum": (S, "shift_mask = np.sum(aggregation_window, 2)", "shift_mask = np.max(aggregation_window, 2)"),
    "extra statement on the image": (S, "left_masked = filter_.median_filter(left_masked)  # type: ignore", "left_masked = filter_.median_filter(left_masked)\n        left_masked = left_masked * 1"),
    "while loop": (A, "for dsp in range(nb_disp):", "dsp = 0\n        while dsp < nb_disp:"),
    "loop over another axis": (A, "for dsp in range(nb_disp):", "for dsp in range(n_row_):"),
    "store into another plane": (A, "agg[dsp, :, :] += np.swapaxes(step4, 0, 1)", "agg[0, :, :] += np.swapaxes(step4, 0, 1)"),
    "loop-carried local": (A, "sum4 += 1\n", "sum4 += 1\n            range_col = range_col + 0\n"),
    "different column lists for steps 2 and 4": (A, "                range_col[valid_index],\n                range_col_right[valid_index].astype(int),\n            )\n\n            # Added", "                range_col[valid_index],\n                range_col[valid_index],\n            )\n\n            # Added"),
    "two shifted supports in one iteration": (A, "                cross_left,\n                cross_right[i_right],\n                range_col[valid_index],\n                range_col_right[valid_index].astype(int),\n            )\n\n            # Step 3", "                cross_left,\n                cross_right[0],\n                range_col[valid_index],\n                range_col_right[valid_index].astype(int),\n            )\n\n            # Step 3"),
    "modulo by a variable": (A, "(disparity_range[dsp] % 1)", "(disparity_range[dsp] % cv.attrs[\"subpixel\"])"),
    "floor division": (A, "i_right = int((disparity_range[dsp] % 1) * cv.attrs[\"subpixel\"])", "i_right = int((disparity_range[dsp] % 1) * cv.attrs[\"subpixel\"]) // 1"),
    "agg of another shape": (A, "agg = np.zeros((nb_disp, n_row_, n_col_), dtype=np.float32)", "agg = np.zeros((nb_disp, n_col_, n_row_), dtype=np.float32)"),
    "swapaxes of other axes": (A, "agg += np.swapaxes(cv_data, 0, 2)", "agg += np.swapaxes(cv_data, 0, 1)"),
    "multiplication of planes": (A, "agg[dsp, :, :] /= np.swapaxes(sum4, 0, 1)", "agg[dsp, :, :] *= np.swapaxes(sum4, 0, 1)"),
    "untransposed plane": (A, "agg[dsp, :, :] += np.swapaxes(step4, 0, 1)", "agg[dsp, :, :] += step4"),
    "result not stored": (A, '            cv["cost_volume"].data = cv_data\n', "            pass\n"),
    "unknown call in the loop": (A, "step3 = cbca_step_3(step2)", "step3 = np.cumsum(step2, 0)"),
    "np.where with three arguments": (A, "valid_index = np.where((range_col_right >= 0) & (range_col_right < cross_right[i_right].shape[1]))", "valid_index = np.where((range_col_right >= 0) & (range_col_right < cross_right[i_right].shape[1]), 1, 0)"),
    "astype(float)": (A, "range_col_right[valid_index].astype(int),\n            )\n\n            # Step 3", "range_col_right[valid_index].astype(float),\n            )\n\n            # Step 3"),
}
ACCEPTED = {
    "renamed locals": (A, "i_right", "k_shift"),
    "boolean mask instead of np.where": (S, 'left_masked[np.where(img_left["msk"].data != img_left.attrs["valid_pixels"])] = np.nan', 'left_masked[img_left["msk"].data != img_left.attrs["valid_pixels"]] = np.nan'),
    "sum4 = sum4 + 1": (A, "sum4 += 1\n", "sum4 = sum4 + 1\n"),
    "crop test written the other way round": (S, "if offset != 0:\n            # Cross support to the size of the cost volume\n            cross_left", "if 0 != offset:\n            cross_left"),
}


def _run(which, text):
    mod = ast.parse(text)
    return glue.aggregation(mod) if which == A else glue.supports(mod)


def problems():
    """-> (list of problems, number of entries run, number skipped because the anchor is not in this tree)"""
    text = read_source(glue.SRC)
    out, ran, skipped = [], 0, 0
    for label, (which, old, new) in REFUSED.items():
        if old not in text:
            skipped += 1
            continue
        ran += 1
        try:
            _run(which, text.replace(old, new))
            out.append(f"`{label}` is not refused")
        except Unsupported:
            pass
        except SyntaxError as exc:
            out.append(f"`{label}`: the rewritten text does not parse ({exc})")
        except Exception as exc:  # pylint: disable=broad-except
            out.append(f"`{label}`: {type(exc).__name__}: {exc} instead of Unsupported")
    try:
        _run(A, text)
        _run(S, text)
        base_ok = True
    except Unsupported:
        base_ok = False  # the tree under test is itself outside the subset: reported by translate()
    if base_ok:
        for label, (which, old, new) in ACCEPTED.items():
            if old not in text:
                skipped += 1
                continue
            ran += 1
            try:
                _run(which, text.replace(old, new))
            except Exception as exc:  # pylint: disable=broad-except
                out.append(f"harmless rewrite `{label}` is refused: {type(exc).__name__}: {exc}")
    return out, ran, skipped
