"""T12 (glue): the scalar index arithmetic *between* the numeric kernels, translated statement by statement with
translator/pyexpr.py (glue extension) -> Generated/KernelsGlue.lean.  Like gen_kernels.py, the Lean definitions
written here ARE the Python functions, re-read from the source text on every run:

    pandora/img_tools.py                    get_window(roi, width, height)          -> KernelsGlue.getWindow      (C16)
    pandora/matching_cost/matching_cost.py  AbstractMatchingCost.point_interval     -> KernelsGlue.pointInterval  (C02)
    pandora/matching_cost/matching_cost.py  AbstractMatchingCost.cv_masked: `dsp = int((disp - dmin) * self._subpix)`
                                                                                  -> KernelsGlue.dspIndex       (C02)

`Properties/C16Kernels.lean` / `Properties/C02Kernels.lean` prove them equal, for all inputs, to what the hand models
(`Dataset.getWindow`, `MC.pointInterval`, `MC.dspIndex`) compute.

What the atoms stand for is declared here (and is the reading the harness cross-checks against the real functions on
every run of `./check C16` / `./check C02`):

    get_window      roi["col"]["first"] … roi["margins"][3] : int      (check_conf: the ROI section holds integers)
    point_interval  int(img_left.sizes["col"]), int(img_right.sizes["col"]) : int = the two widths;  disp : a float
                    that is not NaN (an exact rational, the project's convention)

Each kernel is translated on its own: one that leaves the subset is left out of the generated file (its theorem then
does not build — the obligation cannot be regenerated) without hiding the others.
"""
from __future__ import annotations

import ast
from fractions import Fraction

from . import pyexpr
from .common import Unsupported, digest, find_class, find_function, find_method, parse, read_source, write_if_changed
from .pyexpr import INT, RAT, Param

NAME = "KernelsGlue"

IMG_TOOLS = "pandora/img_tools.py"
MATCHING_COST = "pandora/matching_cost/matching_cost.py"
SRC = [IMG_TOOLS, MATCHING_COST]

ROI_ATOMS = (
    ('roi["col"]["first"]', "colFirst", INT), ('roi["col"]["last"]', "colLast", INT),
    ('roi["row"]["first"]', "rowFirst", INT), ('roi["row"]["last"]', "rowLast", INT),
    ('roi["margins"][0]', "mLeft", INT), ('roi["margins"][1]', "mUp", INT),
    ('roi["margins"][2]', "mRight", INT), ('roi["margins"][3]', "mDown", INT),
)
WINDOW_PARAMS = [Param("roi", "record", ROI_ATOMS), Param("width", INT), Param("height", INT)]
POINT_PARAMS = [
    Param("self", "opaque"),
    Param("img_left", "record", (('int(img_left.sizes["col"])', "nxLeft", INT),)),
    Param("img_right", "record", (('int(img_right.sizes["col"])', "nxRight", INT),)),
    Param("disp", RAT),
]
# `dsp = int((disp - dmin) * self._subpix)` in the disparity loop of cv_masked: `disp`, `dmin` are samples of
# `cost_volume.coords["disp"]` (floats, not NaN), `self._subpix` the integer subpix of the configuration
DSP_ATOMS = [("disp", "disp", RAT), ("dmin", "dmin", RAT), ("self._subpix", "subpix", INT)]

# rasterio.windows.Window(col_off, row_off, width, height) is an attrs class whose `width` and `height` carry the
# validator `validate_length_value`: `if value and value < 0: raise ValueError("Number of columns or rows must be
# non-negative")` (rasterio/windows.py) — (arity, arguments that must not be negative, exception)
WINDOW_CONSTRUCTOR = (4, (2, 3), "ValueError")

BUILTIN_NAMES = ("max", "min", "abs", "int", "ValueError")


# ------------------------------------------------------------------------------------------------
# what the free names of a function mean (module-level bindings)
# ------------------------------------------------------------------------------------------------
def module_bindings(mod: ast.Module) -> dict:
    """name -> how the module binds it: ("from", module, original name) | ("import", module) | "def" | "assign".
    A name bound twice is "ambiguous"."""
    out = {}

    def bind(name, how):
        out[name] = how if name not in out or out[name] == how else "ambiguous"

    for node in ast.walk(mod):
        if isinstance(node, ast.ImportFrom):
            for a in node.names:
                bind(a.asname or a.name, ("from", "." * node.level + (node.module or ""), a.name))
        elif isinstance(node, ast.Import):
            for a in node.names:
                bind(a.asname or a.name.split(".")[0], ("import", a.name))
    for node in mod.body:
        if isinstance(node, (ast.FunctionDef, ast.AsyncFunctionDef, ast.ClassDef)):
            bind(node.name, "def")
        elif isinstance(node, (ast.Assign, ast.AnnAssign, ast.AugAssign)):
            for t in (node.targets if isinstance(node, ast.Assign) else [node.target]):
                for n in ast.walk(t):
                    if isinstance(n, ast.Name):
                        bind(n.id, "assign")
    for node in ast.walk(mod):
        if isinstance(node, ast.Global):
            for n in node.names:
                bind(n, "assign")
    return out


def check_builtins(bindings: dict, rel: str):
    for n in BUILTIN_NAMES:
        if n in bindings:
            raise Unsupported(f"{rel}: the builtin `{n}` is rebound at module level ({bindings[n]})")


def names_bound_to(bindings: dict, module: str, original: str) -> list:
    return [n for n, how in bindings.items() if how == ("from", module, original)]


def check_plain(fn: ast.FunctionDef, rel: str):
    if fn.decorator_list:
        raise Unsupported(f"{rel}: {fn.name}: decorators {[ast.unparse(d) for d in fn.decorator_list]} are not expected")


# ------------------------------------------------------------------------------------------------
# the kernels
# ------------------------------------------------------------------------------------------------
def get_window_kernel():
    mod = parse(IMG_TOOLS)
    fn = find_function(mod, "get_window")
    check_plain(fn, IMG_TOOLS)
    b = module_bindings(mod)
    check_builtins(b, IMG_TOOLS)
    windows = names_bound_to(b, "rasterio.windows", "Window")
    if not windows:
        raise Unsupported(f"{IMG_TOOLS}: no name is bound to rasterio.windows.Window")
    k = pyexpr.translate_function(fn, "getWindow", WINDOW_PARAMS, source_text=read_source(IMG_TOOLS),
                                  exceptions=("ValueError",), constructors={w: WINDOW_CONSTRUCTOR for w in windows})
    if k.ret_types != [INT] * 4 or not k.ret_shape.endswith("(_, _, _, _)") or k.ret_shape.startswith("("):
        raise Unsupported(f"{IMG_TOOLS}: get_window does not return Window(int, int, int, int): {k.ret_shape} {k.ret_types}")
    if k.partial:
        raise Unsupported(f"{IMG_TOOLS}: get_window divides")
    k.origin = f"{IMG_TOOLS}: get_window  (returned value: rasterio.windows.{k.ret_shape.replace(k.ret_shape.split('(')[0], 'Window', 1)})"
    return k


def point_interval_kernel():
    mod = parse(MATCHING_COST)
    fn = find_method(find_class(mod, "AbstractMatchingCost"), "point_interval")
    check_plain(fn, MATCHING_COST)
    b = module_bindings(mod)
    check_builtins(b, MATCHING_COST)
    math_names = {}
    for what in ("ceil", "floor"):
        for n in names_bound_to(b, "math", what):
            math_names[n] = what
    k = pyexpr.translate_function(fn, "pointInterval", POINT_PARAMS, source_text=read_source(MATCHING_COST),
                                  math_names=math_names)
    if k.ret_types != [INT] * 4 or k.ret_shape != "((_, _), (_, _))":
        raise Unsupported(f"{MATCHING_COST}: point_interval does not return ((int, int), (int, int)): {k.ret_shape} {k.ret_types}")
    if k.partial or k.raises:
        raise Unsupported(f"{MATCHING_COST}: point_interval divides or raises")
    k.origin = f"{MATCHING_COST}: AbstractMatchingCost.point_interval  (returned value: (point_p, point_q) flattened)"
    return k


def dsp_index_kernel():
    """`dsp = int((disp - dmin) * self._subpix)` inside `for disp in cost_volume.coords["disp"].data:` of cv_masked"""
    mod = parse(MATCHING_COST)
    fn = find_method(find_class(mod, "AbstractMatchingCost"), "cv_masked")
    b = module_bindings(mod)
    check_builtins(b, MATCHING_COST)
    found = []
    for loop in ast.walk(fn):
        if isinstance(loop, ast.For) and isinstance(loop.target, ast.Name) and loop.target.id == "disp" \
                and ast.unparse(loop.iter) == "cost_volume.coords['disp'].data":
            for st in loop.body:
                if isinstance(st, ast.Assign) and len(st.targets) == 1 and isinstance(st.targets[0], ast.Name) \
                        and st.targets[0].id == "dsp":
                    found.append((loop, st))
    if len(found) != 1:
        raise Unsupported(f"{MATCHING_COST}: cv_masked: expected one `dsp = …` in the loop over the disparities, found {len(found)}")
    loop, st = found[0]
    text = ast.unparse(fn)
    if "dmin = disparity_range[0]" not in text and "dmin = cost_volume.coords['disp'].data[0]" not in text:
        # what `dmin` stands for: the first sample of the disparity axis
        for node in ast.walk(fn):
            if isinstance(node, ast.Assign) and any(isinstance(t, ast.Name) and t.id == "dmin" for t in node.targets):
                raise Unsupported(f"{MATCHING_COST}: cv_masked: `{ast.unparse(node)}`: dmin is not the first disparity sample")
    for node in ast.walk(loop):
        if isinstance(node, (ast.Assign, ast.AugAssign, ast.AnnAssign)):
            for t in (node.targets if isinstance(node, ast.Assign) else [node.target]):
                if isinstance(t, ast.Name) and t.id in ("dmin", "disp"):
                    raise Unsupported(f"{MATCHING_COST}: cv_masked: `{t.id}` is reassigned inside the disparity loop")
    k = pyexpr.translate_expression(st.value, "dspIndex", DSP_ATOMS, source_text=read_source(MATCHING_COST),
                                    py_name="cv_masked: dsp")
    if k.ret_types != [INT] or k.partial:
        raise Unsupported(f"{MATCHING_COST}: cv_masked: dsp is not a total integer expression")
    k.origin = f"{MATCHING_COST}: AbstractMatchingCost.cv_masked, `{ast.unparse(st)}` in the loop over the disparities"
    return k


BUILDERS = {"getWindow": get_window_kernel, "pointInterval": point_interval_kernel, "dspIndex": dsp_index_kernel}


def kernels(names=None):
    """-> ({lean name: Kernel}, {lean name: message of the Unsupported}) read from the source tree now"""
    out, errors = {}, {}
    for name, build in BUILDERS.items():
        if names is not None and name not in names:
            continue
        try:
            out[name] = build()
        except Unsupported as exc:
            errors[name] = str(exc)
    return out, errors


def kernel(name):
    """one kernel (raises Unsupported)"""
    return BUILDERS[name]()


# ------------------------------------------------------------------------------------------------
# get_window: the four comparison flags of `Dataset.Params`, read off the translated function
# ------------------------------------------------------------------------------------------------
def window_flags() -> dict:
    """Fallback of gen_imgtools.extract_window when the text of get_window is not the pinned one: which of the four
    "outside" comparisons are strict, observed on the translated function at the four edges of a 6x5 image
    (`col_off == width`, `row_off == height`, `col_off + roi_width == 0`, `row_off + roi_height == 0`).
    This is only a *choice of parameters*: `C16Kernels.getWindow_eq_source` proves, for all inputs, that the translated
    function is `Dataset.getWindow` with these flags — a wrong choice is a failing proof."""
    k = get_window_kernel()

    def refused(col, row, margins=(0, 0, 0, 0)):
        res, _ = pyexpr.evaluate(k, [col[0], col[1], row[0], row[1], *margins], 6, 5)
        return res != "ok"

    return {
        "colOffStrict": not refused((6, 7), (1, 2)),
        "rowOffStrict": not refused((1, 2), (5, 6)),
        "colEndStrict": not refused((-2, -1), (1, 2)),
        "rowEndStrict": not refused((1, 2), (-2, -1)),
    }


# ------------------------------------------------------------------------------------------------
# rendering
# ------------------------------------------------------------------------------------------------
GOLDEN = {
    "getWindow": [
        ([1, 3, 1, 2, 0, 0, 0, 0], 6, 5), ([1, 3, 1, 2, 2, 1, 3, 4], 6, 5), ([6, 7, 1, 2, 0, 0, 0, 0], 6, 5),
        ([-2, -1, 1, 2, 0, 0, 0, 0], 6, 5), ([-3, -1, -2, 0, 0, 0, 1, 0], 6, 5), ([5, 9, 4, 9, 1, 1, 0, 0], 6, 5),
        ([2, 1, 0, 0, -1, -2, -3, 0], 0, 0), ([2, 1, 3, 0, 0, 0, 0, 0], 6, 5), ([1, 2, 3, 0, 0, 0, 0, 0], 6, 5),
    ],
    "pointInterval": [
        (None, [5], [5], 0), (None, [5], [5], 2), (None, [5], [5], -2), (None, [5], [6], Fraction(3, 2)),
        (None, [6], [5], Fraction(-3, 2)), (None, [4], [4], Fraction(-1, 4)), (None, [4], [4], 7), (None, [3], [1], -3),
        (None, [1], [2], Fraction(1, 4)),
    ],
    "dspIndex": [(0, -2, 1), (Fraction(1, 2), -2, 2), (Fraction(-5, 4), -2, 4), (-3, -2, 2), (Fraction(-9, 4), -2, 4)],
}


def golden_examples(k, cases=None) -> list:
    from .gen_kernels import lean_value

    out = []
    for args in (GOLDEN.get(k.lean_name, []) if cases is None else cases):
        res, vals = pyexpr.evaluate(k, *args)
        flat = []
        for p, a in zip(k.params, args):
            if p.kind == "opaque":
                continue
            flat += list(a) if isinstance(a, list) else [a]
        actual = " ".join(f"({lean_value(v, ty)})" for v, (_, ty) in zip(flat, k.lean_params))
        if res == "ok":
            val = ", ".join(lean_value(v, ty) for v, ty in zip(vals, k.ret_types))
            val = f"({val})" if len(vals) > 1 else val
            rhs = f"PyExpr.PyOut.ok {val}" if k.raises else val
        else:
            rhs = f"PyExpr.PyOut.raised {pyexpr.lean_str(res)}"
        out.append(f"example : {k.lean_name} {actual} = {rhs} := by decide +kernel")
    return out


def render(ks, errors) -> str:
    from .gen_kernels import python_comment

    lines = [
        "-- GENERATED by translator/gen_kernels_glue.py (translator/pyexpr.py) from the Python source. Do not edit.",
        "import PandoraModel.Model.PyExpr",
        "set_option linter.unusedVariables false",
        "namespace Pandora.Generated.KernelsGlue",
        "open Pandora",
        "",
    ]
    for name, k in ks.items():
        lines.append(f"/- {k.origin}")
        lines.append(python_comment(k) if k.py_name in k.source[:80] and k.source.startswith("def ") else k.source.replace("-/", "- /"))
        for note in sorted(set(k.notes)):
            lines.append(f"   note: {note.replace('-/', '- /')}")
        lines.append("-/")
        lines.append(pyexpr.render_lean(k, always_partial=False))
        lines.append("-- what translator/pyexpr.py's own evaluator computes on a few inputs, checked here by evaluation")
        lines += golden_examples(k)
        lines.append("")
    for name, msg in errors.items():
        lines.append(f"-- NOT TRANSLATED: {name}: " + msg.replace("\n", " ").replace("-/", "- /"))
    lines.append("end Pandora.Generated.KernelsGlue")
    return "\n".join(lines) + "\n"


def render_selftest() -> str:
    """the glue test functions of translator/pyexpr_selftest.py rendered to Lean with the values the evaluator computes
    (CPython vs evaluator is compared by the harness; evaluator vs Lean here, at build time)"""
    from . import pyexpr_selftest

    lines = [
        "-- GENERATED by translator/gen_kernels_glue.py from translator/pyexpr_selftest.py. Do not edit.",
        "import PandoraModel.Model.PyExpr",
        "set_option linter.unusedVariables false",
        "namespace Pandora.Generated.KernelsGlueSelfTest",
        "open Pandora",
        "",
    ]
    for name, k in pyexpr_selftest.glue_kernels().items():
        text = pyexpr_selftest.GLUE_ACCEPTED[name][1].strip().replace("-/", "- /").replace("/-", "/ -")
        lines += ["/-", text, "-/", pyexpr.render_lean(k, always_partial=False)]
        lines += golden_examples(k, pyexpr_selftest.GLUE_ACCEPTED[name][2])
        lines.append("")
    lines.append("end Pandora.Generated.KernelsGlueSelfTest")
    return "\n".join(lines) + "\n"


def generate(*required):
    """write Generated/KernelsGlue.lean with every kernel that translates; raise Unsupported if one of `required`
    (all of them when none is named) does not"""
    ks, errors = kernels()
    write_if_changed("KernelsGlue.lean", render(ks, errors))
    write_if_changed("KernelsGlueSelfTest.lean", render_selftest())
    bad = {n: m for n, m in errors.items() if not required or n in required}
    if bad:
        raise Unsupported("; ".join(f"{n}: {m}" for n, m in bad.items()))
    return {"T12-glue": {"source": SRC, "digest": digest(*SRC), "kernels": sorted(ks),
                         "not_translated": sorted(errors)}}
