"""Run every extractor once (used by setup.sh)."""
import sys

from translator import registry


def main():
    ok = True
    for mod in registry.modules():
        try:
            mod.generate()
            print("translated", mod.NAME)
        except Exception as exc:  # pylint: disable=broad-except
            ok = False
            print("translator failed for", mod.NAME, ":", exc)
    return 0 if ok else 1


if __name__ == "__main__":
    sys.exit(main())
