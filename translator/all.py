"""Run every extractor once (used by setup.sh)."""
import sys


def main():
    ok = True
    from translator import registry

    for name, fn in registry.ALL:
        try:
            fn()
            print("translated", name)
        except Exception as exc:  # pylint: disable=broad-except
            ok = False
            print("translator failed for", name, ":", exc)
    return 0 if ok else 1


if __name__ == "__main__":
    sys.exit(main())
