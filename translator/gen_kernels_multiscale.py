"""T15 (multiscale): `FixedZoomPyramid.disparity_range` and `AbstractMultiscale.mask_invalid_disparities`
-> Generated/KernelsMultiscale.lean  (on top of translator/pyarr.py; support Model/PyArrMultiscale.lean), plus the scalar
interval glue of `run_prepare` / `matching_cost_prepare` (translator/pyexpr.py, like T12 glue).

Read statement by statement, strictly (anything else raises Unsupported):

  mask_invalid_disparities   F = disp["disparity_map"].data.copy() | np.copy(...)                       fresh array
                             for idxes, val in np.ndenumerate(disp["validity_mask"].data):
                                 if val & cst.NAME != 0 | == 0:  F[idxes] = np.nan                      = a masked store
                             return F
  disparity_range            n1, n2 = disp["disparity_map"].shape;  offset = int((disp.attrs["window_size"] - 1) / 2)
                             A = np.full_like(disp["disparity_map"].data, int(np.nanmax|nanmin(disp_max|disp_min)))
                             T = self.mask_invalid_disparities(disp);  I = np.where(np.isnan(T)) | np.isnan(T)
                             W = sliding_window(T, (disp.attrs["window_size"],) * 2)
                             the T8 block loop with ONE OR TWO writes  A[block] = np.nanmin|nanmax(chunk, axis=(2, 3)) -|+ self._marge
                             A[I] = int(np.nanmin|nanmax(disp_min|disp_max))
                             if self._scale_factor == 1: return A, B
                             A = zoom(A, self._scale_factor, order=<int>, mode=<str>)    (keywords recorded as written)
                             return A, B;   del …;  warnings.*;  docstrings

`np.nanmin(disp_min)`, `np.nanmax(disp_min)`, `np.nanmin(disp_max)`, `np.nanmax(disp_max)` are hoisted to four rational
parameters (scalars of the call); `zoom` is an uninterpreted parameter applied to the keyword arguments found.
The same statement list is evaluated exactly (`evaluate_range`) for the run-time comparison with the real function.
"""
from __future__ import annotations

import ast
from fractions import Fraction

from . import gen_blocks, pyarr, pyexpr
from .common import Unsupported, digest, find_class, find_method, parse, read_source, write_if_changed

NAME = "KernelsMultiscale"
PYR_REL = "pandora/multiscale/fixed_zoom_pyramid.py"
MS_REL = "pandora/multiscale/multiscale.py"
SM_REL = "pandora/state_machine.py"
DM = 'disp["disparity_map"].data'
VM = 'disp["validity_mask"].data'
WS = 'disp.attrs["window_size"]'
T8NAME = "multiscaleRange"
USER_ATOMS = {("nanmin", "disp_min"): "nanmin_disp_min", ("nanmax", "disp_min"): "nanmax_disp_min",
              ("nanmin", "disp_max"): "nanmin_disp_max", ("nanmax", "disp_max"): "nanmax_disp_max"}
SCIPY_ZOOM_DEFAULTS = {"order": 3, "mode": "constant"}


def _d(node):
    return gen_blocks._dotted(node)  # pylint: disable=protected-access


def _np(node, name):
    return gen_blocks._is_np(node, name)  # pylint: disable=protected-access


# ---------------------------------------------------------------------------------------------
# mask_invalid_disparities
# ---------------------------------------------------------------------------------------------
def read_mask_invalid():
    where = f"{MS_REL}:AbstractMultiscale.mask_invalid_disparities"
    fn = find_method(find_class(parse(MS_REL), "AbstractMultiscale"), "mask_invalid_disparities")

    def bad(msg, node=None):
        line = f" (line {node.lineno})" if node is not None and hasattr(node, "lineno") else ""
        raise Unsupported(f"{where}: {msg}{line}")

    if [a.arg for a in fn.args.args] != ["disp"]:
        bad("expected the single parameter `disp`")
    name, fill, ret = None, None, None
    for st in fn.body:
        if ret is not None:
            bad("statement after return", st)
        if isinstance(st, ast.Expr) and isinstance(st.value, ast.Constant) and isinstance(st.value.value, str):
            continue
        if isinstance(st, ast.Assign) and len(st.targets) == 1 and isinstance(st.targets[0], ast.Name) and name is None:
            v = st.value
            ok = (isinstance(v, ast.Call) and isinstance(v.func, ast.Attribute) and v.func.attr == "copy" and not v.args
                  and not v.keywords and _d(v.func.value) == DM) or (
                isinstance(v, ast.Call) and _np(v.func, "copy") and len(v.args) == 1 and not v.keywords and _d(v.args[0]) == DM)
            if not ok:
                bad(f"the filtered map is not a copy of {DM}: {ast.unparse(v)[:60]}", st)
            name = st.targets[0].id
            continue
        if isinstance(st, ast.For) and name is not None and fill is None:
            it, tgt = st.iter, st.target
            ok = (isinstance(it, ast.Call) and _np(it.func, "ndenumerate") and len(it.args) == 1 and not it.keywords
                  and _d(it.args[0]) == VM and isinstance(tgt, ast.Tuple) and len(tgt.elts) == 2
                  and all(isinstance(e, ast.Name) for e in tgt.elts) and not st.orelse and len(st.body) == 1
                  and isinstance(st.body[0], ast.If) and not st.body[0].orelse and len(st.body[0].body) == 1)
            if not ok:
                bad("expected `for idxes, val in np.ndenumerate(disp[\"validity_mask\"].data): if <test>: <store>`", st)
            idx, val = tgt.elts[0].id, tgt.elts[1].id
            test, store = st.body[0].test, st.body[0].body[0]
            tok = (isinstance(test, ast.Compare) and len(test.ops) == 1 and isinstance(test.ops[0], (ast.Eq, ast.NotEq))
                   and isinstance(test.comparators[0], ast.Constant) and test.comparators[0].value == 0
                   and not isinstance(test.comparators[0].value, bool)
                   and isinstance(test.left, ast.BinOp) and isinstance(test.left.op, ast.BitAnd)
                   and isinstance(test.left.left, ast.Name) and test.left.left.id == val
                   and isinstance(test.left.right, ast.Attribute) and isinstance(test.left.right.value, ast.Name)
                   and test.left.right.value.id == "cst")
            if not tok:
                bad(f"unsupported test {ast.unparse(test)[:60]}", st)
            sok = (isinstance(store, ast.Assign) and len(store.targets) == 1 and isinstance(store.targets[0], ast.Subscript)
                   and isinstance(store.targets[0].value, ast.Name) and store.targets[0].value.id == name
                   and isinstance(store.targets[0].slice, ast.Name) and store.targets[0].slice.id == idx
                   and _np(store.value, "nan"))
            if not sok:
                bad(f"unsupported store {ast.unparse(store)[:60]}", st)
            fill = ("flag", "validity_mask", test.left.right.attr, isinstance(test.ops[0], ast.NotEq))
            continue
        if isinstance(st, ast.Return):
            if not (isinstance(st.value, ast.Name) and st.value.id == name):
                bad("the returned array is not the copy", st)
            ret = name
            continue
        bad(f"unsupported statement {ast.unparse(st)[:60]}", st)
    if ret is None or fill is None:
        bad("no masked copy is returned")
    return {"name": name, "fill": fill, "source": ast.unparse(fn), "where": where}


def render_mask_invalid(mi):
    n = pyarr.lname(mi["name"])
    return "\n".join([
        "def maskInvalidDisparities (ny nx : Nat) (validity_mask : Nat → Nat → Nat) (disparity_map : Nat) (s0 : Store Val) : Store Val × Nat :=",
        "  let p1 := s0.copy disparity_map",
        "  let s1 := p1.1",
        f"  let {n} : Nat := p1.2",
        "  -- the element loop `for idxes, val in np.ndenumerate(flags): if <test on val>: a[idxes] = nan` is one masked store",
        f"  let s2 := s1.maskFill {n} {pyarr.mask_lean(mi['fill'], 's1')} Val.nan",
        f"  (s2, {n})",
    ])


# ---------------------------------------------------------------------------------------------
# disparity_range
# ---------------------------------------------------------------------------------------------
class _RangeReader(pyarr._Reader):  # pylint: disable=protected-access
    """pyarr's reader + `np.full_like`, `int(np.nanmin(...))` scalars, the dataset call, a block loop with two writes,
    `zoom` with its keywords, the `scale_factor == 1` early return, pairs of arrays returned"""

    def __init__(self, spec):
        super().__init__(spec)
        self.rets = []

    def user_scalar(self, node):
        """int(np.nanmin|nanmax(disp_min|disp_max)) -> ("int", lean atom)"""
        if (isinstance(node, ast.Call) and isinstance(node.func, ast.Name) and node.func.id == "int" and len(node.args) == 1
                and not node.keywords and isinstance(node.args[0], ast.Call) and len(node.args[0].args) == 1
                and not node.args[0].keywords and isinstance(node.args[0].args[0], ast.Name)):
            inner = node.args[0]
            for fn in ("nanmin", "nanmax"):
                if _np(inner.func, fn) and (fn, inner.args[0].id) in USER_ATOMS:
                    return ("int", USER_ATOMS[(fn, inner.args[0].id)])
        return None

    def assign_name(self, st, name, val):
        if isinstance(val, ast.Call) and _np(val.func, "full_like") and len(val.args) == 2 and not val.keywords:
            sc = self.user_scalar(val.args[1])
            if _d(val.args[0]) != DM or sc is None:
                self.bad(f"np.full_like(<disparity map>, int(np.nanmin|nanmax(disp_min|disp_max))) expected: {ast.unparse(val)[:70]}", st)
            self.bind(name, "arr", st)
            self.stmts.append(("full", name, sc))
            return
        if (isinstance(val, ast.Call) and _d(val.func) == "self.mask_invalid_disparities" and len(val.args) == 1
                and not val.keywords and _d(val.args[0]) == "disp"):
            self.bind(name, "arr", st)
            self.stmts.append(("maskcall", name))
            return
        if isinstance(val, ast.Call) and _np(val.func, "where") and len(val.args) == 1 and not val.keywords:
            m = self.mask(val.args[0])
            if m is not None:
                self.bind(name, "mask", st)
                self.stmts.append(("mask", name, m))
                return
        if isinstance(val, ast.Call) and isinstance(val.func, ast.Name) and val.func.id == "zoom":
            src = self.arr(val.args[0]) if val.args else None
            if len(val.args) != 2 or src is None or self.nat(val.args[1]) != "scale_factor":
                self.bad(f"zoom(<array>, self._scale_factor, …) expected: {ast.unparse(val)[:70]}", st)
            kws = dict(SCIPY_ZOOM_DEFAULTS)
            for k in val.keywords:
                if k.arg not in kws or not isinstance(k.value, ast.Constant) or type(k.value.value) is not type(kws[k.arg]):  # noqa: E721
                    self.bad(f"unsupported keyword of zoom: {ast.unparse(k)[:40]}", st)
                kws[k.arg] = k.value.value
            if kws["order"] < 0:
                self.bad("negative order", st)
            self.bind(name, "arr", st)
            self.stmts.append(("zoom", name, src, kws["order"], kws["mode"]))
            return
        super().assign_name(st, name, val)

    def assign_sub(self, st, tgt, val):
        sc = self.user_scalar(val)
        if sc is not None:
            a = self.arr(tgt.value)
            m = self.mask(tgt.slice, index=True)
            if a is None or m is None:
                self.bad(f"unsupported masked store {ast.unparse(st)[:80]}", st)
            self.stmts.append(("fill", a, m, sc))
            return
        super().assign_sub(st, tgt, val)

    def shape_unpack(self, st, tgt, val):
        if not (isinstance(val, ast.Attribute) and val.attr == "shape" and _d(val.value) in ('disp["disparity_map"]', DM)):
            self.bad("tuple assignment that is not `<n1>, <n2> = disp[\"disparity_map\"].shape`", st)
        if len(tgt.elts) != 2 or not all(isinstance(e, ast.Name) for e in tgt.elts):
            self.bad("shape of a 2-D array unpacked into other than two names", st)
        self.bind(tgt.elts[0].id, "dimy", st)
        self.bind(tgt.elts[1].id, "dimx", st)

    def kernel(self, val, chunk, node):
        """np.nanmin|nanmax(chunk, axis=(2, 3)) -|+ self._marge"""
        if isinstance(val, ast.BinOp) and isinstance(val.op, (ast.Sub, ast.Add)) and self.nat(val.right) == "marge":
            red = val.left
            for fn in ("nanmin", "nanmax"):
                if isinstance(red, ast.Call) and _np(red.func, fn) and len(red.args) == 1 and chunk.matches(red.args[0]):
                    kws = {k.arg: k.value for k in red.keywords}
                    ax = kws.get("axis")
                    if set(kws) == {"axis"} and isinstance(ax, ast.Tuple) and [getattr(e, "value", None) for e in ax.elts] == [2, 3]:
                        return (fn, "sub" if isinstance(val.op, ast.Sub) else "add")
        self.bad(f"unsupported block kernel {ast.unparse(val)[:70]}", node)
        return None

    def block_loop(self, loop):
        spec = self.spec
        t8name, size_text = spec.t8
        gen_blocks.extract_one(spec.rel, spec.cls, spec.meth, size_text)  # structural reading (raises Unsupported)
        inner = [s for s in loop.body if isinstance(s, ast.For)]
        if len(inner) != 1:
            self.bad("expected one inner block loop", loop)
        inner = inner[0]
        for s in loop.body:
            if s is inner:
                continue
            ok = (isinstance(s, ast.Assign) and len(s.targets) == 1 and isinstance(s.targets[0], ast.Name) and (
                gen_blocks._int(s.value) or gen_blocks._half(s.value) or isinstance(s.value, ast.Name)  # pylint: disable=protected-access
                or (isinstance(s.value, ast.Call) and _np(s.value.func, "array_split")))) or (
                isinstance(s, ast.AugAssign) and isinstance(s.target, ast.Name) and s.target.id.endswith("_begin"))
            if not ok:
                self.bad(f"unsupported statement in the outer block loop: {ast.unparse(s)[:60]}", s)
        writes = []
        for s in inner.body:
            if isinstance(s, ast.Assign) and len(s.targets) == 1 and isinstance(s.targets[0], ast.Name) and s.targets[0].id.endswith("_end"):
                continue
            if isinstance(s, ast.AugAssign) and isinstance(s.target, ast.Name) and s.target.id.endswith("_begin"):
                continue
            if isinstance(s, ast.Assign) and len(s.targets) == 1 and isinstance(s.targets[0], ast.Subscript):
                writes.append(s)
                continue
            self.bad(f"unsupported statement in the inner block loop: {ast.unparse(s)[:60]}", s)
        if len(writes) != 2:
            self.bad(f"{len(writes)} block writes in the inner loop, expected 2", inner)
        chunk, _ = gen_blocks._loop_var_and_iter(inner, gen_blocks.LoopInfo(spec.where))  # pylint: disable=protected-access
        _, ychunks = gen_blocks._loop_var_and_iter(loop, gen_blocks.LoopInfo(spec.where))  # pylint: disable=protected-access
        fn = find_method(find_class(parse(spec.rel), spec.cls), spec.meth)
        split_src = None
        for s in ast.walk(fn):
            if (isinstance(s, ast.Assign) and len(s.targets) == 1 and isinstance(s.targets[0], ast.Name)
                    and s.targets[0].id == ychunks and isinstance(s.value, ast.Call) and _np(s.value.func, "array_split")):
                split_src = s.value.args[0]
        if not (isinstance(split_src, ast.Name) and self.kinds.get(split_src.id) == "view"):
            self.bad("the array split by the outer loop is not a sliding_window view", loop)
        view = split_src.id
        vw = [s for s in self.stmts if s[0] == "view" and s[1] == view][0]
        if vw[3] != "window_size":
            self.bad(f"view of size {vw[3]}, T8 offsets derive from {size_text}", loop)
        ws = []
        for w in writes:
            dst = self.arr(w.targets[0].value)
            if dst is None:
                self.bad("a block is written into something that is not an array name", w)
            ws.append((dst, self.kernel(w.value, chunk, w)))
        self.stmts.append(("blocks2", ws, view, t8name, vw[3]))

    def pair(self, node):
        if isinstance(node, ast.Tuple) and len(node.elts) == 2:
            a, b = (self.arr(e) for e in node.elts)
            if a is not None and b is not None:
                return (a, b)
        return None

    def walk(self, stmts, top=True):
        for st in stmts:
            if self.returned:
                self.bad("statement after return", st)
            if isinstance(st, ast.If):
                t = st.test
                ok = (top and isinstance(t, ast.Compare) and len(t.ops) == 1 and isinstance(t.ops[0], ast.Eq)
                      and self.nat(t.left) == "scale_factor" and isinstance(t.comparators[0], ast.Constant)
                      and type(t.comparators[0].value) is int and t.comparators[0].value >= 0  # noqa: E721
                      and not st.orelse and len(st.body) == 1 and isinstance(st.body[0], ast.Return)
                      and st.body[0].value is not None and self.pair(st.body[0].value) is not None)
                if not ok:
                    self.bad(f"unsupported if statement {ast.unparse(st)[:70]}", st)
                self.stmts.append(("ifret", t.comparators[0].value, self.pair(st.body[0].value)))
            elif isinstance(st, ast.Return):
                if not top or st.value is None or self.pair(st.value) is None:
                    self.bad("unsupported return", st)
                self.ret = self.pair(st.value)
                self.returned = True
            else:
                super().walk([st], top=top)


def range_spec():
    return pyarr.Spec(PYR_REL, "FixedZoomPyramid", "disparity_range", "disparityRange",
                      arrays={DM: "disparity_map"}, ints={VM: "validity_mask"},
                      nats={WS: "window_size", "self._marge": "marge", "self._scale_factor": "scale_factor"},
                      t8=(T8NAME, WS))


def read_range():
    spec = range_spec()
    fn = find_method(find_class(parse(PYR_REL), "FixedZoomPyramid"), "disparity_range")
    if [a.arg for a in fn.args.args] != ["self", "disp", "disp_min", "disp_max"]:
        raise Unsupported(f"{spec.where}: unexpected parameters")
    banned = (ast.While, ast.Try, ast.Lambda, ast.ListComp, ast.Global, ast.Nonlocal, ast.FunctionDef, ast.AsyncFunctionDef,
              ast.Yield, ast.Raise)
    for n in ast.walk(fn):
        if n is not fn and isinstance(n, banned):
            raise Unsupported(f"{spec.where}: unsupported construct {type(n).__name__}")
    for n in ast.walk(fn):  # the parameters are never rebound, `zoom` is scipy's
        if isinstance(n, (ast.Assign, ast.AugAssign)):
            for t in (n.targets if isinstance(n, ast.Assign) else [n.target]):
                if isinstance(t, ast.Name) and t.id in ("disp", "disp_min", "disp_max", "self", "zoom", "np", "int"):
                    raise Unsupported(f"{spec.where}: `{t.id}` is rebound")
    mod = parse(PYR_REL)
    zoom_ok = any(isinstance(n, ast.ImportFrom) and n.module == "scipy.ndimage" and any(a.name == "zoom" and a.asname is None for a in n.names)
                  for n in mod.body)
    sw_ok = any(isinstance(n, ast.ImportFrom) and any(a.name == "sliding_window" and a.asname is None for a in n.names) for n in mod.body)
    if not zoom_ok or not sw_ok:
        raise Unsupported(f"{PYR_REL}: `zoom` is not scipy.ndimage.zoom or `sliding_window` is not imported from common")
    r = _RangeReader(spec)
    r.walk(fn.body)
    if r.ret is None:
        raise Unsupported(f"{spec.where}: no pair of arrays is returned")
    f = pyarr.Fn(spec, r.stmts, r.ret, ast.unparse(fn))
    return f


RED = {"nanmin": "Multiscale.nanMin", "nanmax": "Multiscale.nanMax"}
OP = {"sub": "valSub", "add": "valAdd"}


def render_range(fn):
    L = pyarr.lname
    out = ["def disparityRange (window_size marge scale_factor : Nat) (ny nx : Nat) (validity_mask : Nat → Nat → Nat)",
           "    (nanmin_disp_min nanmax_disp_min nanmin_disp_max nanmax_disp_max : Rat) (zoom : ZoomFn) (disparity_map : Nat)",
           "    (s0 : Store Val) : Store Val × Nat × Nat :="]
    k = 0
    for st in fn.stmts:
        s = f"s{k}"
        if st[0] == "full":
            out += [f"  let p{k + 1} := {s}.full (pyInt {st[2][1]})", f"  let s{k + 1} := p{k + 1}.1", f"  let {L(st[1])} : Nat := p{k + 1}.2"]
            k += 1
        elif st[0] == "maskcall":
            out += [f"  let p{k + 1} := maskInvalidDisparities ny nx validity_mask disparity_map {s}", f"  let s{k + 1} := p{k + 1}.1",
                    f"  let {L(st[1])} : Nat := p{k + 1}.2"]
            k += 1
        elif st[0] == "copy":
            out += [f"  let p{k + 1} := {s}.copy {L(st[2])}", f"  let s{k + 1} := p{k + 1}.1", f"  let {L(st[1])} : Nat := p{k + 1}.2"]
            k += 1
        elif st[0] == "nathalf":
            # `offset = int((window_size - 1) / 2)`: only used as the begin offsets of the block loop, which T8 reads from the
            # same source (`Generated.Blocks.multiscaleRange`); nothing to print here
            continue
        elif st[0] == "alias":
            out.append(f"  let {L(st[1])} : Nat := {L(st[2])}")
        elif st[0] == "view":
            out.append(f"  let {L(st[1])} : View := ⟨{L(st[2])}, {L(st[3])}⟩")
        elif st[0] == "mask":
            out.append(f"  let {L(st[1])} : Mask := {pyarr.mask_lean(st[2], s)}")
        elif st[0] == "fill":
            v = "Val.nan" if st[3][0] == "nan" else f"(pyInt {st[3][1]})"
            out.append(f"  let s{k + 1} := {s}.maskFill {L(st[1])} {pyarr.mask_lean(st[2], s)} {v}")
            k += 1
        elif st[0] == "blocks2":
            _, ws, view, t8name, size = st
            v = L(view)
            out.append(f"  let s{k + 1} := blockedSt2 ((Generated.Blocks.{t8name} {L(size)}).plan ({v}.rows ny) ({v}.cols nx) [ny, nx])")
            for dst, (red, op) in ws:
                out.append(f"    (windowKernel (fun vs => {OP[op]} ({RED[red]} vs) marge) {v}.w) {L(dst)}")
            out.append(f"    {v}.base {s}")
            k += 1
        elif st[0] == "ifret":
            out.append(f"  if scale_factor = {st[1]} then ({s}, {L(st[2][0])}, {L(st[2][1])}) else")
        elif st[0] == "zoom":
            out += [f"  let p{k + 1} := {s}.zoom zoom {{ order := {st[3]}, mode := {pyexpr.lean_str(st[4])} }} ny nx scale_factor {L(st[2])}",
                    f"  let s{k + 1} := p{k + 1}.1", f"  let {L(st[1])} : Nat := p{k + 1}.2"]
            k += 1
        else:
            raise Unsupported(f"{fn.spec.where}: statement kind {st[0]} is not printed")
    out.append(f"  (s{k}, {L(fn.ret[0])}, {L(fn.ret[1])})")
    return "\n".join(out)


# ---------------------------------------------------------------------------------------------
# exact evaluation of the same statement lists
# ---------------------------------------------------------------------------------------------
def rtrunc(q):
    q = Fraction(q)
    return Fraction(int(q))  # int() of a Fraction truncates toward zero


def zoom_index(n, f, i):
    """Model/Multiscale.lean: zoomIndex"""
    if f * n <= 1:
        return 0
    return (2 * i * (n - 1) + (f * n - 1)) // (2 * (f * n - 1))


def zoom_nearest(a, ny, nx, f):
    return [[a[zoom_index(ny, f, i)][zoom_index(nx, f, j)] for j in range(f * nx)] for i in range(f * ny)]


def nanmin(vals):
    xs = [v for v in vals if not pyarr.is_nan(v)]
    return min(xs) if xs else pyarr.NAN


def nanmax(vals):
    xs = [v for v in vals if not pyarr.is_nan(v)]
    return max(xs) if xs else pyarr.NAN


def evaluate_mask_invalid(mi, store, ny, nx, dm, flags, consts):
    k = store.alloc(store.arr[dm])
    m = pyarr.mask_eval(mi["fill"], {"validity_mask": flags}, store, ny, nx, consts)
    a = store.arr[k]
    for r in range(ny):
        for c in range(nx):
            if m[r][c]:
                a[r][c] = pyarr.NAN
    return k


def evaluate_range(fn, mi, store, ny, nx, dm, flags, nats, users, consts, t8, zoom=None):
    """run `disparity_range`'s statement list; `users`: the four hoisted scalars; `zoom(args, content, ny, nx, f)` is the
    library function (default: the model's reading for the pinned arguments, refusal otherwise).
    Returns (identity of the min map, identity of the max map, shape of both)."""
    env = {"disparity_map": dm, "validity_mask": flags}
    env.update(nats)
    shapes = {dm: (ny, nx)}

    def scalar(sc):
        return pyarr.NAN if sc[0] == "nan" else rtrunc(users[sc[1]])

    def do_zoom(args, content, f):
        if zoom is not None:
            return zoom(args, content, ny, nx, f)
        if args != (0, "nearest"):
            raise ValueError(f"zoom with the arguments {args} has no meaning in the model")
        return zoom_nearest(content, ny, nx, f)

    for st in fn.stmts:
        if st[0] == "full":
            env[st[1]] = store.alloc([[scalar(st[2])] * nx for _ in range(ny)])
            shapes[env[st[1]]] = (ny, nx)
        elif st[0] == "maskcall":
            env[st[1]] = evaluate_mask_invalid(mi, store, ny, nx, dm, flags, consts)
            shapes[env[st[1]]] = (ny, nx)
        elif st[0] == "copy":
            env[st[1]] = store.alloc(store.arr[env[st[2]]])
            shapes[env[st[1]]] = (ny, nx)
        elif st[0] == "alias":
            env[st[1]] = env[st[2]]
        elif st[0] == "view":
            env[st[1]] = ("view", env[st[2]], env[st[3]])
        elif st[0] == "mask":
            env[st[1]] = pyarr.mask_eval(st[2], env, store, ny, nx, consts)
        elif st[0] == "fill":
            m = pyarr.mask_eval(st[2], env, store, ny, nx, consts)
            a = store.arr[env[st[1]]]
            v = scalar(st[3])
            for r in range(ny):
                for c in range(nx):
                    if m[r][c]:
                        a[r][c] = v
        elif st[0] == "blocks2":
            _, ws, view, t8name, size = st
            _, base, w = env[view]
            sp = pyarr.split_of(t8[t8name], env[size])
            dims = [ny, nx]
            ly, lx = ny - w + 1, nx - w + 1
            if ly <= 0 or lx <= 0:
                raise ValueError("window larger than the array")
            ychunks = pyarr.array_split(ly, pyarr.arange(sp["startY"], dims[sp["stopYDim"]], sp["stepY"]))
            xchunks = pyarr.array_split(lx, pyarr.arange(sp["startX"], dims[sp["stopXDim"]], sp["stepX"]))
            yb = sp["beginY"]
            for ys, ylen in ychunks:
                xb = sp["beginX"]
                for xs, xlen in xchunks:
                    for dst, (red, op) in ws:
                        b = store.arr[base]  # the view reads what its base holds NOW
                        d = store.arr[env[dst]]
                        f_red = nanmin if red == "nanmin" else nanmax
                        block = []
                        for i in range(ylen):
                            row = []
                            for j in range(xlen):
                                v = f_red([b[ys + i + p][xs + j + q] for p in range(w) for q in range(w)])
                                if not pyarr.is_nan(v):
                                    v = v - env["marge"] if op == "sub" else v + env["marge"]
                                row.append(v)
                            block.append(row)
                        if ylen and xlen and (yb + ylen > ny or xb + xlen > nx):
                            raise ValueError("could not broadcast the block into the destination slice")
                        for i in range(ylen):
                            for j in range(xlen):
                                d[yb + i][xb + j] = block[i][j]
                    xb += xlen
                yb += ylen
        elif st[0] == "ifret":
            if env["scale_factor"] == st[1]:
                a, b = env[st[2][0]], env[st[2][1]]
                return a, b, shapes[a]
        elif st[0] == "nathalf":
            continue  # the begin offsets of the block loop: T8's (see render_range)
        elif st[0] == "zoom":
            f = env["scale_factor"]
            k = store.alloc(do_zoom((st[3], st[4]), store.arr[env[st[2]]], f))
            shapes[k] = (f * ny, f * nx)
            env[st[1]] = k
        else:
            raise AssertionError(st)
    a, b = env[fn.ret[0]], env[fn.ret[1]]
    return a, b, shapes[a]


# ---------------------------------------------------------------------------------------------
# scalar interval glue (pyexpr)
# ---------------------------------------------------------------------------------------------
RAT, INT = pyexpr.RAT, pyexpr.INT
POW_NAMES = {"self.scale_factor": "scale_factor", "scale_factor": "scale_factor", "self.num_scales": "num_scales",
             "num_scales": "num_scales"}


def prepare_atoms(which, pow_text):
    """the user bound, and the power `<base> ** <exponent>` as ONE integer atom (its base and exponent are read
    structurally and printed in the `…At` wrapper: pyexpr has no `**` with a variable exponent)"""
    return [(f'left_img["disparity"].sel(band_disp="{which}")', "user", RAT), (pow_text, "scale_pow", INT)]


def _attr_assigns(fn, attr):
    """`self.<attr> = <value>` statements of a method, in source order"""
    out = []
    for n in ast.walk(fn):
        if isinstance(n, ast.Assign) and len(n.targets) == 1 and _d(n.targets[0]) == f"self.{attr}":
            out.append(n)
    return sorted(out, key=lambda n: n.lineno)


def glue_kernels():
    """run_prepare: `self.disp_min = left_img["disparity"].sel(band_disp="min") / self.scale_factor ** self.num_scales` (the
    multiscale branch; same for max);  matching_cost_prepare: `self.disp_min = self.disp_min * self.scale_factor` (same for
    max, and for the right bounds);  right bounds of run_prepare: `self.right_disp_min = -self.disp_max`, `… = -self.disp_min`"""
    cls = find_class(parse(SM_REL), "PandoraMachine")
    src = read_source(SM_REL)
    rp = find_method(cls, "run_prepare")
    mcp = find_method(cls, "matching_cost_prepare")
    ks = {}

    def one(name, node, atoms, origin):
        k = pyexpr.translate_expression(node, name, atoms, source_text=src, py_name=origin)
        k.origin = f"{SM_REL}: PandoraMachine.{origin}"
        ks[name] = k

    # run_prepare: the assignment under `if self.num_scales > 1:`
    multi = [n for n in ast.walk(rp) if isinstance(n, ast.If) and ast.unparse(n.test) in ("self.num_scales > 1", "1 < self.num_scales")]
    if len(multi) != 1:
        raise Unsupported(f"{SM_REL}: run_prepare: expected one `if self.num_scales > 1:`")
    branch = ast.Module(body=multi[0].body, type_ignores=[])
    for which in ("min", "max"):
        found = _attr_assigns(branch, f"disp_{which}")
        if len(found) != 1:
            raise Unsupported(f"{SM_REL}: run_prepare: expected one assignment of self.disp_{which} in the multiscale branch, found {len(found)}")
        pows = [n for n in ast.walk(found[0].value) if isinstance(n, ast.BinOp) and isinstance(n.op, ast.Pow)]
        if len(pows) != 1 or _d(pows[0].left) not in POW_NAMES or _d(pows[0].right) not in POW_NAMES:
            raise Unsupported(f"{SM_REL}: run_prepare: `{ast.unparse(found[0])}`: expected one power of scale_factor / num_scales")
        name = f"prepareBound{which.capitalize()}"
        one(name, found[0].value, prepare_atoms(which, ast.unparse(pows[0])), f"run_prepare: `{ast.unparse(found[0])}`")
        ks[name].pow = (POW_NAMES[_d(pows[0].left)], POW_NAMES[_d(pows[0].right)])
    for attr, lean in (("right_disp_min", "prepareRightMin"), ("right_disp_max", "prepareRightMax")):
        found = _attr_assigns(branch, attr)
        if len(found) != 1:
            raise Unsupported(f"{SM_REL}: run_prepare: expected one assignment of self.{attr} in the multiscale branch")
        one(lean, found[0].value, [("self.disp_min", "disp_min", RAT), ("self.disp_max", "disp_max", RAT)],
            f"run_prepare: `{ast.unparse(found[0])}`")
    for attr, lean in (("disp_min", "mcPrepareMin"), ("disp_max", "mcPrepareMax"), ("right_disp_min", "mcPrepareRightMin"),
                       ("right_disp_max", "mcPrepareRightMax")):
        found = _attr_assigns(mcp, attr)
        if len(found) != 1:
            raise Unsupported(f"{SM_REL}: matching_cost_prepare: expected one assignment of self.{attr}, found {len(found)}")
        one(lean, found[0].value, [(f"self.{attr}", "bound", RAT), ("self.scale_factor", "scale_factor", INT)],
            f"matching_cost_prepare: `{ast.unparse(found[0])}`")
    return ks


GLUE_GOLDEN = {
    "prepareBoundMin": [(-60, 4), (Fraction(-7, 2), 9), (5, 8)],
    "prepareBoundMax": [(60, 4), (Fraction(7, 2), 9), (-5, 8)],
    "prepareRightMin": [(-15, 15), (Fraction(-7, 4), 3)],
    "prepareRightMax": [(-15, 15), (Fraction(-7, 4), 3)],
    "mcPrepareMin": [(-15, 2), (Fraction(-7, 18), 3)],
    "mcPrepareMax": [(15, 2), (Fraction(7, 18), 3)],
    "mcPrepareRightMin": [(-15, 2)],
    "mcPrepareRightMax": [(15, 2)],
}


def glue_examples(k):
    from . import gen_kernels

    k.always_partial = False
    cases = GLUE_GOLDEN[k.lean_name] + ([(1, 0)] if k.partial else [])
    return gen_kernels.golden_examples(k, cases)


# ---------------------------------------------------------------------------------------------
# printing
# ---------------------------------------------------------------------------------------------
GOLDEN_DISP = [[1, 2, 3, 2, 1], [0, 4, -2, 5, 1], [1, 3, 7, 2, 0], [2, 2, 1, 1, 3]]
GOLDEN_FLAGS = [[0, 0, 0, 0, 0], [0, 0, 64, 0, 0], [0, 0, 0, 4, 0], [0, 0, 0, 0, 0]]
GOLDEN_USERS = {"nanmin_disp_min": Fraction(-7, 2), "nanmax_disp_min": Fraction(-3), "nanmin_disp_max": Fraction(3),
                "nanmax_disp_max": Fraction(7, 2)}


def _val(v):
    if pyarr.is_nan(v):
        return "Val.nan"
    v = Fraction(v)
    return f"Val.num ({v.numerator} / {v.denominator})" if v.denominator != 1 else f"Val.num ({v.numerator})"


def _rat(q):
    q = Fraction(q)
    return f"(({q.numerator} : Rat) / {q.denominator})" if q.denominator != 1 else f"({q.numerator} : Rat)"


def golden(fn, mi, consts):
    t8 = gen_blocks.extract()
    ny, nx = 4, 5
    img = [[Fraction(v) for v in row] for row in GOLDEN_DISP]
    rows = ", ".join("[" + ", ".join(_val(v) for v in row) + "]" for row in img)
    out = [f"def goldenDisp : Arr Val := fun r c => (([{rows}] : List (List Val)).getD r []).getD c Val.nan",
           "def goldenFlags : Nat → Nat → Nat := fun r c => (([" + ", ".join(
               "[" + ", ".join(str(x) for x in row) + "]" for row in GOLDEN_FLAGS) + "] : List (List Nat)).getD r []).getD c 0",
           "/-- `zoom` as the model reads it for the pinned arguments, something else for any other arguments -/",
           "def goldenZoom : ZoomFn := fun a ny nx f x => if a = zoomPinned then zoomNearest ny nx f x else fun _ _ => Val.nan"]
    users = " ".join(_rat(GOLDEN_USERS[k]) for k in ("nanmin_disp_min", "nanmax_disp_min", "nanmin_disp_max", "nanmax_disp_max"))

    def zoom(args, content, ny_, nx_, f):
        if args == (0, "nearest"):
            return zoom_nearest(content, ny_, nx_, f)
        return [[pyarr.NAN] * (f * nx_) for _ in range(f * ny_)]

    for f, cells in ((1, [(0, 0), (1, 2), (2, 2), (2, 1)]), (2, [(3, 4), (4, 3), (7, 9), (5, 4)])):
        st = pyarr.PStore([img])
        a, b, _ = evaluate_range(fn, mi, st, ny, nx, 0, GOLDEN_FLAGS, {"window_size": 3, "marge": 1, "scale_factor": f}, GOLDEN_USERS,
                                 consts, t8, zoom=zoom)
        call = f"(disparityRange 3 1 {f} 4 5 goldenFlags {users} goldenZoom 0 (Store.init [goldenDisp] goldenDisp))"
        for (r, c) in cells:
            out.append(f"example : {call}.1.arr {call}.2.1 {r} {c} = {_val(st.arr[a][r][c])} := by decide +kernel")
            out.append(f"example : {call}.1.arr {call}.2.2 {r} {c} = {_val(st.arr[b][r][c])} := by decide +kernel")
    return out


def comment(text):
    return text.replace("-/", "- /").replace("/-", "/ -")


def render(fn, mi, ks, consts) -> str:
    lines = [
        "-- GENERATED by translator/gen_kernels_multiscale.py (translator/pyarr.py, translator/pyexpr.py) from",
        f"-- {PYR_REL}, {MS_REL}, {SM_REL}. Do not edit.",
        "import PandoraModel.Model.PyArrMultiscale",
        "import PandoraModel.Model.PyExpr",
        "import PandoraModel.Generated.Blocks",
        "import PandoraModel.Generated.Constants",
        "set_option linter.unusedVariables false",
        "namespace Pandora.Generated.KernelsMultiscale",
        "open Pandora Pandora.PyArr",
        "",
        f"/- {mi['where']}", comment(mi["source"]), "-/",
        render_mask_invalid(mi), "",
        f"/- {fn.spec.where}", comment(fn.source), "-/",
        render_range(fn), "",
        "/-- the shape of the two maps `disparity_range` returns for an `ny × nx` level (`zoom` returns `round(n · factor)` samples) -/",
        "def disparityRangeShape (scale_factor ny nx : Nat) : Nat × Nat :=",
    ]
    ifr = [s for s in fn.stmts if s[0] == "ifret"]
    zooms = [s for s in fn.stmts if s[0] == "zoom"]
    if zooms and ifr:
        lines.append(f"  if scale_factor = {ifr[0][1]} then (ny, nx) else (scale_factor * ny, scale_factor * nx)")
    elif zooms:
        lines.append("  (scale_factor * ny, scale_factor * nx)")
    else:
        lines.append("  (ny, nx)")
    lines.append("")
    lines.append("-- what the translator's own evaluator computes on one small map, checked here by evaluation")
    lines += golden(fn, mi, consts)
    lines.append("")
    lines.append("/-! ### scalar interval glue of `run_prepare` / `matching_cost_prepare` (translator/pyexpr.py) -/")
    lines.append("")
    for k in ks.values():
        lines.append(f"/- {k.origin}")
        lines.append(comment(k.source))
        lines.append("-/")
        lines.append(pyexpr.render_lean(k, always_partial=False))
        lines += glue_examples(k)
        if getattr(k, "pow", None):
            b, e = k.pow
            lines.append(f"/-- with the power `{b} ** {e}` the source writes, for naturals -/")
            lines.append(f"def {k.lean_name}At (user : Rat) (scale_factor num_scales : Nat) :=")
            lines.append(f"  {k.lean_name} user (((({b} : Nat) : Int)) ^ {e})")
        lines.append("")
    lines.append("def translated : List String := [" + ", ".join(f'"{n}"' for n in ["maskInvalidDisparities", "disparityRange"] + list(ks)) + "]")
    lines.append("")
    lines.append("end Pandora.Generated.KernelsMultiscale")
    return "\n".join(lines) + "\n"


def functions():
    return {"maskInvalidDisparities": read_mask_invalid(), "disparityRange": read_range()}


def generate():
    from . import gen_constants

    fns = functions()
    ks = glue_kernels()
    consts = {k: v for k, v in gen_constants.extract().items() if isinstance(v, int)}
    write_if_changed("KernelsMultiscale.lean", render(fns["disparityRange"], fns["maskInvalidDisparities"], ks, consts))
    srcs = [PYR_REL, MS_REL, SM_REL]
    return {"T15-multiscale": {"source": srcs, "digest": digest(*srcs), "functions": sorted(fns) + sorted(ks),
                               "statements": [s[0] for s in fns["disparityRange"].stmts]}}
