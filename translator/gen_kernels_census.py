"""T12 (census): `Census.popcount32b` (pandora/matching_cost/census.py, a SWAR bit trick) translated statement by
statement with translator/pyexpr.py (bit-operation extension) -> Generated/KernelsCensus.lean:

    popcount32b      : Nat -> Nat          the function, re-read from the source text on every run
    popcount32bTrace : Nat -> List Nat     the value of EVERY sub-expression the function evaluates, in evaluation
                                           order (same IR, same renderer) — what a 32-bit machine integer would
                                           have to hold

`Properties/C02Census.lean` proves, for every x < 2^32, `popcount32b x` = number of set bits of x, and that every
entry of the trace is below 2^32 (so numpy's uint32 arithmetic, on which the real function runs — `map(popcount32b,
xor_)` over the rows of a uint32 array — never wraps and computes what the unbounded reading computes).

What the parameter stands for is declared here: `row` is a non-negative int (an element of a uint32 array); the
function is a `@staticmethod` without other decorators.  The harness compares the evaluator of the same IR with the
real function on every run of `./check C02` (exhaustively over 2^25 arguments in the thorough tier).
"""
from __future__ import annotations

import ast

from . import pyexpr
from .common import Unsupported, digest, find_class, find_method, parse, read_source, write_if_changed
from .pyexpr import NAT, Ex, Let, Param, Ret

NAME = "KernelsCensus"
CENSUS = "pandora/matching_cost/census.py"
SRC = [CENSUS]

GOLDEN = [0, 1, 2, 3, 0b1011, 0x55555555, 0xAAAAAAAA, 0x01FFFFFF, 0x80000000, 0xFFFFFFFF, 0x0F0F0F0F, 0x12345678,
          0xFFFF0000, 0x00FF00FF, 0x1ABCDEF]


def popcount_kernel():
    mod = parse(CENSUS)
    fn = find_method(find_class(mod, "Census"), "popcount32b")
    decos = [ast.unparse(d) for d in fn.decorator_list]
    if decos != ["staticmethod"]:
        raise Unsupported(f"{CENSUS}: popcount32b: decorators {decos} (expected @staticmethod only)")
    from .gen_kernels_glue import module_bindings

    b = module_bindings(mod)
    for n in ("int", "abs", "min", "max"):
        if n in b:
            raise Unsupported(f"{CENSUS}: the builtin `{n}` is rebound at module level")
    plain = ast.FunctionDef(name=fn.name, args=fn.args, body=fn.body, decorator_list=[], returns=None,
                            type_comment=None, lineno=fn.lineno, col_offset=fn.col_offset)
    ast.copy_location(plain, fn)
    k = pyexpr.translate_function(plain, "popcount32b", [Param("row", NAT)], source_text=read_source(CENSUS), bitops=True)
    if k.ret_types != [NAT] or k.partial or k.raises:
        raise Unsupported(f"{CENSUS}: popcount32b is not a total function of a non-negative int: {k.ret_types}")
    k.origin = f"{CENSUS}: Census.popcount32b  (row: a non-negative int)"
    return k


# ------------------------------------------------------------------------------------------------
# the trace: every sub-expression, in evaluation order
# ------------------------------------------------------------------------------------------------
def subexpressions(e: Ex, out: list):
    """post-order (operands before the operation, left before right: Python's evaluation order); literals and plain
    variables are not listed (a variable was listed when it was computed; the parameter is the hypothesis)"""
    for a in e.args:
        subexpressions(a, out)
    if e.op not in ("lit", "var"):
        out.append(e)


def render_trace(k) -> str:
    lines = [f"def {k.lean_name}Trace (row : Nat) : List Nat :="]
    tree, n = k.tree, 0
    acc = "[]"
    while True:
        if isinstance(tree, Let):
            subs = []
            subexpressions(tree.value, subs)
            if any(s.ty != NAT for s in subs):
                raise Unsupported(f"{CENSUS}: popcount32b: a sub-expression is not a non-negative int")
            lines.append(f"  let pyTrace{n} : List Nat := {acc} ++ [" + ", ".join(pyexpr.lean_expr(s) for s in subs) + "]")
            lines.append(f"  let {tree.name} : Nat := {pyexpr.lean_expr(tree.value)}")
            acc = f"pyTrace{n}"
            n += 1
            tree = tree.body
        elif isinstance(tree, Ret):
            subs = []
            for v in tree.values:
                subexpressions(v, subs)
            lines.append(f"  {acc} ++ [" + ", ".join(pyexpr.lean_expr(s) for s in subs) + "]")
            return "\n".join(lines) + "\n"
        else:
            raise Unsupported(f"{CENSUS}: popcount32b is not a straight line of assignments ({type(tree).__name__})")


def trace_values(k, x: int) -> list:
    """the evaluator's reading of the same trace (used by the harness: every entry must stay below 2^32)"""
    env = {"row": x}
    out = []
    tree = k.tree
    while True:
        if isinstance(tree, Let):
            subs = []
            subexpressions(tree.value, subs)
            out += [pyexpr.ev(s, env) for s in subs]
            env = dict(env)
            env[tree.name] = pyexpr.ev(tree.value, env)
            tree = tree.body
        elif isinstance(tree, Ret):
            subs = []
            for v in tree.values:
                subexpressions(v, subs)
            return out + [pyexpr.ev(s, env) for s in subs]
        else:
            raise Unsupported("not a straight line")


def evaluate_array(k, xs):
    """the kernel on a whole array of arguments at once (numpy uint64 array or anything with the int operators): an
    independent, vectorised reading of the IR -> (results, largest value any sub-expression takes).  Used by the harness
    for the exhaustive comparison with the real function."""
    def ev(e, env):
        if e.op == "lit":
            return int(e.aux)
        if e.op == "var":
            return env[e.aux]
        a, b = (ev(x, env) for x in e.args)
        if e.op == "band":
            r = a & b
        elif e.op == "bor":
            r = a | b
        elif e.op == "bxor":
            r = a ^ b
        elif e.op == "shr":
            r = a >> b
        elif e.op == "shl":
            r = a << b
        elif e.op == "add":
            r = a + b
        elif e.op == "mul":
            r = a * b
        elif e.op == "nsub":
            if not (b <= a).all():
                raise pyexpr.TranslatorBug("a difference declared non-negative by the shape of its operands is negative")
            r = a - b
        else:
            raise Unsupported(f"evaluate_array: {e.op}")
        top[0] = max(top[0], int(r.max()) if hasattr(r, "max") else int(r))
        return r

    top = [0]
    env = {"row": xs}
    tree = k.tree
    while isinstance(tree, Let):
        v = ev(tree.value, env)
        env = dict(env)
        env[tree.name] = v
        tree = tree.body
    if not isinstance(tree, Ret) or len(tree.values) != 1:
        raise Unsupported("evaluate_array: not a straight line")
    return ev(tree.values[0], env), top[0]


# ------------------------------------------------------------------------------------------------
# self-test of the bit-operation extension of pyexpr (CPython vs evaluator in the harness, evaluator vs Lean in the
# generated file, refused constructs must raise Unsupported)
# ------------------------------------------------------------------------------------------------
SELFTEST_ACCEPTED = {
    "b_mix": ([Param("x", NAT), Param("y", NAT)], '''
def b_mix(x, y):
    """every operator of the extension, hex and decimal literals, a rebound parameter, guarded differences"""
    a = (x | y) - (x & y)
    b = (x ^ y) + (x << 3) * 5
    x -= x >> 2
    c = (x + y) - y
    return a, b & 0xFFFF, x, c - (c >> 1 & 0x0F), 7 - 2
''', [(0, 0), (1, 2), (0xFFFFFFFF, 0x0F0F0F0F), (12345, 54321), (2 ** 40 + 3, 2 ** 33 + 9)]),
}
SELFTEST_REFUSED = {
    "difference not seen non-negative": "def f(x, y):\n    return x - y\n",
    "difference with a larger shift operand": "def f(x, y):\n    return (x >> 1) - x\n",
    "difference from a literal": "def f(x, y):\n    return 5 - x\n",
    "negative literal": "def f(x, y):\n    return x & -1\n",
    "bitwise not": "def f(x, y):\n    return ~x\n",
    "comparison of nats": "def f(x, y):\n    return x < y\n",
    "floor division": "def f(x, y):\n    return x // 2\n",
    "modulo": "def f(x, y):\n    return x % 2\n",
    "true division": "def f(x, y):\n    return x / 2\n",
    "abs of a nat": "def f(x, y):\n    return abs(x)\n",
    "mixing with a float": "def f(x, y):\n    return x + 0.5\n",
    "power": "def f(x, y):\n    return x ** 2\n",
    "unary minus": "def f(x, y):\n    return -x\n",
    "truthiness": "def f(x, y):\n    if x & 1:\n        return x\n    return y\n",
}


def selftest_kernels():
    return {name: pyexpr.translate_function(ast.parse(text).body[0], name, params, source_text=text, bitops=True)
            for name, (params, text, _) in SELFTEST_ACCEPTED.items()}


def selftest_problems() -> list:
    """[] when the extension behaves: CPython == evaluator on the accepted functions; the refused ones raise Unsupported,
    and the accepted ones are refused without `bitops=True` (the extension is off by default)"""
    bad = []
    ks = selftest_kernels()
    for name, (params, text, inputs) in SELFTEST_ACCEPTED.items():
        env = {}
        exec(compile(text, f"<selftest {name}>", "exec"), env)  # pylint: disable=exec-used
        for args in inputs:
            want = env[name](*args)
            res, got = pyexpr.evaluate(ks[name], *args)
            if res != "ok" or list(got) != list(want) or any(type(v) is not int for v in got):
                bad.append(f"bit / {name}{args}: python {want} evaluator {res} {got}")
        try:
            pyexpr.translate_function(ast.parse(text).body[0], name, params, source_text=text)
            bad.append(f"bit / {name}: accepted without the generator's option")
        except Unsupported:
            pass
    for what, text in SELFTEST_REFUSED.items():
        try:
            pyexpr.translate_function(ast.parse(text).body[0], "f", [Param("x", NAT), Param("y", NAT)], source_text=text, bitops=True)
        except Unsupported:
            continue
        except Exception as exc:  # pylint: disable=broad-except
            bad.append(f"bit / {what}: {type(exc).__name__} instead of Unsupported")
            continue
        bad.append(f"bit / {what}: accepted")
    return bad


def render_selftest() -> list:
    lines = ["namespace Pandora.Generated.KernelsCensusSelfTest", ""]
    for name, k in selftest_kernels().items():
        text = SELFTEST_ACCEPTED[name][1].strip().replace("-/", "- /").replace("/-", "/ -")
        lines += ["/-", text, "-/", pyexpr.render_lean(k, always_partial=False)]
        for args in SELFTEST_ACCEPTED[name][2]:
            res, vals = pyexpr.evaluate(k, *args)
            lines.append(f"example : {name} " + " ".join(str(a) for a in args) + " = (" + ", ".join(str(v) for v in vals)
                         + ") := by decide +kernel")
        lines.append("")
    lines.append("end Pandora.Generated.KernelsCensusSelfTest")
    return lines


def render(k) -> str:
    from .gen_kernels import python_comment

    lines = [
        "-- GENERATED by translator/gen_kernels_census.py (translator/pyexpr.py) from the Python source. Do not edit.",
        "set_option linter.unusedVariables false",
        "namespace Pandora.Generated.KernelsCensus",
        "",
        f"/- {k.origin}",
        python_comment(k),
    ]
    for note in sorted(set(k.notes)):
        lines.append(f"   note: {note.replace('-/', '- /')}")
    lines.append("-/")
    lines.append(pyexpr.render_lean(k, always_partial=False))
    lines.append("/-- the value of every sub-expression `popcount32b` evaluates, in evaluation order -/")
    lines.append(render_trace(k))
    lines.append("-- what translator/pyexpr.py's own evaluator computes on a few inputs, checked here by evaluation")
    for x in GOLDEN:
        res, vals = pyexpr.evaluate(k, x)
        if res != "ok":
            raise Unsupported(f"popcount32b({x}) evaluates to {res}")
        lines.append(f"example : popcount32b {x} = {vals[0]} := by decide +kernel")
    for x in (0, 0b1011, 0xFFFFFFFF):
        lines.append(f"example : popcount32bTrace {x} = [" + ", ".join(str(v) for v in trace_values(k, x)) + "] := by decide +kernel")
    lines.append("")
    lines.append("end Pandora.Generated.KernelsCensus")
    lines.append("")
    lines.append("-- self-test of the bit-operation extension of translator/pyexpr.py: evaluator = Lean")
    lines += render_selftest()
    return "\n".join(lines) + "\n"


def generate():
    k = popcount_kernel()
    write_if_changed("KernelsCensus.lean", render(k))
    return {"T12-census": {"source": SRC, "digest": digest(*SRC), "kernels": ["popcount32b"]}}
