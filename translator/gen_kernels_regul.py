"""T14 (pair-scan nests): the connection scan of `pandora/interval_tools.py: create_connected_graph`
-> Generated/KernelsRegul.lean.

What is read, statement by statement (anything else raises Unsupported):

    n = len(A)                                             A a 2-D integer array parameter
    if depth == 0: <eye branch, not translated here>
    else:
        M = np.full((n, n), False, dtype=np.bool_)
        for i in prange(n) | range(n):
            x = <int expr>                                 scalar lets (may read A[i, c])
            for k in range(<i + c>, n):
                if <cond>: continue
                if <cond>: break
                if <cond>: M[i, k] = M[k, i] = True        (or `M[i, k] = True` alone) -- must be the last statement
        <the rest of the branch is not read by this extractor>

The conditions and the lets are TRANSLATED (integers: names, literals, `+ - *`, `A[v, c]` with `v` a loop variable and `c` a
literal; Booleans: one comparison, `& | and or not`) into the Lean function `connAct border_left border_right i k :
PyScanGraph.Act`; the control skeleton is `Model/PyScanGraph.lean`.  `evaluate` runs the SAME tree exactly (Python ints) and
is compared with the real compiled function by harness/props/C12.py on every run; the Lean text is compared with the
evaluator by generated `example`s.
"""
from __future__ import annotations

import ast

from .common import Unsupported, digest, find_function, parse, write_if_changed

NAME = "KernelsRegul"
SRC = "pandora/interval_tools.py"
FN = "create_connected_graph"
ARRAYS = ("border_left", "border_right")

CMP = {ast.Eq: "=", ast.NotEq: "≠", ast.Lt: "<", ast.LtE: "≤", ast.Gt: ">", ast.GtE: "≥"}
PYCMP = {"=": lambda a, b: a == b, "≠": lambda a, b: a != b, "<": lambda a, b: a < b, "≤": lambda a, b: a <= b,
         ">": lambda a, b: a > b, "≥": lambda a, b: a >= b}
ARI = {ast.Add: "+", ast.Sub: "-", ast.Mult: "*"}


class Reader:
    def __init__(self, loop_vars, lets, arrays=None):
        self.loop_vars = loop_vars  # python name -> lean name (naturals)
        self.lets = lets            # python names of integer lets
        self.arrays = ARRAYS if arrays is None else arrays

    def int_expr(self, e):
        if isinstance(e, ast.Constant) and isinstance(e.value, int) and not isinstance(e.value, bool):
            return ("lit", e.value)
        if isinstance(e, ast.Name):
            if e.id in self.loop_vars:
                return ("nat", e.id)
            if e.id in self.lets:
                return ("let", e.id)
            raise Unsupported(f"{FN}: unknown name `{e.id}` in an integer expression")
        if isinstance(e, ast.UnaryOp) and isinstance(e.op, ast.USub):
            return ("neg", self.int_expr(e.operand))
        if isinstance(e, ast.BinOp) and type(e.op) in ARI:
            return ("ari", ARI[type(e.op)], self.int_expr(e.left), self.int_expr(e.right))
        if isinstance(e, ast.Subscript) and isinstance(e.value, ast.Name) and e.value.id in self.arrays:
            idx = e.slice.elts if isinstance(e.slice, ast.Tuple) else None
            if idx and len(idx) == 2 and isinstance(idx[0], ast.Name) and idx[0].id in self.loop_vars \
                    and isinstance(idx[1], ast.Constant) and isinstance(idx[1].value, int) and idx[1].value >= 0:
                return ("get", e.value.id, idx[0].id, idx[1].value)
        raise Unsupported(f"{FN}: integer expression outside the subset: `{ast.unparse(e)}`")

    def bool_expr(self, e):
        if isinstance(e, ast.Compare) and len(e.ops) == 1 and type(e.ops[0]) in CMP:
            return ("cmp", CMP[type(e.ops[0])], self.int_expr(e.left), self.int_expr(e.comparators[0]))
        if isinstance(e, ast.BinOp) and isinstance(e.op, (ast.BitAnd, ast.BitOr)):
            return ("and" if isinstance(e.op, ast.BitAnd) else "or", self.bool_expr(e.left), self.bool_expr(e.right))
        if isinstance(e, ast.BoolOp):
            out = self.bool_expr(e.values[0])
            for v in e.values[1:]:
                out = ("and" if isinstance(e.op, ast.And) else "or", out, self.bool_expr(v))
            return out
        if isinstance(e, ast.UnaryOp) and isinstance(e.op, ast.Not):
            return ("not", self.bool_expr(e.operand))
        raise Unsupported(f"{FN}: condition outside the subset: `{ast.unparse(e)}`")


CELL_STYLE = "fun"   # "fun": arrays are index functions; "agg": (n, 2) coordinate lists read with PyAgg.cell


def lean_int(e) -> str:
    k = e[0]
    if k == "get" and CELL_STYLE == "agg":
        return f"(PyAgg.cell {e[1]} {e[2]} {e[3]})"
    if k == "lit":
        return f"({e[1]} : Int)"
    if k == "nat":
        return f"({e[1]} : Int)"
    if k == "let":
        return e[1]
    if k == "neg":
        return f"(-{lean_int(e[1])})"
    if k == "ari":
        return f"({lean_int(e[2])} {e[1]} {lean_int(e[3])})"
    if k == "get":
        return f"({e[1]} {e[2]} {e[3]})"
    raise AssertionError(e)


def lean_bool(e) -> str:
    k = e[0]
    if k == "cmp":
        return f"(decide ({lean_int(e[2])} {e[1]} {lean_int(e[3])}))"
    if k in ("and", "or"):
        return f"({lean_bool(e[1])} {'&&' if k == 'and' else '||'} {lean_bool(e[2])})"
    if k == "not":
        return f"(!{lean_bool(e[1])})"
    raise AssertionError(e)


def ev_int(e, env, arrays):
    k = e[0]
    if k == "lit":
        return e[1]
    if k in ("nat", "let"):
        return env[e[1]]
    if k == "neg":
        return -ev_int(e[1], env, arrays)
    if k == "ari":
        a, b = ev_int(e[2], env, arrays), ev_int(e[3], env, arrays)
        return a + b if e[1] == "+" else a - b if e[1] == "-" else a * b
    if k == "get":
        return arrays[e[1]][env[e[2]]][e[3]]
    raise AssertionError(e)


def ev_bool(e, env, arrays):
    k = e[0]
    if k == "cmp":
        return PYCMP[e[1]](ev_int(e[2], env, arrays), ev_int(e[3], env, arrays))
    if k == "and":
        return ev_bool(e[1], env, arrays) and ev_bool(e[2], env, arrays)
    if k == "or":
        return ev_bool(e[1], env, arrays) or ev_bool(e[2], env, arrays)
    if k == "not":
        return not ev_bool(e[1], env, arrays)
    raise AssertionError(e)


def is_call(e, names, attr=None):
    if not isinstance(e, ast.Call):
        return False
    f = e.func
    if attr is None:
        return isinstance(f, ast.Name) and f.id in names
    return isinstance(f, ast.Attribute) and f.attr == attr and isinstance(f.value, ast.Name) and f.value.id in names


def check_njit(fn):
    for d in fn.decorator_list:
        call = d if isinstance(d, ast.Call) else None
        f = call.func if call else d
        name = f.id if isinstance(f, ast.Name) else (f.attr if isinstance(f, ast.Attribute) else None)
        if name not in ("njit", "jit"):
            raise Unsupported(f"{FN}: unknown decorator `{ast.unparse(d)}`")
        for kw in (call.keywords if call else []):
            if kw.arg not in ("parallel", "cache"):
                raise Unsupported(f"{FN}: `{kw.arg}=` may change the semantics")


_SOURCE_OVERRIDE = None  # self-test: a rewritten source text instead of the file


def module():
    return ast.parse(_SOURCE_OVERRIDE) if _SOURCE_OVERRIDE is not None else parse(SRC)


def extract():
    fn = find_function(module(), FN)
    check_njit(fn)
    params = [a.arg for a in fn.args.args]
    if params[:2] != list(ARRAYS) or len(params) != 3:
        raise Unsupported(f"{FN}: parameters {params}")
    depth = params[2]
    body = [s for s in fn.body if not (isinstance(s, ast.Expr) and isinstance(getattr(s, "value", None), ast.Constant))]
    # n = len(border_left)
    n_name = None
    for s in body:
        if isinstance(s, ast.Assign) and len(s.targets) == 1 and isinstance(s.targets[0], ast.Name) and is_call(s.value, ("len",)) \
                and len(s.value.args) == 1 and isinstance(s.value.args[0], ast.Name) and s.value.args[0].id == ARRAYS[0]:
            n_name = s.targets[0].id
    if n_name is None:
        raise Unsupported(f"{FN}: `n = len({ARRAYS[0]})` not found")
    top_if = [s for s in body if isinstance(s, ast.If)]
    if len(top_if) != 1:
        raise Unsupported(f"{FN}: expected one top-level if on the depth")
    t = top_if[0].test
    if not (isinstance(t, ast.Compare) and len(t.ops) == 1 and isinstance(t.ops[0], ast.Eq) and isinstance(t.left, ast.Name)
            and t.left.id == depth and isinstance(t.comparators[0], ast.Constant) and t.comparators[0].value == 0):
        raise Unsupported(f"{FN}: the top-level test is not `{depth} == 0`")
    branch = top_if[0].orelse
    # M = np.full((n, n), False, dtype=np.bool_) ; the first loop nest that stores into M
    if not (branch and isinstance(branch[0], ast.Assign) and len(branch[0].targets) == 1 and isinstance(branch[0].targets[0], ast.Name)):
        raise Unsupported(f"{FN}: the else branch does not start with the allocation of the connection matrix")
    mat = branch[0].targets[0].id
    alloc = branch[0].value
    ok = (is_call(alloc, ("np", "numpy"), "full") and len(alloc.args) >= 2 and isinstance(alloc.args[0], ast.Tuple)
          and [getattr(x, "id", None) for x in alloc.args[0].elts] == [n_name, n_name]
          and isinstance(alloc.args[1], ast.Constant) and alloc.args[1].value is False)
    if not ok:
        raise Unsupported(f"{FN}: `{mat}` is not allocated as np.full(({n_name}, {n_name}), False, …)")
    outer = branch[1] if len(branch) > 1 else None
    if not (isinstance(outer, ast.For) and isinstance(outer.target, ast.Name) and is_call(outer.iter, ("prange", "range"))
            and len(outer.iter.args) == 1 and isinstance(outer.iter.args[0], ast.Name) and outer.iter.args[0].id == n_name
            and not outer.orelse):
        raise Unsupported(f"{FN}: the outer loop is not `for i in prange({n_name})`")
    i = outer.target.id
    lets, let_tree = [], []
    rd = Reader({i: i}, lets)
    inner = None
    for s in outer.body:
        if isinstance(s, ast.Assign) and len(s.targets) == 1 and isinstance(s.targets[0], ast.Name) and inner is None:
            if s.targets[0].id in lets or s.targets[0].id in (i, mat, n_name) + tuple(params):
                raise Unsupported(f"{FN}: `{s.targets[0].id}` is rebound")
            let_tree.append((s.targets[0].id, rd.int_expr(s.value)))
            lets.append(s.targets[0].id)
        elif isinstance(s, ast.For) and inner is None:
            inner = s
        else:
            raise Unsupported(f"{FN}: statement outside the subset in the outer loop: `{ast.unparse(s)[:60]}`")
    if inner is None or inner.orelse or not isinstance(inner.target, ast.Name):
        raise Unsupported(f"{FN}: inner loop not found")
    k = inner.target.id
    it = inner.iter
    if not (is_call(it, ("range",)) and len(it.args) == 2 and isinstance(it.args[1], ast.Name) and it.args[1].id == n_name):
        raise Unsupported(f"{FN}: the inner loop is not `for {k} in range(lo, {n_name})`")
    lo = it.args[0]
    if isinstance(lo, ast.Name) and lo.id == i:
        lo_c = 0
    elif isinstance(lo, ast.BinOp) and isinstance(lo.op, ast.Add) and isinstance(lo.left, ast.Name) and lo.left.id == i \
            and isinstance(lo.right, ast.Constant) and isinstance(lo.right.value, int) and lo.right.value >= 0:
        lo_c = lo.right.value
    else:
        raise Unsupported(f"{FN}: lower bound of the inner loop is not `{i} + c`")
    rd = Reader({i: i, k: k}, lets)
    acts = []
    for pos, s in enumerate(inner.body):
        if not (isinstance(s, ast.If) and not s.orelse and len(s.body) == 1):
            raise Unsupported(f"{FN}: inner statement is not a one-armed `if`: `{ast.unparse(s)[:60]}`")
        cond = rd.bool_expr(s.test)
        a = s.body[0]
        if isinstance(a, ast.Continue):
            acts.append((cond, "skip"))
        elif isinstance(a, ast.Break):
            acts.append((cond, "stop"))
        elif isinstance(a, ast.Assign) and isinstance(a.value, ast.Constant) and a.value.value is True:
            if pos != len(inner.body) - 1:
                raise Unsupported(f"{FN}: the store is not the last statement of the scan")
            cells = set()
            for tg in a.targets:
                if not (isinstance(tg, ast.Subscript) and isinstance(tg.value, ast.Name) and tg.value.id == mat
                        and isinstance(tg.slice, ast.Tuple) and len(tg.slice.elts) == 2
                        and all(isinstance(x, ast.Name) and x.id in (i, k) for x in tg.slice.elts)):
                    raise Unsupported(f"{FN}: store target outside the subset: `{ast.unparse(tg)}`")
                cells.add(tuple(x.id for x in tg.slice.elts))
            if cells == {(i, k), (k, i)}:
                kind = "symMatrix"
            elif cells == {(i, k)}:
                kind = "upperMatrix"
            else:
                raise Unsupported(f"{FN}: stored cells {sorted(cells)}")
            acts.append((cond, "mark"))
        else:
            raise Unsupported(f"{FN}: action outside the subset: `{ast.unparse(a)[:60]}`")
    if not acts or acts[-1][1] != "mark":
        raise Unsupported(f"{FN}: the scan does not end with the store")
    return {"i": i, "k": k, "lets": let_tree, "acts": acts, "lo": lo_c, "matrix": kind,
            "source": ast.unparse(outer).replace("-/", "- /").replace("/-", "/ -")}


# ------------------------------------------------------------------------------------------------
# second nest: Boolean row programs
#     A = np.full((n, n), False, dtype=np.bool_)
#     for i in prange(M.shape[0] | n):
#         v = M[i, :].copy()
#         for _ in range(a, depth):
#             P = M[v, :].copy()
#             for j in prange(M.shape[0] | n):
#                 v[j] = <bool expr over P[:, j].any(), v[j]>
#         A[i, :] = v.copy()
#         A[i, i] = 1 | True
#     return A
# ------------------------------------------------------------------------------------------------
def strip_copy(e):
    if isinstance(e, ast.Call) and isinstance(e.func, ast.Attribute) and e.func.attr == "copy" and not e.args and not e.keywords:
        return e.func.value, True
    return e, False


class RowReader:
    def __init__(self, n_name, conn, depth):
        self.n_name, self.conn, self.depth = n_name, conn, depth

    def is_n(self, e):
        """`n` or `M.shape[0]` of the (n, n) connection matrix"""
        if isinstance(e, ast.Name) and e.id == self.n_name:
            return True
        return (isinstance(e, ast.Subscript) and isinstance(e.value, ast.Attribute) and e.value.attr == "shape"
                and isinstance(e.value.value, ast.Name) and e.value.value.id == self.conn
                and isinstance(e.slice, ast.Constant) and e.slice.value in (0, 1))

    def full_loop(self, node):
        if not (isinstance(node, ast.For) and isinstance(node.target, ast.Name) and is_call(node.iter, ("prange", "range"))
                and len(node.iter.args) == 1 and self.is_n(node.iter.args[0]) and not node.orelse):
            raise Unsupported(f"{FN}: not a loop over the {self.n_name} rows: `{ast.unparse(node)[:60]}`")
        return node.target.id

    def bexpr(self, e, vec, mats, j):
        """Boolean cell expression inside `for j`: reads `vec[j]` and `P[:, j].any()` only"""
        if isinstance(e, ast.Call) and isinstance(e.func, ast.Attribute) and e.func.attr in ("bitwise_or", "logical_or", "bitwise_and", "logical_and") \
                and isinstance(e.func.value, ast.Name) and e.func.value.id in ("np", "numpy") and len(e.args) == 2:
            return ("or" if e.func.attr.endswith("or") else "and", self.bexpr(e.args[0], vec, mats, j), self.bexpr(e.args[1], vec, mats, j))
        if isinstance(e, ast.BinOp) and isinstance(e.op, (ast.BitOr, ast.BitAnd)):
            return ("or" if isinstance(e.op, ast.BitOr) else "and", self.bexpr(e.left, vec, mats, j), self.bexpr(e.right, vec, mats, j))
        if isinstance(e, ast.BoolOp):
            out = self.bexpr(e.values[0], vec, mats, j)
            for v in e.values[1:]:
                out = ("or" if isinstance(e.op, ast.Or) else "and", out, self.bexpr(v, vec, mats, j))
            return out
        if isinstance(e, ast.Subscript) and isinstance(e.value, ast.Name) and e.value.id == vec and isinstance(e.slice, ast.Name) and e.slice.id == j:
            return ("cell", vec)
        if isinstance(e, ast.Call) and isinstance(e.func, ast.Attribute) and e.func.attr == "any" and not e.args and not e.keywords:
            c = e.func.value
            if isinstance(c, ast.Subscript) and isinstance(c.value, ast.Name) and c.value.id in mats and isinstance(c.slice, ast.Tuple) \
                    and len(c.slice.elts) == 2 and isinstance(c.slice.elts[0], ast.Slice) and c.slice.elts[0].lower is None \
                    and c.slice.elts[0].upper is None and c.slice.elts[0].step is None and isinstance(c.slice.elts[1], ast.Name) and c.slice.elts[1].id == j:
                return ("anycol", c.value.id)
        raise Unsupported(f"{FN}: Boolean cell expression outside the subset: `{ast.unparse(e)}`")

    def read(self, alloc, loop, ret):
        # A = np.full((n, n), False, …)
        if not (isinstance(alloc, ast.Assign) and len(alloc.targets) == 1 and isinstance(alloc.targets[0], ast.Name)
                and is_call(alloc.value, ("np", "numpy"), "full") and len(alloc.value.args) >= 2 and isinstance(alloc.value.args[0], ast.Tuple)
                and [getattr(x, "id", None) for x in alloc.value.args[0].elts] == [self.n_name, self.n_name]
                and isinstance(alloc.value.args[1], ast.Constant) and alloc.value.args[1].value is False):
            raise Unsupported(f"{FN}: the aggregated matrix is not allocated as np.full(({self.n_name}, {self.n_name}), False, …)")
        out = alloc.targets[0].id
        i = self.full_loop(loop)
        body = loop.body
        if len(body) != 4:
            raise Unsupported(f"{FN}: the row loop has {len(body)} statements, expected 4")
        # v = M[i, :].copy()
        s0 = body[0]
        src_, copied = strip_copy(s0.value) if isinstance(s0, ast.Assign) else (None, False)
        if not (isinstance(s0, ast.Assign) and len(s0.targets) == 1 and isinstance(s0.targets[0], ast.Name) and copied
                and isinstance(src_, ast.Subscript) and isinstance(src_.value, ast.Name) and src_.value.id == self.conn
                and isinstance(src_.slice, ast.Tuple) and len(src_.slice.elts) == 2 and isinstance(src_.slice.elts[0], ast.Name)
                and src_.slice.elts[0].id == i and isinstance(src_.slice.elts[1], ast.Slice) and src_.slice.elts[1].lower is None
                and src_.slice.elts[1].upper is None):
            raise Unsupported(f"{FN}: the row loop does not start with `v = {self.conn}[{i}, :].copy()` (a copy is required: the row is updated in place)")
        vec = s0.targets[0].id
        # for _ in range(a, depth):
        it = body[1]
        if not (isinstance(it, ast.For) and isinstance(it.target, ast.Name) and is_call(it.iter, ("range",)) and len(it.iter.args) == 2
                and isinstance(it.iter.args[0], ast.Constant) and isinstance(it.iter.args[0].value, int) and it.iter.args[0].value >= 0
                and isinstance(it.iter.args[1], ast.Name) and it.iter.args[1].id == self.depth and not it.orelse and len(it.body) == 2):
            raise Unsupported(f"{FN}: the iteration is not `for _ in range(a, {self.depth})` with two statements")
        start = it.iter.args[0].value
        if any(isinstance(nd, ast.Name) and nd.id == it.target.id for st in it.body for nd in ast.walk(st)):
            raise Unsupported(f"{FN}: the iteration counter is read")
        # P = M[v, :].copy()
        s1 = it.body[0]
        src_, copied = strip_copy(s1.value) if isinstance(s1, ast.Assign) else (None, False)
        if not (isinstance(s1, ast.Assign) and len(s1.targets) == 1 and isinstance(s1.targets[0], ast.Name) and copied
                and isinstance(src_, ast.Subscript) and isinstance(src_.value, ast.Name) and src_.value.id == self.conn
                and isinstance(src_.slice, ast.Tuple) and len(src_.slice.elts) == 2 and isinstance(src_.slice.elts[0], ast.Name)
                and src_.slice.elts[0].id == vec and isinstance(src_.slice.elts[1], ast.Slice) and src_.slice.elts[1].lower is None
                and src_.slice.elts[1].upper is None):
            raise Unsupported(f"{FN}: expected `P = {self.conn}[{vec}, :].copy()` (a copy is required: `{vec}` is updated in place afterwards)")
        sel = s1.targets[0].id
        jl = it.body[1]
        j = self.full_loop(jl)
        if not (len(jl.body) == 1 and isinstance(jl.body[0], ast.Assign) and len(jl.body[0].targets) == 1):
            raise Unsupported(f"{FN}: the cell loop is not one assignment")
        tg = jl.body[0].targets[0]
        if not (isinstance(tg, ast.Subscript) and isinstance(tg.value, ast.Name) and tg.value.id == vec and isinstance(tg.slice, ast.Name) and tg.slice.id == j):
            raise Unsupported(f"{FN}: the cell loop does not store `{vec}[{j}]`")
        cell = self.bexpr(jl.body[0].value, vec, (sel,), j)
        # A[i, :] = v.copy() ; A[i, i] = 1
        s2, s3 = body[2], body[3]
        val, _ = strip_copy(s2.value) if isinstance(s2, ast.Assign) else (None, False)
        t2 = s2.targets[0] if isinstance(s2, ast.Assign) and len(s2.targets) == 1 else None
        if not (isinstance(t2, ast.Subscript) and isinstance(t2.value, ast.Name) and t2.value.id == out and isinstance(t2.slice, ast.Tuple)
                and len(t2.slice.elts) == 2 and isinstance(t2.slice.elts[0], ast.Name) and t2.slice.elts[0].id == i
                and isinstance(t2.slice.elts[1], ast.Slice) and t2.slice.elts[1].lower is None and t2.slice.elts[1].upper is None
                and isinstance(val, ast.Name) and val.id == vec):
            raise Unsupported(f"{FN}: expected `{out}[{i}, :] = {vec}.copy()`")
        t3 = s3.targets[0] if isinstance(s3, ast.Assign) and len(s3.targets) == 1 else None
        if not (isinstance(t3, ast.Subscript) and isinstance(t3.value, ast.Name) and t3.value.id == out and isinstance(t3.slice, ast.Tuple)
                and [getattr(x, "id", None) for x in t3.slice.elts] == [i, i] and isinstance(s3.value, ast.Constant)
                and s3.value.value in (1, True)):
            raise Unsupported(f"{FN}: expected `{out}[{i}, {i}] = 1`")
        if not (isinstance(ret, ast.Return) and isinstance(ret.value, ast.Name) and ret.value.id == out):
            raise Unsupported(f"{FN}: does not return `{out}`")
        return {"out": out, "i": i, "j": j, "vec": vec, "sel": sel, "start": start, "cell": cell,
                "source": ast.unparse(loop).replace("-/", "- /").replace("/-", "/ -")}


def lean_cell(e, j) -> str:
    if e[0] in ("or", "and"):
        return f"({lean_cell(e[1], j)} {'||' if e[0] == 'or' else '&&'} {lean_cell(e[2], j)})"
    if e[0] == "cell":
        return f"({e[1]}.getD {j} false)"
    if e[0] == "anycol":
        return f"(PyScanGraph.anyCol {e[1]} {j})"
    raise AssertionError(e)


def ev_cell(e, vec, sel, j):
    if e[0] == "or":
        return ev_cell(e[1], vec, sel, j) or ev_cell(e[2], vec, sel, j)
    if e[0] == "and":
        return ev_cell(e[1], vec, sel, j) and ev_cell(e[2], vec, sel, j)
    if e[0] == "cell":
        return vec[j]
    if e[0] == "anycol":
        return any(r[j] for r in sel)
    raise AssertionError(e)


def extract_whole():
    """the whole function: the eye branch, the connection scan, the closure nest"""
    x = extract()
    fn = find_function(module(), FN)
    body = [s for s in fn.body if not (isinstance(s, ast.Expr) and isinstance(getattr(s, "value", None), ast.Constant))]
    depth = fn.args.args[2].arg
    top = [s for s in body if isinstance(s, ast.If)][0]
    n_name = [s.targets[0].id for s in body if isinstance(s, ast.Assign) and is_call(s.value, ("len",))][0]
    if [type(s) for s in body] != [ast.Assign, ast.If, ast.Return]:
        raise Unsupported(f"{FN}: top level is not `n = len(..)`, `if {depth} == 0`, `return`")
    # eye branch
    if not (len(top.body) == 1 and isinstance(top.body[0], ast.Assign) and len(top.body[0].targets) == 1
            and is_call(top.body[0].value, ("np", "numpy"), "eye") and len(top.body[0].value.args) == 1
            and isinstance(top.body[0].value.args[0], ast.Name) and top.body[0].value.args[0].id == n_name):
        raise Unsupported(f"{FN}: the `{depth} == 0` branch is not `np.eye({n_name}, …)`")
    branch = top.orelse
    if len(branch) != 4:
        raise Unsupported(f"{FN}: the else branch has {len(branch)} statements, expected 4 (allocation, scan, allocation, closure)")
    conn = branch[0].targets[0].id
    w = RowReader(n_name, conn, depth).read(branch[2], branch[3], body[2])
    if top.body[0].targets[0].id != w["out"]:
        raise Unsupported(f"{FN}: the two branches do not bind the returned matrix")
    x["closure"] = w
    x["conn"] = conn
    x["depth"] = depth
    return x


def evaluate_whole(x, border_left, border_right, depth: int):
    n = len(border_left)
    if depth == 0:
        return [[a == b for b in range(n)] for a in range(n)]
    conn = evaluate(x, border_left, border_right)
    w = x["closure"]
    out = []
    for i in range(n):
        vec = list(conn[i])
        for _ in range(w["start"], depth):
            sel = [list(conn[r]) for r in range(n) if vec[r]]
            vec = [bool(ev_cell(w["cell"], vec, sel, j)) for j in range(n)]
        vec[i] = True
        out.append(vec)
    return out


def evaluate(x, border_left, border_right):
    """the connection matrix as the SAME tree says (exact integers)"""
    arrays = {ARRAYS[0]: border_left, ARRAYS[1]: border_right}
    n = len(border_left)
    rows = []
    for i in range(n):
        env = {x["i"]: i}
        for name, e in x["lets"]:
            env[name] = ev_int(e, env, arrays)
        row, stopped = [], False
        for k in range(i + x["lo"], n):
            env[x["k"]] = k
            act = "skip"
            if not stopped:
                for cond, a in x["acts"]:
                    if ev_bool(cond, env, arrays):
                        act = a
                        break
            if act == "stop":
                stopped = True
            row.append(act == "mark")
        rows.append(row)

    def marked(a, b):
        lo = a + x["lo"]
        return lo <= b and b - lo < len(rows[a]) and rows[a][b - lo]
    sym = x["matrix"] == "symMatrix"
    return [[bool(marked(a, b) or (sym and marked(b, a))) for b in range(n)] for a in range(n)]


GOLDEN = [
    ([[0, 0], [0, 5], [1, 1], [1, 6], [2, 0], [4, 0]], [[0, 2], [0, 7], [1, 4], [1, 9], [2, 1], [4, 3]]),
    ([[0, 3], [1, 0], [1, 4], [2, 2]], [[0, 3], [1, 2], [1, 6], [2, 5]]),
    ([], []),
    ([[3, 1]], [[3, 1]]),
]


def lean_fun(rows) -> str:
    """an (n, 2) integer array as a total index function"""
    if not rows:
        return "(fun _ _ => (0 : Int))"
    return "(fun a c => ((" + "[" + ", ".join("[" + ", ".join(f"({v} : Int)" for v in r) + "]" for r in rows) + "] : List (List Int)).getD a []).getD c 0)"


def render(x) -> str:
    i, k = x["i"], x["k"]
    lines = [
        "-- GENERATED by translator/gen_kernels_regul.py from pandora/interval_tools.py. Do not edit.",
        "import PandoraModel.Model.PyScanGraph",
        "import PandoraModel.Model.PyAgg",
        "import PandoraModel.Model.PyRows",
        "set_option linter.unusedVariables false",
        "namespace Pandora.Generated.KernelsRegul",
        "open Pandora",
        "",
        f"/- pandora/interval_tools.py: {FN}, the connection scan (else branch of `depth == 0`):",
        x["source"],
        "-/",
        f"def connAct ({ARRAYS[0]} {ARRAYS[1]} : Nat → Nat → Int) ({i} {k} : Nat) : PyScanGraph.Act :=",
    ]
    for name, e in x["lets"]:
        lines.append(f"  let {name} : Int := {lean_int(e)}")
    for cond, a in x["acts"]:
        lines.append(f"  if {lean_bool(cond)} then PyScanGraph.Act.{a} else")
    lines.append("  PyScanGraph.Act.skip")
    lines += [
        "",
        f"/-- the first `{k}` visited by iteration `{i}` -/",
        f"def connLo ({i} : Nat) : Nat := {i} + {x['lo']}",
        "",
        f"/-- the Boolean row of iteration `{i}`: one entry per visited `{k}` -/",
        f"def connRow (n : Nat) ({ARRAYS[0]} {ARRAYS[1]} : Nat → Nat → Int) ({i} : Nat) : List Bool :=",
        f"  PyScanGraph.scanBools (connAct {ARRAYS[0]} {ARRAYS[1]} {i}) (PyScanGraph.rangeFrom (connLo {i}) n)",
        "",
        "/-- `connection_graph` after the nest -/",
        f"def connectionGraph (n : Nat) ({ARRAYS[0]} {ARRAYS[1]} : Nat → Nat → Int) : List (List Bool) :=",
        f"  PyScanGraph.{x['matrix']} n connLo (connRow n {ARRAYS[0]} {ARRAYS[1]})",
        "",
        "-- what the translator's own evaluator computes on a few segment lists, checked here by evaluation",
    ]
    for bl, br in GOLDEN:
        m = evaluate(x, bl, br)
        rhs = "[" + ", ".join("[" + ", ".join("true" if v else "false" for v in r) + "]" for r in m) + "]"
        lines.append(f"example : connectionGraph {len(bl)} {lean_fun(bl)} {lean_fun(br)} = {rhs} := by decide +kernel")
    w = x["closure"]
    d, conn = x["depth"], x["conn"]
    lines += [
        "",
        f"/- the closure nest of {FN}:",
        w["source"],
        "-/",
        f"def closeRow (n {d} : Nat) ({conn} : List (List Bool)) ({w['i']} : Nat) : List Bool :=",
        f"  let {w['vec']} : List Bool := PyScanGraph.rowOf {conn} {w['i']}",
        f"  let {w['vec']} : List Bool := PyScanGraph.iter (fun ({w['vec']} : List Bool) =>",
        f"      let {w['sel']} : List (List Bool) := PyScanGraph.selectRows {conn} {w['vec']}",
        f"      PyScanGraph.tabulateB n (fun ({w['j']} : Nat) => {lean_cell(w['cell'], w['j'])})) ({d} - {w['start']}) {w['vec']}",
        f"  {w['vec']}.set {w['i']} true",
        "",
        f"/-- `{FN}(border_left, border_right, {d})` (a non-negative depth) -/",
        f"def createConnectedGraph (n : Nat) ({ARRAYS[0]} {ARRAYS[1]} : Nat → Nat → Int) ({d} : Nat) : List (List Bool) :=",
        f"  if {d} = 0 then PyScanGraph.eye n",
        f"  else",
        f"    let {conn} : List (List Bool) := connectionGraph n {ARRAYS[0]} {ARRAYS[1]}",
        f"    (List.range n).map (closeRow n {d} {conn})",
        "",
    ]
    for bl, br in GOLDEN[:2]:
        for depth in (0, 1, 2, 3):
            m = evaluate_whole(x, bl, br, depth)
            rhs = "[" + ", ".join("[" + ", ".join("true" if v else "false" for v in r) + "]" for r in m) + "]"
            lines.append(f"example : createConnectedGraph {len(bl)} {lean_fun(bl)} {lean_fun(br)} {depth} = {rhs} := by decide +kernel")
    lines.append(render_graphreg(extract_graphreg()))
    lines.append(render_borders(extract_borders()))
    lines += ["", "end Pandora.Generated.KernelsRegul"]
    return "\n".join(lines) + "\n"


# ---- self-test: rewrites of the present source that must be REFUSED, and rewrites that must read as the same function
REFUSED = [
    ("row copy dropped (the connection matrix would be updated in place)", "list_lines = connection_graph[i, :].copy()", "list_lines = connection_graph[i, :]"),
    ("selection copy dropped", "new_points = connection_graph[list_lines, :].copy()", "new_points = connection_graph[list_lines, :]"),
    ("store of another cell", "connection_graph[i, k] = connection_graph[k, i] = True", "connection_graph[i, k] = connection_graph[k, k] = True"),
    ("store of False", "connection_graph[i, k] = connection_graph[k, i] = True", "connection_graph[i, k] = connection_graph[k, i] = False"),
    ("step in the scan range", "for k in range(i + 1, n_segments):", "for k in range(i + 1, n_segments, 2):"),
    ("lower bound not i + c", "for k in range(i + 1, n_segments):", "for k in range(depth, n_segments):"),
    ("call in a condition", "if border_left[k, 0] == row_i:", "if abs(border_left[k, 0]) == row_i:"),
    ("float literal in a condition", "if border_left[k, 0] > row_i + 1:", "if border_left[k, 0] > row_i + 1.5:"),
    ("else arm in the scan", "                    break\n", "                    break\n                else:\n                    pass\n"),
    ("diagonal not set", "            aggregated_graph[i, i] = 1\n", ""),
    ("diagonal set to 0", "aggregated_graph[i, i] = 1", "aggregated_graph[i, i] = 0"),
    ("cell loop reads another cell", "np.bitwise_or(new_points[:, j].any(), list_lines[j])", "np.bitwise_or(new_points[:, j].any(), list_lines[i])"),
    ("iteration bound not the depth", "for _ in range(1, depth):", "for _ in range(1, n_segments):"),
    ("identity branch changed", "np.eye(n_segments, dtype=np.bool_)", "np.ones((n_segments, n_segments), dtype=np.bool_)"),
    ("depth test changed", "if depth == 0:", "if depth == 1:"),
    ("fastmath", 'parallel=literal_eval(os.environ.get("PANDORA_NUMBA_PARALLEL", "True")))\ndef create_connected_graph',
     'parallel=literal_eval(os.environ.get("PANDORA_NUMBA_PARALLEL", "True")), fastmath=True)\ndef create_connected_graph'),
]
SAME = [
    ("commuted comparisons, `and`", [("if border_left[k, 0] == row_i:", "if row_i == border_left[k, 0]:"),
                                     ("if border_left[k, 0] > row_i + 1:", "if 1 + row_i < border_left[k, 0]:"),
                                     (") & (border_right[k, 1]", ") and (border_right[k, 1]")]),
    ("`|`, commuted or, n for shape[0]", [("np.bitwise_or(new_points[:, j].any(), list_lines[j])", "list_lines[j] | new_points[:, j].any()"),
                                         ("for j in prange(connection_graph.shape[0]):", "for j in range(n_segments):")]),
]


def selftest():
    """-> list of problems (empty: every rewrite of REFUSED raises Unsupported, every rewrite of SAME reads as the same function)"""
    global _SOURCE_OVERRIDE
    import os
    import random

    from .common import REPO

    with open(os.path.join(REPO, SRC), encoding="utf-8") as f:
        text = f.read()
    problems = []
    try:
        base = extract_whole()
    except Unsupported:
        return []  # the present source is outside the subset: reported by generate()
    rng = random.Random(5)
    cases = []
    for _ in range(40):
        n = rng.randint(0, 6)
        segs = sorted((rng.randint(0, 3), rng.randint(0, 5), rng.randint(0, 3)) for _ in range(n))
        cases.append(([[r, c] for r, c, _ in segs], [[r, c + w] for r, c, w in segs], rng.randint(0, 3)))
    try:
        for why, a, b in REFUSED:
            if text.count(a) != 1:
                continue  # the present source is itself a rewrite: this entry does not apply
            _SOURCE_OVERRIDE = text.replace(a, b)
            try:
                extract_whole()
                problems.append(f"accepted a construct that must be refused: {why}")
            except Unsupported:
                pass
            except SyntaxError as exc:
                problems.append(f"self-test rewrite is not Python ({why}): {exc}")
        for why, reps in SAME:
            t = text
            if any(t.count(a) != 1 for a, _ in reps):
                continue
            for a, b in reps:
                t = t.replace(a, b)
            _SOURCE_OVERRIDE = t
            try:
                x = extract_whole()
            except Unsupported as exc:
                problems.append(f"refused a harmless rewrite ({why}): {exc}")
                continue
            for bl, br, d in cases:
                if evaluate_whole(x, bl, br, d) != evaluate_whole(base, bl, br, d):
                    problems.append(f"harmless rewrite ({why}) reads as another function on {bl} {br} depth {d}")
                    break
    finally:
        _SOURCE_OVERRIDE = None
    return problems


# ------------------------------------------------------------------------------------------------
# graph_regularization: the aggregation loop
# ------------------------------------------------------------------------------------------------
GFN = "graph_regularization"


def _u(node):
    return ast.unparse(node)


def rat_expr(e, qname):
    """the quantile argument: `quantile`, literals, + - *"""
    if isinstance(e, ast.Name) and e.id == qname:
        return ("q",)
    if isinstance(e, ast.Constant) and isinstance(e.value, int) and not isinstance(e.value, bool):
        return ("lit", e.value)
    if isinstance(e, ast.BinOp) and type(e.op) in ARI:
        return ("ari", ARI[type(e.op)], rat_expr(e.left, qname), rat_expr(e.right, qname))
    raise Unsupported(f"{GFN}: quantile argument outside the subset: `{_u(e)}`")


def lean_rat(e, qname):
    if e[0] == "q":
        return qname
    if e[0] == "lit":
        return f"({e[1]} : Rat)"
    return f"({lean_rat(e[2], qname)} {e[1]} {lean_rat(e[3], qname)})"


def ev_rat(e, q):
    if e[0] == "q":
        return q
    if e[0] == "lit":
        return e[1]
    a, b = ev_rat(e[2], q), ev_rat(e[3], q)
    return a + b if e[1] == "+" else a - b if e[1] == "-" else a * b


def read_slice(node, rd, grids):
    """`G[row, lo:hi]` -> (G, row, lo, hi) with translated integer expressions"""
    if not (isinstance(node, ast.Subscript) and isinstance(node.value, ast.Name) and node.value.id in grids and isinstance(node.slice, ast.Tuple)
            and len(node.slice.elts) == 2 and isinstance(node.slice.elts[1], ast.Slice) and node.slice.elts[1].step is None
            and node.slice.elts[1].lower is not None and node.slice.elts[1].upper is not None):
        raise Unsupported(f"{GFN}: not a row slice `G[row, lo:hi]`: `{_u(node)}`")
    sl = node.slice.elts[1]
    return node.value.id, rd.int_expr(node.slice.elts[0]), rd.int_expr(sl.lower), rd.int_expr(sl.upper)


def extract_graphreg():
    import random

    fn = find_function(module(), GFN)
    saved = FN
    check_njit(fn)
    params = [a.arg for a in fn.args.args]
    if len(params) != 6:
        raise Unsupported(f"{GFN}: parameters {params}")
    g_inf, g_sup, bl, br, graph, qname = params
    body = [s for s in fn.body if not (isinstance(s, ast.Expr) and isinstance(getattr(s, "value", None), ast.Constant))]
    if len(body) != 5:
        raise Unsupported(f"{GFN}: {len(body)} top-level statements, expected 5")
    outs = {}
    for s, g in zip(body[:2], (g_inf, g_sup)):
        if not (isinstance(s, ast.Assign) and len(s.targets) == 1 and isinstance(s.targets[0], ast.Name) and _u(s.value) == f"{g}.copy()"):
            raise Unsupported(f"{GFN}: expected `X = {g}.copy()`, got `{_u(s)[:60]}`")
        outs[s.targets[0].id] = g
    s2 = body[2]
    if not (isinstance(s2, ast.Assign) and isinstance(s2.targets[0], ast.Name) and _u(s2.value).startswith(f"np.full({g_inf}.shape, False")):
        raise Unsupported(f"{GFN}: mask allocation not recognised")
    mask = s2.targets[0].id
    loop = body[3]
    if not (isinstance(loop, ast.For) and isinstance(loop.target, ast.Name) and _u(loop.iter) in (f"prange({graph}.shape[0])", f"range({graph}.shape[0])")
            and not loop.orelse and len(loop.body) == 8):
        raise Unsupported(f"{GFN}: the segment loop is not `for i in prange({graph}.shape[0])` with 8 statements")
    i = loop.target.id
    b = loop.body
    # b0: selection
    if not (isinstance(b[0], ast.Assign) and isinstance(b[0].targets[0], ast.Tuple) and len(b[0].targets[0].elts) == 2
            and _u(b[0].value) == f"({bl}[{graph}[{i}, :]], {br}[{graph}[{i}, :]])"):
        raise Unsupported(f"{GFN}: selection `left, right = {bl}[{graph}[{i}, :]], {br}[{graph}[{i}, :]]` not found: `{_u(b[0])[:90]}`")
    li, ri = (t.id for t in b[0].targets[0].elts)
    # b1: offsets
    if not (isinstance(b[1], ast.Assign) and isinstance(b[1].targets[0], ast.Name) and isinstance(b[1].value, ast.Call)
            and _u(b[1].value.func) == "np.hstack" and len(b[1].value.args) == 1 and isinstance(b[1].value.args[0], ast.Tuple)
            and len(b[1].value.args[0].elts) == 2 and _u(b[1].value.args[0].elts[0]) == "np.array([0])"
            and isinstance(b[1].value.args[0].elts[1], ast.Call) and isinstance(b[1].value.args[0].elts[1].func, ast.Attribute)
            and b[1].value.args[0].elts[1].func.attr == "cumsum" and not b[1].value.args[0].elts[1].args):
        raise Unsupported(f"{GFN}: offsets are not `np.hstack((np.array([0]), (<lengths>).cumsum()))`")
    offs = b[1].targets[0].id
    lengths = b[1].value.args[0].elts[1].func.value
    # b2, b3: buffers
    aggs = []
    for s in b[2:4]:
        if not (isinstance(s, ast.Assign) and isinstance(s.targets[0], ast.Name) and _u(s.value).startswith(f"np.full({offs}[-1], 0")):
            raise Unsupported(f"{GFN}: buffer allocation not recognised: `{_u(s)[:60]}`")
        aggs.append(s.targets[0].id)
    # b4: block copies
    jl = b[4]
    if not (isinstance(jl, ast.For) and isinstance(jl.target, ast.Name) and _u(jl.iter) == f"range(len({offs}) - 1)" and not jl.orelse
            and len(jl.body) == 2):
        raise Unsupported(f"{GFN}: the block loop is not `for j in range(len({offs}) - 1)` with two copies")
    j = jl.target.id
    rd = Reader({j: j}, [], arrays=(li, ri))
    # the lengths `(hi - lo)` as a function of j: `[:, c]` read as `[j, c]`
    class ColToRow(ast.NodeTransformer):
        def visit_Slice(self, node):
            return ast.Name(id=j, ctx=ast.Load())
    len_j = rd.int_expr(ColToRow().visit(ast.parse(_u(lengths), mode="eval").body))
    sources = {}
    for s in jl.body:
        if not (isinstance(s, ast.Assign) and len(s.targets) == 1 and isinstance(s.targets[0], ast.Subscript)
                and isinstance(s.targets[0].value, ast.Name) and s.targets[0].value.id in aggs
                and _u(s.targets[0].slice) == f"{offs}[{j}]:{offs}[{j} + 1]"):
            raise Unsupported(f"{GFN}: block copy target is not `agg[{offs}[{j}]:{offs}[{j} + 1]]`: `{_u(s)[:80]}`")
        src = read_slice(s.value, rd, (g_inf, g_sup))
        rng = random.Random(3)
        for _ in range(30):  # the block length is the length of the copied slice (symbolically: on random coordinates)
            arrs = {li: [[rng.randint(0, 9), rng.randint(0, 9)]], ri: [[rng.randint(0, 9), rng.randint(0, 9)]]}
            if ev_int(len_j, {j: 0}, arrs) != ev_int(src[3], {j: 0}, arrs) - ev_int(src[2], {j: 0}, arrs):
                raise Unsupported(f"{GFN}: block length `{_u(lengths)}` is not the length of the copied slice `{_u(s.value)}`")
        sources[s.targets[0].value.id] = src
    if set(sources) != set(aggs):
        raise Unsupported(f"{GFN}: the two buffers are not both filled")
    # b5, b6: write-back ; b7: mask
    rdi = Reader({i: i}, [], arrays=(bl, br))
    writes = []
    for s in b[5:7]:
        if not (isinstance(s, ast.Assign) and len(s.targets) == 1 and isinstance(s.value, ast.Call) and _u(s.value.func) == "np.nanquantile"
                and len(s.value.args) == 2 and isinstance(s.value.args[0], ast.Name) and s.value.args[0].id in aggs and not s.value.keywords):
            raise Unsupported(f"{GFN}: write-back is not `OUT[row, lo:hi] = np.nanquantile(agg, e)`: `{_u(s)[:80]}`")
        tgt = read_slice(s.targets[0], rdi, tuple(outs))
        writes.append((tgt, s.value.args[0].id, rat_expr(s.value.args[1], qname)))
    if sorted(w[0][0] for w in writes) != sorted(outs):
        raise Unsupported(f"{GFN}: the two outputs are not both written")
    m = b[7]
    if not (isinstance(m, ast.Assign) and isinstance(m.targets[0], ast.Subscript) and isinstance(m.targets[0].value, ast.Name)
            and m.targets[0].value.id == mask and isinstance(m.value, ast.Constant) and m.value.value is True):
        raise Unsupported(f"{GFN}: mask store not recognised")
    ret = body[4]
    order = [e.id for e in ret.value.elts] if isinstance(ret, ast.Return) and isinstance(ret.value, ast.Tuple) else []
    if order[:2] != list(outs) or order[2:] != [mask]:
        raise Unsupported(f"{GFN}: return is not `({', '.join(outs)}, {mask})`")
    return {"params": params, "i": i, "j": j, "li": li, "ri": ri, "outs": outs, "sources": sources, "writes": writes, "aggs": aggs,
            "source": _u(loop).replace("-/", "- /").replace("/-", "/ -")}


def evaluate_graphreg(x, inf, sup, bl, br, graph, q, nanquantile):
    """exact reading of the aggregation loop; grids are lists of rows, `nanquantile(list, q)` is supplied by the caller"""
    g_inf, g_sup = x["params"][0], x["params"][1]
    grids = {g_inf: inf, g_sup: sup}
    out = {o: [list(r) for r in grids[g]] for o, g in x["outs"].items()}
    for i in range(len(graph)):
        left = [r for r, on in zip(bl, graph[i]) if on]
        right = [r for r, on in zip(br, graph[i]) if on]
        arrs = {x["li"]: left, x["ri"]: right}
        agg = {}
        for a, (g, row, lo, hi) in x["sources"].items():
            vals = []
            for j in range(min(len(left), len(right))):
                env = {x["j"]: j}
                r_, lo_, hi_ = ev_int(row, env, arrs), ev_int(lo, env, arrs), ev_int(hi, env, arrs)
                vals += grids[g][r_][max(lo_, 0):max(hi_, 0)]
            agg[a] = vals
        arrs_i = {x["params"][2]: bl, x["params"][3]: br}
        for (o, row, lo, hi), a, qe in x["writes"]:
            env = {x["i"]: i}
            r_, lo_, hi_ = ev_int(row, env, arrs_i), ev_int(lo, env, arrs_i), ev_int(hi, env, arrs_i)
            v = nanquantile(agg[a], ev_rat(qe, q))
            for c in range(max(lo_, 0), min(max(hi_, 0), len(out[o][r_]))):
                out[o][r_][c] = v
    return [out[o] for o in x["outs"]]


def render_graphreg(x) -> str:
    global CELL_STYLE
    g_inf, g_sup, bl, br, graph, qname = x["params"]
    i, j, li, ri = x["i"], x["j"], x["li"], x["ri"]
    o1, o2 = list(x["outs"])
    CELL_STYLE = "agg"
    try:
        lines = [
            "",
            f"/- pandora/interval_tools.py: {GFN}, the aggregation loop (`np.nanquantile` is the parameter `pyNanquantile`;",
            "   the Boolean mask output is not translated):",
            x["source"],
            "-/",
            f"def graphRegStep (pyNanquantile : List Val → Rat → Val) ({g_inf} {g_sup} : List (List Val)) ({bl} {br} : List (Nat × Nat))",
            f"    ({graph} : List (List Bool)) ({qname} : Rat) ({i} : Nat) (pyState : List (List Val) × List (List Val)) : List (List Val) × List (List Val) :=",
            f"  let {o1} : List (List Val) := pyState.1",
            f"  let {o2} : List (List Val) := pyState.2",
            f"  let {li} : List (Nat × Nat) := PyAgg.sel {bl} ({graph}.getD {i} [])",
            f"  let {ri} : List (Nat × Nat) := PyAgg.sel {br} ({graph}.getD {i} [])",
        ]
        for a in x["aggs"]:
            g, row, lo, hi = x["sources"][a]
            lines.append(f"  let {a} : List Val := PyAgg.concat (min {li}.length {ri}.length) (fun ({j} : Nat) => PyAgg.slice {g} {lean_int(row)} {lean_int(lo)} {lean_int(hi)})")
        for (o, row, lo, hi), a, qe in x["writes"]:
            lines.append(f"  let {o} : List (List Val) := PyAgg.setSlice {o} {lean_int(row)} {lean_int(lo)} {lean_int(hi)} (pyNanquantile {a} {lean_rat(qe, qname)})")
        lines += [
            f"  ({o1}, {o2})",
            "",
            f"/-- `{GFN}(…)[0:2]` -/",
            f"def graphRegularization (pyNanquantile : List Val → Rat → Val) ({g_inf} {g_sup} : List (List Val)) ({bl} {br} : List (Nat × Nat))",
            f"    ({graph} : List (List Bool)) ({qname} : Rat) : List (List Val) × List (List Val) :=",
            f"  PyAgg.forRange {graph}.length ({g_inf}, {g_sup}) (graphRegStep pyNanquantile {g_inf} {g_sup} {bl} {br} {graph} {qname})",
        ]
    finally:
        CELL_STYLE = "fun"
    return "\n".join(lines)


# ------------------------------------------------------------------------------------------------
# interval_regularization: the segment extraction (whole-array numpy statements) and the two calls
# ------------------------------------------------------------------------------------------------
IFN = "interval_regularization"
import re as _re

INT = r"(-?\d+)"
ID = r"([A-Za-z_]\w*)"
BORDER_STMTS = [
    ("shape", rf"^{ID}, _ = {ID}\.shape$"),
    ("pad", rf"^{ID} = {ID} // {INT}$"),
    ("hstack", rf"^{ID} = np\.hstack\(\(np\.ones\(\({ID}, {ID}\)\), {ID}, np\.ones\(\({ID}, {ID}\)\)\)\)$"),
    ("nanmin", rf"^{ID} = np\.nanmin\(np\.lib\.stride_tricks\.sliding_window_view\({ID}, {ID}, axis=1\), axis=-1\)$"),
    ("last", rf"^{ID}\[:, -1\] = {INT}$"),
    ("diff", rf"^{ID} = np\.diff\(np\.hstack\(\[np\.ones\(\({ID}\.shape\[0\], 1\)\), {ID} (>=|>|<=|<) {ID}\]\), axis=-1\)$"),
    ("left", rf"^{ID} = np\.argwhere\({ID} == {INT}\)$"),
    ("right", rf"^{ID} = np\.argwhere\({ID} == {INT}\)$"),
    ("shift", rf"^{ID}\[:, 1\] = {ID}\[:, 1\] - {INT}$"),
    ("graph", rf"^{ID} = create_connected_graph\({ID}, {ID}, {ID}\)$"),
    ("ret", rf"^return graph_regularization\({ID}, {ID}, {ID}, {ID}, {ID}, {ID}\)$"),
]


def extract_borders():
    fn = find_function(module(), IFN)
    if fn.decorator_list:
        raise Unsupported(f"{IFN}: unexpected decorator")
    params = [a.arg for a in fn.args.args]
    if len(params) != 7:
        raise Unsupported(f"{IFN}: parameters {params}")
    g_inf, g_sup, amb, thr, ksz, depth, quant = params
    body = [s for s in fn.body if not (isinstance(s, ast.Expr) and isinstance(getattr(s, "value", None), ast.Constant))]
    if len(body) != len(BORDER_STMTS):
        raise Unsupported(f"{IFN}: {len(body)} statements, expected {len(BORDER_STMTS)}")
    g = {}
    for s, (tag, rx) in zip(body, BORDER_STMTS):
        m_ = _re.match(rx, _u(s).replace("\n", " "))
        if not m_:
            raise Unsupported(f"{IFN}: statement `{_u(s)[:90]}` is not of the form read for `{tag}`")
        g[tag] = m_.groups()
    n_row, a0 = g["shape"]
    pad, k0, div = g["pad"]
    m1, nl, pl, a1, nr, pr = g["hstack"]
    m2, m1b, k1 = g["nanmin"]
    m3, last = g["last"]
    bd, m4, m5, op, t0 = g["diff"]
    left, bd1, cl = g["left"]
    right, bd2, cr = g["right"]
    r1, r2, sh = g["shift"]
    gr, gl, grr, gd = g["graph"]
    ret = g["ret"]
    ok = (a0 == amb and a1 == amb and k0 == ksz and k1 == ksz and nl == n_row and nr == n_row and pl == pad and pr == pad
          and m1b == m1 and m2 == m1 and m3 == m1 and m4 == m1 and m5 == m1 and t0 == thr and bd1 == bd and bd2 == bd
          and r1 == right and r2 == right and left != right and (gl, grr, gd) == (left, right, depth)
          and ret == (g_inf, g_sup, left, right, gr, quant))
    if not ok:
        raise Unsupported(f"{IFN}: the statements do not chain as expected (names: {g})")
    if int(div) <= 0 or int(sh) < 0:
        raise Unsupported(f"{IFN}: divisor / shift out of range")
    return {"params": params, "div": int(div), "last": int(last), "op": op, "cl": int(cl), "cr": int(cr), "shift": int(sh),
            "source": "\n".join(_u(s) for s in body).replace("-/", "- /").replace("/-", "/ -")}


def evaluate_borders(x, amb, thr, ksz):
    """exact reading: (border_left, border_right) as lists of [row, col]; `amb` rows of Fractions / "nan" """
    pad = ksz // x["div"]
    lefts, rights = [], []
    cmp_ = {">=": lambda a, b: a >= b, ">": lambda a, b: a > b, "<=": lambda a, b: a <= b, "<": lambda a, b: a < b}[x["op"]]
    for r, row in enumerate(amb):
        p = [1] * pad + list(row) + [1] * pad
        m = []
        for j in range(len(p) + 1 - ksz):
            w = [v for v in p[j:j + ksz] if v != "nan"]
            m.append(min(w) if w else "nan")
        if m:
            m[-1] = x["last"]
        flags = [1] + [int(v != "nan" and cmp_(v, thr)) for v in m]
        d = [b - a for a, b in zip(flags, flags[1:])]
        lefts += [[r, j] for j, v in enumerate(d) if v == x["cl"]]
        rights += [[r, j - x["shift"]] for j, v in enumerate(d) if v == x["cr"]]
    return lefts, rights


def render_borders(x) -> str:
    g_inf, g_sup, amb, thr, ksz, depth, quant = x["params"]
    if x["op"] != ">=":
        raise Unsupported(f"{IFN}: comparison `{x['op']}` has no run-time support (only `>=`)")
    return "\n".join([
        "",
        f"/- pandora/interval_tools.py: {IFN}",
        x["source"],
        "-/",
        f"def regulBorders ({amb} : List (List Val)) ({thr} : Rat) ({ksz} : Nat) : List (Nat × Nat) × List (Nat × Nat) :=",
        f"  let pad : Nat := {ksz} / {x['div']}",
        f"  let m : List (List Val) := PyRows.hstackConst 1 pad pad {amb}",
        f"  let m : List (List Val) := PyRows.slidingNanmin m {ksz}",
        f"  let m : List (List Val) := PyRows.setLastCol m ({x['last']} : Rat)",
        f"  let border : List (List Int) := PyRows.diffOnes (PyRows.ge m {thr})",
        f"  let border_left : List (Nat × Nat) := PyRows.argwhere border ({x['cl']} : Int)",
        f"  let border_right : List (Nat × Nat) := PyRows.argwhere border ({x['cr']} : Int)",
        f"  let border_right : List (Nat × Nat) := PyRows.subCol1 border_right {x['shift']}",
        "  (border_left, border_right)",
        "",
        f"/-- `{IFN}(…)[0:2]`: the segments, `create_connected_graph` on them, `graph_regularization` on that graph -/",
        f"def intervalRegularization (pyNanquantile : List Val → Rat → Val) ({g_inf} {g_sup} {amb} : List (List Val)) ({thr} : Rat)",
        f"    ({ksz} {depth} : Nat) ({quant} : Rat) : List (List Val) × List (List Val) :=",
        f"  let b := regulBorders {amb} {thr} {ksz}",
        f"  let graph : List (List Bool) := createConnectedGraph b.1.length (PyAgg.cell b.1) (PyAgg.cell b.2) {depth}",
        f"  graphRegularization pyNanquantile {g_inf} {g_sup} b.1 b.2 graph {quant}",
    ])


def generate():
    x = extract_whole()
    write_if_changed("KernelsRegul.lean", render(x))
    return {"T14s": {"source": [SRC], "digest": digest(SRC), "matrix": x["matrix"], "lo": x["lo"], "actions": [a for _, a in x["acts"]]}}
