"""T14 (pair-scan nests): the connection scan of `pandora/interval_tools.py: create_connected_graph`
-> Generated/KernelsRegul.lean.

What is read, statement by statement (anything else raises Unsupported):

    n = len(A)                                             A a 2-D integer array parameter
    if depth == 0: <eye branch, not translated here>
    else:
        M = np.full((n, n), False, dtype=np.bool_)
        for i in prange(n) | range(n):
            x = <int expr>                                 scalar lets (may read A[i, c])
            for k in range(<i + c>, n):
                if <cond>: continue
                if <cond>: break
                if <cond>: M[i, k] = M[k, i] = True        (or `M[i, k] = True` alone) -- must be the last statement
        <the rest of the branch is not read by this extractor>

The conditions and the lets are TRANSLATED (integers: names, literals, `+ - *`, `A[v, c]` with `v` a loop variable and `c` a
literal; Booleans: one comparison, `& | and or not`) into the Lean function `connAct border_left border_right i k :
PyScanGraph.Act`; the control skeleton is `Model/PyScanGraph.lean`.  `evaluate` runs the SAME tree exactly (Python ints) and
is compared with the real compiled function by harness/props/C12.py on every run; the Lean text is compared with the
evaluator by generated `example`s.
"""
from __future__ import annotations

import ast

from .common import Unsupported, digest, find_function, parse, write_if_changed

NAME = "KernelsRegul"
SRC = "pandora/interval_tools.py"
FN = "create_connected_graph"
ARRAYS = ("border_left", "border_right")

CMP = {ast.Eq: "=", ast.NotEq: "≠", ast.Lt: "<", ast.LtE: "≤", ast.Gt: ">", ast.GtE: "≥"}
PYCMP = {"=": lambda a, b: a == b, "≠": lambda a, b: a != b, "<": lambda a, b: a < b, "≤": lambda a, b: a <= b,
         ">": lambda a, b: a > b, "≥": lambda a, b: a >= b}
ARI = {ast.Add: "+", ast.Sub: "-", ast.Mult: "*"}


class Reader:
    def __init__(self, loop_vars, lets):
        self.loop_vars = loop_vars  # python name -> lean name (naturals)
        self.lets = lets            # python names of integer lets

    def int_expr(self, e):
        if isinstance(e, ast.Constant) and isinstance(e.value, int) and not isinstance(e.value, bool):
            return ("lit", e.value)
        if isinstance(e, ast.Name):
            if e.id in self.loop_vars:
                return ("nat", e.id)
            if e.id in self.lets:
                return ("let", e.id)
            raise Unsupported(f"{FN}: unknown name `{e.id}` in an integer expression")
        if isinstance(e, ast.UnaryOp) and isinstance(e.op, ast.USub):
            return ("neg", self.int_expr(e.operand))
        if isinstance(e, ast.BinOp) and type(e.op) in ARI:
            return ("ari", ARI[type(e.op)], self.int_expr(e.left), self.int_expr(e.right))
        if isinstance(e, ast.Subscript) and isinstance(e.value, ast.Name) and e.value.id in ARRAYS:
            idx = e.slice.elts if isinstance(e.slice, ast.Tuple) else None
            if idx and len(idx) == 2 and isinstance(idx[0], ast.Name) and idx[0].id in self.loop_vars \
                    and isinstance(idx[1], ast.Constant) and isinstance(idx[1].value, int) and idx[1].value >= 0:
                return ("get", e.value.id, idx[0].id, idx[1].value)
        raise Unsupported(f"{FN}: integer expression outside the subset: `{ast.unparse(e)}`")

    def bool_expr(self, e):
        if isinstance(e, ast.Compare) and len(e.ops) == 1 and type(e.ops[0]) in CMP:
            return ("cmp", CMP[type(e.ops[0])], self.int_expr(e.left), self.int_expr(e.comparators[0]))
        if isinstance(e, ast.BinOp) and isinstance(e.op, (ast.BitAnd, ast.BitOr)):
            return ("and" if isinstance(e.op, ast.BitAnd) else "or", self.bool_expr(e.left), self.bool_expr(e.right))
        if isinstance(e, ast.BoolOp):
            out = self.bool_expr(e.values[0])
            for v in e.values[1:]:
                out = ("and" if isinstance(e.op, ast.And) else "or", out, self.bool_expr(v))
            return out
        if isinstance(e, ast.UnaryOp) and isinstance(e.op, ast.Not):
            return ("not", self.bool_expr(e.operand))
        raise Unsupported(f"{FN}: condition outside the subset: `{ast.unparse(e)}`")


def lean_int(e) -> str:
    k = e[0]
    if k == "lit":
        return f"({e[1]} : Int)"
    if k == "nat":
        return f"({e[1]} : Int)"
    if k == "let":
        return e[1]
    if k == "neg":
        return f"(-{lean_int(e[1])})"
    if k == "ari":
        return f"({lean_int(e[2])} {e[1]} {lean_int(e[3])})"
    if k == "get":
        return f"({e[1]} {e[2]} {e[3]})"
    raise AssertionError(e)


def lean_bool(e) -> str:
    k = e[0]
    if k == "cmp":
        return f"(decide ({lean_int(e[2])} {e[1]} {lean_int(e[3])}))"
    if k in ("and", "or"):
        return f"({lean_bool(e[1])} {'&&' if k == 'and' else '||'} {lean_bool(e[2])})"
    if k == "not":
        return f"(!{lean_bool(e[1])})"
    raise AssertionError(e)


def ev_int(e, env, arrays):
    k = e[0]
    if k == "lit":
        return e[1]
    if k in ("nat", "let"):
        return env[e[1]]
    if k == "neg":
        return -ev_int(e[1], env, arrays)
    if k == "ari":
        a, b = ev_int(e[2], env, arrays), ev_int(e[3], env, arrays)
        return a + b if e[1] == "+" else a - b if e[1] == "-" else a * b
    if k == "get":
        return arrays[e[1]][env[e[2]]][e[3]]
    raise AssertionError(e)


def ev_bool(e, env, arrays):
    k = e[0]
    if k == "cmp":
        return PYCMP[e[1]](ev_int(e[2], env, arrays), ev_int(e[3], env, arrays))
    if k == "and":
        return ev_bool(e[1], env, arrays) and ev_bool(e[2], env, arrays)
    if k == "or":
        return ev_bool(e[1], env, arrays) or ev_bool(e[2], env, arrays)
    if k == "not":
        return not ev_bool(e[1], env, arrays)
    raise AssertionError(e)


def is_call(e, names, attr=None):
    if not isinstance(e, ast.Call):
        return False
    f = e.func
    if attr is None:
        return isinstance(f, ast.Name) and f.id in names
    return isinstance(f, ast.Attribute) and f.attr == attr and isinstance(f.value, ast.Name) and f.value.id in names


def check_njit(fn):
    for d in fn.decorator_list:
        call = d if isinstance(d, ast.Call) else None
        f = call.func if call else d
        name = f.id if isinstance(f, ast.Name) else (f.attr if isinstance(f, ast.Attribute) else None)
        if name not in ("njit", "jit"):
            raise Unsupported(f"{FN}: unknown decorator `{ast.unparse(d)}`")
        for kw in (call.keywords if call else []):
            if kw.arg not in ("parallel", "cache"):
                raise Unsupported(f"{FN}: `{kw.arg}=` may change the semantics")


def extract():
    fn = find_function(parse(SRC), FN)
    check_njit(fn)
    params = [a.arg for a in fn.args.args]
    if params[:2] != list(ARRAYS) or len(params) != 3:
        raise Unsupported(f"{FN}: parameters {params}")
    depth = params[2]
    body = [s for s in fn.body if not (isinstance(s, ast.Expr) and isinstance(getattr(s, "value", None), ast.Constant))]
    # n = len(border_left)
    n_name = None
    for s in body:
        if isinstance(s, ast.Assign) and len(s.targets) == 1 and isinstance(s.targets[0], ast.Name) and is_call(s.value, ("len",)) \
                and len(s.value.args) == 1 and isinstance(s.value.args[0], ast.Name) and s.value.args[0].id == ARRAYS[0]:
            n_name = s.targets[0].id
    if n_name is None:
        raise Unsupported(f"{FN}: `n = len({ARRAYS[0]})` not found")
    top_if = [s for s in body if isinstance(s, ast.If)]
    if len(top_if) != 1:
        raise Unsupported(f"{FN}: expected one top-level if on the depth")
    t = top_if[0].test
    if not (isinstance(t, ast.Compare) and len(t.ops) == 1 and isinstance(t.ops[0], ast.Eq) and isinstance(t.left, ast.Name)
            and t.left.id == depth and isinstance(t.comparators[0], ast.Constant) and t.comparators[0].value == 0):
        raise Unsupported(f"{FN}: the top-level test is not `{depth} == 0`")
    branch = top_if[0].orelse
    # M = np.full((n, n), False, dtype=np.bool_) ; the first loop nest that stores into M
    if not (branch and isinstance(branch[0], ast.Assign) and len(branch[0].targets) == 1 and isinstance(branch[0].targets[0], ast.Name)):
        raise Unsupported(f"{FN}: the else branch does not start with the allocation of the connection matrix")
    mat = branch[0].targets[0].id
    alloc = branch[0].value
    ok = (is_call(alloc, ("np", "numpy"), "full") and len(alloc.args) >= 2 and isinstance(alloc.args[0], ast.Tuple)
          and [getattr(x, "id", None) for x in alloc.args[0].elts] == [n_name, n_name]
          and isinstance(alloc.args[1], ast.Constant) and alloc.args[1].value is False)
    if not ok:
        raise Unsupported(f"{FN}: `{mat}` is not allocated as np.full(({n_name}, {n_name}), False, …)")
    outer = branch[1] if len(branch) > 1 else None
    if not (isinstance(outer, ast.For) and isinstance(outer.target, ast.Name) and is_call(outer.iter, ("prange", "range"))
            and len(outer.iter.args) == 1 and isinstance(outer.iter.args[0], ast.Name) and outer.iter.args[0].id == n_name
            and not outer.orelse):
        raise Unsupported(f"{FN}: the outer loop is not `for i in prange({n_name})`")
    i = outer.target.id
    lets, let_tree = [], []
    rd = Reader({i: i}, lets)
    inner = None
    for s in outer.body:
        if isinstance(s, ast.Assign) and len(s.targets) == 1 and isinstance(s.targets[0], ast.Name) and inner is None:
            if s.targets[0].id in lets or s.targets[0].id in (i, mat, n_name) + tuple(params):
                raise Unsupported(f"{FN}: `{s.targets[0].id}` is rebound")
            let_tree.append((s.targets[0].id, rd.int_expr(s.value)))
            lets.append(s.targets[0].id)
        elif isinstance(s, ast.For) and inner is None:
            inner = s
        else:
            raise Unsupported(f"{FN}: statement outside the subset in the outer loop: `{ast.unparse(s)[:60]}`")
    if inner is None or inner.orelse or not isinstance(inner.target, ast.Name):
        raise Unsupported(f"{FN}: inner loop not found")
    k = inner.target.id
    it = inner.iter
    if not (is_call(it, ("range",)) and len(it.args) == 2 and isinstance(it.args[1], ast.Name) and it.args[1].id == n_name):
        raise Unsupported(f"{FN}: the inner loop is not `for {k} in range(lo, {n_name})`")
    lo = it.args[0]
    if isinstance(lo, ast.Name) and lo.id == i:
        lo_c = 0
    elif isinstance(lo, ast.BinOp) and isinstance(lo.op, ast.Add) and isinstance(lo.left, ast.Name) and lo.left.id == i \
            and isinstance(lo.right, ast.Constant) and isinstance(lo.right.value, int) and lo.right.value >= 0:
        lo_c = lo.right.value
    else:
        raise Unsupported(f"{FN}: lower bound of the inner loop is not `{i} + c`")
    rd = Reader({i: i, k: k}, lets)
    acts = []
    for pos, s in enumerate(inner.body):
        if not (isinstance(s, ast.If) and not s.orelse and len(s.body) == 1):
            raise Unsupported(f"{FN}: inner statement is not a one-armed `if`: `{ast.unparse(s)[:60]}`")
        cond = rd.bool_expr(s.test)
        a = s.body[0]
        if isinstance(a, ast.Continue):
            acts.append((cond, "skip"))
        elif isinstance(a, ast.Break):
            acts.append((cond, "stop"))
        elif isinstance(a, ast.Assign) and isinstance(a.value, ast.Constant) and a.value.value is True:
            if pos != len(inner.body) - 1:
                raise Unsupported(f"{FN}: the store is not the last statement of the scan")
            cells = set()
            for tg in a.targets:
                if not (isinstance(tg, ast.Subscript) and isinstance(tg.value, ast.Name) and tg.value.id == mat
                        and isinstance(tg.slice, ast.Tuple) and len(tg.slice.elts) == 2
                        and all(isinstance(x, ast.Name) and x.id in (i, k) for x in tg.slice.elts)):
                    raise Unsupported(f"{FN}: store target outside the subset: `{ast.unparse(tg)}`")
                cells.add(tuple(x.id for x in tg.slice.elts))
            if cells == {(i, k), (k, i)}:
                kind = "symMatrix"
            elif cells == {(i, k)}:
                kind = "upperMatrix"
            else:
                raise Unsupported(f"{FN}: stored cells {sorted(cells)}")
            acts.append((cond, "mark"))
        else:
            raise Unsupported(f"{FN}: action outside the subset: `{ast.unparse(a)[:60]}`")
    if not acts or acts[-1][1] != "mark":
        raise Unsupported(f"{FN}: the scan does not end with the store")
    return {"i": i, "k": k, "lets": let_tree, "acts": acts, "lo": lo_c, "matrix": kind,
            "source": ast.unparse(outer).replace("-/", "- /").replace("/-", "/ -")}


def evaluate(x, border_left, border_right):
    """the connection matrix as the SAME tree says (exact integers)"""
    arrays = {ARRAYS[0]: border_left, ARRAYS[1]: border_right}
    n = len(border_left)
    rows = []
    for i in range(n):
        env = {x["i"]: i}
        for name, e in x["lets"]:
            env[name] = ev_int(e, env, arrays)
        row, stopped = [], False
        for k in range(i + x["lo"], n):
            env[x["k"]] = k
            act = "skip"
            if not stopped:
                for cond, a in x["acts"]:
                    if ev_bool(cond, env, arrays):
                        act = a
                        break
            if act == "stop":
                stopped = True
            row.append(act == "mark")
        rows.append(row)

    def marked(a, b):
        lo = a + x["lo"]
        return lo <= b and b - lo < len(rows[a]) and rows[a][b - lo]
    sym = x["matrix"] == "symMatrix"
    return [[bool(marked(a, b) or (sym and marked(b, a))) for b in range(n)] for a in range(n)]


GOLDEN = [
    ([[0, 0], [0, 5], [1, 1], [1, 6], [2, 0], [4, 0]], [[0, 2], [0, 7], [1, 4], [1, 9], [2, 1], [4, 3]]),
    ([[0, 3], [1, 0], [1, 4], [2, 2]], [[0, 3], [1, 2], [1, 6], [2, 5]]),
    ([], []),
    ([[3, 1]], [[3, 1]]),
]


def lean_fun(rows) -> str:
    """an (n, 2) integer array as a total index function"""
    if not rows:
        return "(fun _ _ => (0 : Int))"
    return "(fun a c => ((" + "[" + ", ".join("[" + ", ".join(f"({v} : Int)" for v in r) + "]" for r in rows) + "] : List (List Int)).getD a []).getD c 0)"


def render(x) -> str:
    i, k = x["i"], x["k"]
    lines = [
        "-- GENERATED by translator/gen_kernels_regul.py from pandora/interval_tools.py. Do not edit.",
        "import PandoraModel.Model.PyScanGraph",
        "set_option linter.unusedVariables false",
        "namespace Pandora.Generated.KernelsRegul",
        "open Pandora",
        "",
        f"/- pandora/interval_tools.py: {FN}, the connection scan (else branch of `depth == 0`):",
        x["source"],
        "-/",
        f"def connAct ({ARRAYS[0]} {ARRAYS[1]} : Nat → Nat → Int) ({i} {k} : Nat) : PyScanGraph.Act :=",
    ]
    for name, e in x["lets"]:
        lines.append(f"  let {name} : Int := {lean_int(e)}")
    for cond, a in x["acts"]:
        lines.append(f"  if {lean_bool(cond)} then PyScanGraph.Act.{a} else")
    lines.append("  PyScanGraph.Act.skip")
    lines += [
        "",
        f"/-- the first `{k}` visited by iteration `{i}` -/",
        f"def connLo ({i} : Nat) : Nat := {i} + {x['lo']}",
        "",
        f"/-- the Boolean row of iteration `{i}`: one entry per visited `{k}` -/",
        f"def connRow (n : Nat) ({ARRAYS[0]} {ARRAYS[1]} : Nat → Nat → Int) ({i} : Nat) : List Bool :=",
        f"  PyScanGraph.scanBools (connAct {ARRAYS[0]} {ARRAYS[1]} {i}) (PyScanGraph.rangeFrom (connLo {i}) n)",
        "",
        "/-- `connection_graph` after the nest -/",
        f"def connectionGraph (n : Nat) ({ARRAYS[0]} {ARRAYS[1]} : Nat → Nat → Int) : List (List Bool) :=",
        f"  PyScanGraph.{x['matrix']} n connLo (connRow n {ARRAYS[0]} {ARRAYS[1]})",
        "",
        "-- what the translator's own evaluator computes on a few segment lists, checked here by evaluation",
    ]
    for bl, br in GOLDEN:
        m = evaluate(x, bl, br)
        rhs = "[" + ", ".join("[" + ", ".join("true" if v else "false" for v in r) + "]" for r in m) + "]"
        lines.append(f"example : connectionGraph {len(bl)} {lean_fun(bl)} {lean_fun(br)} = {rhs} := by decide +kernel")
    lines += ["", "end Pandora.Generated.KernelsRegul"]
    return "\n".join(lines) + "\n"


def generate():
    x = extract()
    write_if_changed("KernelsRegul.lean", render(x))
    return {"T14s": {"source": [SRC], "digest": digest(SRC), "matrix": x["matrix"], "lo": x["lo"], "actions": [a for _, a in x["acts"]]}}
