"""T6: margins of the step classes and their registration by the check callbacks
-> Generated/Margins.lean

Extracted (Python ast only):
  * every class under pandora/ that defines `margins` (class attribute built from a descriptor, or a
    property computing `Margins(value, value, value, value)`), translated to a Lean function of
    (StepCfg, rows, cols, step);
  * the descriptor classes of pandora/margins/descriptors.py (NullMargins, UniformMargins,
    FixedMargins, HalfWindowMargins) are interpreted from their source;
  * the registry names (`@X.register_subclass("name", ...)`) so that (kind, method) -> class;
  * for each `<kind>_check_conf` of PandoraMachine: `self.margins.add_cumulative(input_step, obj.margins)`
    / `add_non_cumulative`;
  * the glue that feeds the formulas (`self._filter_size = cast(int, self.cfg["filter_size"])`, the
    `step=self.step` / `image_shape=(rows, cols)` arguments, `self.step = matching_cost_.cfg["step"]`):
    verified by exact statement match, `Unsupported` otherwise.
"""
from __future__ import annotations

import ast
import glob
import os

from .common import REPO, Unsupported, digest, find_class, find_method, lean_str, parse, write_if_changed

NAME = "Margins"

DESCRIPTORS = "pandora/margins/descriptors.py"
MACHINE = "pandora/state_machine.py"

BASES = {
    "AbstractMatchingCost": "matching_cost",
    "AbstractAggregation": "aggregation",
    "AbstractOptimization": "optimization",
    "AbstractDisparity": "disparity",
    "AbstractRefinement": "refinement",
    "AbstractFilter": "filter",
    "AbstractValidation": "validation",
    "AbstractInterpolation": "interpolation",
    "AbstractMultiscale": "multiscale",
    "AbstractCostVolumeConfidence": "cost_volume_confidence",
    "AbstractSemanticSegmentation": "semantic_segmentation",
}

# attribute -> (lean term, type); how each attribute is fed from the configuration is checked in GLUE
ATTRS = {
    "self._filter_size": ("c.filterSize", "Int"),
    "self._step": ("step", "Int"),
    "self._sigma_space": ("c.sigmaSpace", "Rat"),
    'instance.__dict__["_window_size"]': ("c.windowSize", "Int"),
    "instance.__dict__['_window_size']": ("c.windowSize", "Int"),
}

GLUE = [
    ("pandora/filter/median.py", "MedianFilter", "__init__", "self._filter_size = cast(int, self.cfg['filter_size'])"),
    ("pandora/filter/median.py", "MedianFilter", "__init__", "self._step = step"),
    ("pandora/filter/median_for_intervals.py", "MedianForIntervalsFilter", "__init__",
     "self._filter_size = cast(int, self.cfg['filter_size'])"),
    ("pandora/filter/median_for_intervals.py", "MedianForIntervalsFilter", "__init__", "self._step = step"),
    ("pandora/filter/bilateral.py", "BilateralFilter", "__init__", "self._sigma_space = float(self.cfg['sigma_space'])"),
    ("pandora/filter/bilateral.py", "BilateralFilter", "__init__",
     "self._image_shape = [] if image_shape is None else image_shape"),
    ("pandora/filter/bilateral.py", "BilateralFilter", "__init__", "self._step = step"),
    ("pandora/matching_cost/matching_cost.py", "AbstractMatchingCost", "instantiate_class",
     "self._window_size = int(self.cfg['window_size'])"),
    (MACHINE, "PandoraMachine", "matching_cost_check_conf", "self.step = matching_cost_.cfg['step']"),
]


def to_rat(term, typ):
    return term if typ == "Rat" else f"(({term} : Int) : Rat)"


def tr_expr(node: ast.expr, env: dict):
    """Translate a small arithmetic expression; returns (lean term, "Int"|"Rat")."""
    src = ast.unparse(node)
    if src in ATTRS:
        return ATTRS[src]
    if isinstance(node, ast.Name):
        if node.id in env:
            return env[node.id]
        raise Unsupported(f"margins: unknown name {node.id}")
    if isinstance(node, ast.Constant) and isinstance(node.value, int) and not isinstance(node.value, bool):
        return (f"({node.value} : Int)", "Int")
    if isinstance(node, ast.BinOp):
        a, ta = tr_expr(node.left, env)
        b, tb = tr_expr(node.right, env)
        if isinstance(node.op, ast.Div):
            return (f"({to_rat(a, ta)} / {to_rat(b, tb)})", "Rat")
        ops = {ast.Add: "+", ast.Sub: "-", ast.Mult: "*"}
        for k, sym in ops.items():
            if isinstance(node.op, k):
                if ta == "Rat" or tb == "Rat":
                    return (f"({to_rat(a, ta)} {sym} {to_rat(b, tb)})", "Rat")
                return (f"({a} {sym} {b})", "Int")
        raise Unsupported(f"margins: operator in {src}")
    if isinstance(node, ast.Call) and isinstance(node.func, ast.Name):
        if node.func.id == "int" and len(node.args) == 1 and not node.keywords:
            a, ta = tr_expr(node.args[0], env)
            return (a, "Int") if ta == "Int" else (f"(ratTrunc {a})", "Int")
        if node.func.id == "min" and not node.keywords:
            terms = []
            for arg in node.args:
                if isinstance(arg, ast.Starred) and ast.unparse(arg.value) == "self._image_shape":
                    terms += [("rows", "Int"), ("cols", "Int")]
                else:
                    terms.append(tr_expr(arg, env))
            if len(terms) < 2 or any(t != "Int" for _, t in terms):
                raise Unsupported(f"margins: min() arguments in {src}")
            out = terms[0][0]
            for t, _ in terms[1:]:
                out = f"(min {out} {t})"
            return (out, "Int")
    raise Unsupported(f"margins: unsupported expression {src}")


def tr_margins_body(body, env0=None):
    """`value = expr ...; return Margins(a, b, c, d)` -> lean term of type M4"""
    env = dict(env0 or {})
    for stmt in body:
        if isinstance(stmt, ast.Expr) and isinstance(stmt.value, ast.Constant):
            continue  # docstring
        if isinstance(stmt, ast.If) and ast.unparse(stmt.test) == "instance is None":
            continue  # descriptor accessed on the class
        if isinstance(stmt, ast.Assign) and len(stmt.targets) == 1 and isinstance(stmt.targets[0], ast.Name):
            env[stmt.targets[0].id] = tr_expr(stmt.value, env)
            continue
        if isinstance(stmt, ast.Return):
            v = stmt.value
            if isinstance(v, ast.Call) and ast.unparse(v.func) == "Margins" and len(v.args) == 4 and not v.keywords:
                parts = []
                for a in v.args:
                    t, ty = tr_expr(a, env)
                    if ty != "Int":
                        raise Unsupported("margins: non-integer margin")
                    parts.append(t)
                return "⟨" + ", ".join(parts) + "⟩"
        raise Unsupported(f"margins: unsupported statement {ast.unparse(stmt)[:80]}")
    raise Unsupported("margins: no return")


def descriptor_value(mod: ast.Module, call: ast.Call):
    """Interpret `NullMargins()`, `UniformMargins(40)`, `FixedMargins(a,b,c,d)`, `HalfWindowMargins()`."""
    name = ast.unparse(call.func)
    args = [a.value for a in call.args if isinstance(a, ast.Constant) and isinstance(a.value, int)]
    if len(args) != len(call.args) or call.keywords:
        raise Unsupported(f"margins: descriptor arguments of {ast.unparse(call)}")
    cls = find_class(mod, name)
    base = ast.unparse(cls.bases[0]) if cls.bases else ""
    if name == "HalfWindowMargins":
        if args:
            raise Unsupported("HalfWindowMargins takes no argument")
        return tr_margins_body(find_method_overloaded(cls, "__get__").body)
    if name == "FixedMargins":
        init = find_method(cls, "__init__")
        if ast.unparse(init.body[-1]) != "self.value = Margins(left, up, right, down)" or len(args) != 4:
            raise Unsupported("FixedMargins.__init__ changed")
        get = find_method_overloaded(cls, "__get__")
        if ast.unparse(get.body[-1]) != "return self.value":
            raise Unsupported("FixedMargins.__get__ changed")
        return "⟨" + ", ".join(f"({a} : Int)" for a in args) + "⟩"
    # subclasses delegating to super().__init__
    init = find_method(cls, "__init__")
    last = ast.unparse(init.body[-1])
    params = [a.arg for a in init.args.args[1:]]
    if len(params) != len(args):
        raise Unsupported(f"margins: {name} arity")
    env = dict(zip(params, args))
    if not last.startswith("super().__init__(") or not isinstance(init.body[-1], ast.Expr):
        raise Unsupported(f"margins: {name}.__init__ changed")
    sup = init.body[-1].value
    new_args = []
    for a in sup.args:
        if isinstance(a, ast.Constant) and isinstance(a.value, int):
            new_args.append(a.value)
        elif isinstance(a, ast.Name) and a.id in env:
            new_args.append(env[a.id])
        else:
            raise Unsupported(f"margins: {name}.__init__ argument {ast.unparse(a)}")
    fake = ast.parse(f"{base}({', '.join(map(str, new_args))})", mode="eval").body
    return descriptor_value(mod, fake)


def find_method_overloaded(cls: ast.ClassDef, name: str) -> ast.FunctionDef:
    """the last definition of `name` (the ones decorated with @overload come first)"""
    found = None
    for node in cls.body:
        if isinstance(node, ast.FunctionDef) and node.name == name:
            if not any(ast.unparse(d) == "overload" for d in node.decorator_list):
                found = node
    if found is None:
        raise Unsupported(f"{cls.name}.{name} not found")
    return found


def scan_classes():
    """all classes of the step packages: base kind, registered method names, own margins (lean term or None)"""
    desc_mod = parse(DESCRIPTORS)
    out = []
    files = sorted(glob.glob(os.path.join(REPO, "pandora", "*", "*.py")))
    rels = [os.path.relpath(f, REPO) for f in files]
    for rel in rels:
        if rel.startswith("pandora/margins/"):
            continue
        mod = parse(rel)
        for cls in [n for n in mod.body if isinstance(n, ast.ClassDef)]:
            base = None
            if cls.name in BASES:
                base = cls.name
            for b in cls.bases:
                bn = ast.unparse(b).split(".")[-1]
                if bn in BASES:
                    base = bn
            if base is None:
                continue
            methods = []
            for d in cls.decorator_list:
                if isinstance(d, ast.Call) and ast.unparse(d.func).endswith("register_subclass"):
                    for a in d.args:
                        if isinstance(a, ast.Constant) and isinstance(a.value, str):
                            methods.append(a.value)
                        else:
                            raise Unsupported(f"{cls.name}: register_subclass argument")
            own = None
            for node in cls.body:
                if isinstance(node, ast.Assign) and any(isinstance(t, ast.Name) and t.id == "margins" for t in node.targets):
                    if not isinstance(node.value, ast.Call):
                        raise Unsupported(f"{cls.name}.margins: expected a descriptor call")
                    own = descriptor_value(desc_mod, node.value)
                if isinstance(node, ast.FunctionDef) and node.name == "margins":
                    if [ast.unparse(d) for d in node.decorator_list] != ["property"]:
                        raise Unsupported(f"{cls.name}.margins: expected a plain property")
                    own = tr_margins_body(node.body)
                if isinstance(node, ast.AnnAssign) and isinstance(node.target, ast.Name) and node.target.id == "margins":
                    raise Unsupported(f"{cls.name}.margins: annotated assignment")
            out.append({"file": rel, "cls": cls.name, "base": base, "abstract": cls.name in BASES,
                        "methods": methods, "own": own})
    return out, rels


def registration():
    mod = parse(MACHINE)
    cls = find_class(mod, "PandoraMachine")
    rows = []
    for node in cls.body:
        if isinstance(node, ast.FunctionDef) and node.name.endswith("_check_conf"):
            regs = []
            for sub in ast.walk(node):
                if isinstance(sub, ast.Call) and ast.unparse(sub.func) in ("self.margins.add_cumulative", "self.margins.add_non_cumulative"):
                    if len(sub.args) != 2 or ast.unparse(sub.args[0]) != "input_step" or not ast.unparse(sub.args[1]).endswith("_.margins"):
                        raise Unsupported(f"{node.name}: unexpected margin registration {ast.unparse(sub)}")
                    regs.append("cumulative" if ast.unparse(sub.func).endswith("add_cumulative") else "non_cumulative")
                elif isinstance(sub, ast.Attribute) and ast.unparse(sub) == "self.margins" :
                    pass
            if len(regs) > 1:
                raise Unsupported(f"{node.name}: several margin registrations")
            if regs:
                # the registration must be unconditional: a statement of the function body itself, which no `return`
                # (nor a try/except swallowing it) can precede
                top = [i for i, st in enumerate(node.body)
                       if isinstance(st, ast.Expr) and isinstance(st.value, ast.Call)
                       and ast.unparse(st.value.func) in ("self.margins.add_cumulative", "self.margins.add_non_cumulative")]
                if len(top) != 1:
                    raise Unsupported(f"{node.name}: the margin registration is not an unconditional statement of the callback")
                for st in node.body[: top[0]]:
                    for sub in ast.walk(st):
                        if isinstance(sub, (ast.Return, ast.Try)):
                            raise Unsupported(f"{node.name}: a `{type(sub).__name__.lower()}` precedes the margin registration")
            rows.append((node.name, regs[0] if regs else "none"))
    # filter_check_conf must pass the image shape and the matching-cost step to the filter class
    f = find_method(cls, "filter_check_conf")
    ok = False
    for sub in ast.walk(f):
        if isinstance(sub, ast.Call) and ast.unparse(sub.func) == "filter.AbstractFilter":
            kws = {k.arg: ast.unparse(k.value) for k in sub.keywords}
            ok = (kws.get("image_shape") == "(self.left_img.sizes['row'], self.left_img.sizes['col'])"
                  and kws.get("step") == "self.step")
    if not ok:
        raise Unsupported("filter_check_conf: image_shape/step arguments changed")
    return rows


def check_glue():
    for rel, cname, meth, stmt in GLUE:
        cls = find_class(parse(rel), cname)
        fn = find_method(cls, meth)
        if not any(ast.unparse(s) == stmt for s in ast.walk(fn) if isinstance(s, ast.stmt)):
            raise Unsupported(f"{cname}.{meth}: expected statement `{stmt}` not found")


def extract():
    classes, rels = scan_classes()
    check_glue()
    regs = registration()
    # (kind, method) -> lean term, inheriting the base's margins when a class defines none
    base_term = {c["base"]: c["own"] for c in classes if c["abstract"]}
    table = []
    for c in classes:
        kind = BASES[c["base"]]
        term = c["own"] if c["own"] is not None else base_term.get(c["base"])
        for m in c["methods"]:
            table.append((kind, m, c["cls"], term))
    bases = [(BASES[c["base"]], c["cls"], c["own"]) for c in classes if c["abstract"]]
    return {"table": table, "registration": regs, "files": rels, "bases": bases}


def render(data) -> str:
    out = [
        "-- GENERATED by translator/gen_margins.py from the step classes, pandora/margins/descriptors.py and",
        "-- pandora/state_machine.py. Do not edit.",
        "import PandoraModel.Model.Margins",
        "",
        "namespace Pandora.Generated.Margins",
        "open Pandora.Margins",
        "",
        "/-- margins of the class registered for (kind, method), as computed by its `margins` attribute;",
        "    `none`: no such registered class, or a class without a `margins` attribute -/",
        "def marginOf (kind method : String) (c : StepCfg) (rows cols step : Int) : Option M4 :=",
    ]
    first = True
    for kind, method, cls, term in data["table"]:
        kw = "if" if first else "else if"
        first = False
        val = f"some {term}" if term is not None else "none"
        out.append(f"  {kw} kind == {lean_str(kind)} && method == {lean_str(method)} then {val}  -- {cls}")
    out.append("  else none" if not first else "  none")
    out.append("")
    out.append("/-- margins attribute of the abstract base class of a kind (inherited by plugins) -/")
    out.append("def baseMarginOf (kind : String) (c : StepCfg) (rows cols step : Int) : Option M4 :=")
    first = True
    for kind, cls, term in data["bases"]:
        kw = "if" if first else "else if"
        first = False
        val = f"some {term}" if term is not None else "none"
        out.append(f"  {kw} kind == {lean_str(kind)} then {val}  -- {cls}")
    out.append("  else none" if not first else "  none")
    out.append("")
    out.append("/-- (kind, method, class) of every registered built-in class -/")
    out.append("def registered : List (String × String × String) := [")
    out.append(",\n".join(f"  ({lean_str(k)}, {lean_str(m)}, {lean_str(c)})" for k, m, c, _ in data["table"]))
    out.append("]")
    out.append("")
    out.append("/-- how each check callback registers its step's margins -/")
    out.append("def registration : List (String × String) := [")
    out.append(",\n".join(f"  ({lean_str(cb)}, {lean_str(r)})" for cb, r in data["registration"]))
    out.append("]")
    out.append("")
    out.append("end Pandora.Generated.Margins")
    return "\n".join(out) + "\n"


def generate():
    data = extract()
    write_if_changed("Margins.lean", render(data))
    return {"T6": {"sources": len(data["files"]), "digest": digest(*data["files"], DESCRIPTORS, MACHINE),
                   "classes": len(data["table"]), "registrations": len(data["registration"])}}
