"""Self-test of translator/pyarr.py (array programs with aliasing), run with every `./check C10`.

`ACCEPTED`: small straight-line functions inside the subset, read two ways: CPython running the text on numpy arrays
(result AND every argument afterwards — aliasing is what is tested), `pyarr.evaluate` on the statement list.
`BLOCK_PROGRAMS`: three functions WITH a T8 block loop over a sliding-window view (private output, aliased output, copy of an
alias), read by `pyarr.evaluate` and by CPython on numpy with Pandora's own `sliding_window`; the aliased one must differ.
`REFUSED`: functions outside the subset — each must raise `Unsupported` (nothing is guessed).
"""
from __future__ import annotations

import ast
from fractions import Fraction

from . import pyarr
from .common import Unsupported

ACCEPTED = {
    "alias_then_fill": '''
def alias_then_fill(a, flags):
    """an alias: the caller's array is written; a copy: it is not; np.where / boolean mask; == False; ~"""
    b = a
    c = np.copy(a)
    m = np.isnan(c)
    c[np.where((flags & cst.PANDORA_MSK_PIXEL_INVALID) != 0)] = np.nan
    keep = np.isnan(c) == False
    b[~keep] = np.nan
    d = copy.deepcopy(b)
    d[m] = np.nan
    return d
''',
    "masked_copy": '''
def masked_copy(a, flags):
    """a[mask] = b[mask] with a mask taken before the store; np.logical_not; (…) == 0"""
    b = a.copy()
    b[(flags & cst.PANDORA_MSK_PIXEL_INVALID) == 0] = np.nan
    ok = np.isfinite(b)
    c = np.copy(a)
    c[np.logical_not(ok)] = np.nan
    a[ok] = c[ok]
    del b
    return c
''',
}

REFUSED = {
    "augmented store": "def f(a, flags):\n    a[np.isnan(a)] += 1\n    return a\n",
    "arithmetic on arrays": "def f(a, flags):\n    b = a + 1\n    return b\n",
    "slice store": "def f(a, flags):\n    a[0:2, :] = np.nan\n    return a\n",
    "index store": "def f(a, flags):\n    a[0, 1] = np.nan\n    return a\n",
    "shallow xarray-style copy": "def f(a, flags):\n    b = a.copy(deep=False)\n    return b\n",
    "np.asarray (may or may not copy)": "def f(a, flags):\n    b = np.asarray(a)\n    return b\n",
    "masked copy with two different masks": "def f(a, flags):\n    b = np.copy(a)\n    a[np.isnan(a)] = b[np.isfinite(a)]\n    return a\n",
    "masked store of an expression": "def f(a, flags):\n    a[np.isnan(a)] = 0 * 1\n    return a\n",
    "if statement": "def f(a, flags):\n    if True:\n        a[np.isnan(a)] = np.nan\n    return a\n",
    "while loop": "def f(a, flags):\n    while False:\n        pass\n    return a\n",
    "loop that is not a T8 block loop": "def f(a, flags):\n    for i in range(3):\n        a[np.isnan(a)] = np.nan\n    return a\n",
    "call of an unknown function": "def f(a, flags):\n    b = helper(a)\n    return b\n",
    "expression statement with an effect": "def f(a, flags):\n    a.fill(0)\n    return a\n",
    "np.copyto": "def f(a, flags):\n    b = np.copy(a)\n    np.copyto(a, b)\n    return a\n",
    "rebinding a name to another kind": "def f(a, flags):\n    m = np.isnan(a)\n    m = np.copy(a)\n    return m\n",
    "rebinding a parameter": "def f(a, flags):\n    a = np.copy(a)\n    return a\n",
    "return of an expression": "def f(a, flags):\n    return np.copy(a)\n",
    "no return": "def f(a, flags):\n    b = np.copy(a)\n",
    "statement after return": "def f(a, flags):\n    return a\n    a[np.isnan(a)] = np.nan\n",
    "flag test against a literal": "def f(a, flags):\n    a[(flags & 3) != 0] = np.nan\n    return a\n",
    "comparison of cells": "def f(a, flags):\n    a[a > 0] = np.nan\n    return a\n",
    "mask built from two masks": "def f(a, flags):\n    a[np.isnan(a) | np.isfinite(a)] = np.nan\n    return a\n",
    "view without a block loop reading a non-array": "def f(a, flags):\n    w = sliding_window(flags, (3, 3))\n    return a\n",
    "integer local outside a block loop": "def f(a, flags):\n    n = 3\n    return a\n",
    "lambda": "def f(a, flags):\n    g = lambda x: x\n    return a\n",
    "del of an element": "def f(a, flags):\n    del a[0]\n    return a\n",
    "with of something else": "def f(a, flags):\n    with open('x') as h:\n        pass\n    return a\n",
    "tuple assignment that is not a shape": "def f(a, flags):\n    b, c = a, a\n    return a\n",
}

# the construct seed C10-6 lives in: a T8 block loop writing `out` while the windows are VIEWS of `data` — once with a private
# output, once with `out = data` (later blocks then read written cells).  Small chunks so that 7 x 8 maps cross blocks.
BLOCK_PROGRAMS = {
    "blocks_private_output": "        out = np.copy(data)\n",
    "blocks_aliased_output": "        out = data\n",
    "blocks_copy_of_alias": "        tmp = data\n        out = np.copy(tmp)\n",
}
BLOCK_TEMPLATE = '''
class SelfTest:
    def NAME(self, data):
BINDING        bad = np.isnan(out)
        n_rows, n_cols = data.shape
        wins = sliding_window(data, (self._size, self._size))
        half = int(self._size / 2)
        step = 3
        rows_chunks = np.array_split(wins, np.arange(step, n_rows, step), axis=0)
        y_begin = half
        for chunk_y in rows_chunks:
            cols_chunks = np.array_split(chunk_y, np.arange(step, n_cols, step), axis=1)
            x_begin = half
            for chunk_x in cols_chunks:
                y_end = y_begin + chunk_y.shape[0]
                x_end = x_begin + chunk_x.shape[1]
                out[y_begin:y_end, x_begin:x_end] = np.nanmedian(chunk_x, axis=(2, 3))
                x_begin += chunk_x.shape[1]
            y_begin += chunk_y.shape[0]
        out[bad] = np.nan
        return out
'''

CONSTS = {"PANDORA_MSK_PIXEL_INVALID": 963}


def block_problems(seed=0):
    """accepted programs WITH a block loop, read three ways: `pyarr.evaluate` on the statement list, CPython running the text
    on numpy arrays with Pandora's own `sliding_window` (an independent interpreter of the whole function), and — for the
    aliased variant — the requirement that the two DIFFER from the private-output variant on a map crossing a block."""
    import os
    import random
    import tempfile
    import types
    import warnings

    import numpy as np

    from . import gen_blocks

    try:
        from pandora.common import sliding_window
    except Exception as exc:  # pylint: disable=broad-except
        return [f"block self-test: pandora.common.sliding_window not importable: {exc}"]
    rng = random.Random(seed + 17)
    out, results = [], {}
    maps = []
    for _ in range(5):
        ny, nx = rng.choice([(7, 8), (3, 9), (8, 4), (5, 5)])
        a = np.array([[float(rng.randrange(-9, 10)) for _ in range(nx)] for _ in range(ny)])
        a[rng.randrange(ny), rng.randrange(nx)] = np.nan
        maps.append(a)
    for name, binding in BLOCK_PROGRAMS.items():
        text = BLOCK_TEMPLATE.replace("NAME", name).replace("BINDING", binding)
        with tempfile.NamedTemporaryFile("w", suffix=".py", delete=False) as fh:
            fh.write(text)
            path = fh.name
        try:
            spec = pyarr.Spec(path, "SelfTest", name, name, arrays={"data": "data"}, nats={"self._size": "size"},
                              t8=("selftest", "self._size"))
            fn = pyarr.read_function(spec)
            t8 = {"selftest": gen_blocks.extract_one(path, "SelfTest", name, "self._size")}
        except Unsupported as exc:
            out.append(f"{name}: refused: {exc}")
            continue
        finally:
            os.unlink(path)
        env = {"np": np, "sliding_window": sliding_window}
        exec(compile(text, "<selftest>", "exec"), env)  # pylint: disable=exec-used
        obj = types.SimpleNamespace(_size=3)
        results[name] = []
        for a in maps:
            st = pyarr.PStore([[[pyarr.NAN if np.isnan(v) else Fraction(float(v)) for v in row] for row in a]])
            k = pyarr.evaluate(fn, st, a.shape[0], a.shape[1], {"data": 0}, nats={"size": 3}, t8=t8)
            arg = a.copy()
            with warnings.catch_warnings():
                warnings.simplefilter("ignore")
                real = getattr(env["SelfTest"], name)(obj, arg)

            def same(x, y):
                return all((pyarr.is_nan(p) and np.isnan(q)) or (not pyarr.is_nan(p) and not np.isnan(q) and p == Fraction(float(q)))
                           for rp, rq in zip(x, y) for p, q in zip(rp, rq))

            if not same(st.arr[k], real) or not same(st.arr[0], arg):
                out.append(f"{name}: evaluator differs from CPython (result or argument afterwards) on a {a.shape} map")
                break
            results[name].append([[None if pyarr.is_nan(v) else v for v in row] for row in st.arr[k]])
    if not out and results.get("blocks_private_output") == results.get("blocks_aliased_output"):
        out.append("block self-test: the aliased output gives the same maps as the private one (aliasing not exercised)")
    if not out and results.get("blocks_private_output") != results.get("blocks_copy_of_alias"):
        out.append("block self-test: a copy of an alias differs from a copy")
    return out



def _spec(name):
    return pyarr.Spec("<selftest>", "-", name, name, arrays={"a": "a"}, ints={"flags": "flags"})


def _read(name, text):
    return pyarr.read_function(_spec(name), ast.parse(text).body[0])


def refused_problems():
    out = []
    for what, text in REFUSED.items():
        try:
            _read("f", text)
        except Unsupported:
            continue
        except Exception as exc:  # pylint: disable=broad-except
            out.append(f"{what}: {type(exc).__name__} instead of Unsupported: {exc}")
            continue
        out.append(f"{what}: accepted")
    return out


def python_problems(seed=0):
    """the accepted functions: CPython on numpy arrays vs the evaluator (result and argument afterwards)"""
    import copy
    import random
    import types

    import numpy as np

    rng = random.Random(seed)
    out = []
    for name, text in ACCEPTED.items():
        try:
            fn = _read(name, text)
        except Unsupported as exc:
            out.append(f"{name}: refused: {exc}")
            continue
        env = {"np": np, "copy": copy, "cst": types.SimpleNamespace(**CONSTS)}
        exec(compile(text, "<selftest>", "exec"), env)  # pylint: disable=exec-used
        for _ in range(6):
            ny, nx = rng.choice([(2, 3), (3, 3), (1, 4)])
            a = np.array([[rng.choice([0.0, 1.5, -2.0, float("nan")]) for _ in range(nx)] for _ in range(ny)])
            flags = np.array([[rng.choice([0, 1, 4, 64, 2048]) for _ in range(nx)] for _ in range(ny)])
            st = pyarr.PStore([[[pyarr.NAN if np.isnan(v) else Fraction(float(v)) for v in row] for row in a]])
            k = pyarr.evaluate(fn, st, ny, nx, {"a": 0}, ints={"flags": flags.tolist()}, consts=CONSTS)
            real = env[name](a, flags)

            def same(x, y):
                return all((pyarr.is_nan(p) and np.isnan(q)) or (not pyarr.is_nan(p) and not np.isnan(q) and p == Fraction(float(q)))
                           for rp, rq in zip(x, y) for p, q in zip(rp, rq))

            if not same(st.arr[k], real) or not same(st.arr[0], a):
                out.append(f"{name}: evaluator differs from CPython (result or argument afterwards)")
                break
    return out
