"""T14i — INDEX extension of the vector sub-language of T14 (translator/pyvec.py): straight-line numpy code over ONE ROW of
a map that selects columns with `np.where`, reads / writes arrays through integer index vectors and builds small 2-D grids.
First client: the body of `for row in range(0, nb_row)` in `CrossCheckingAccurate.disparity_checking`
(translator/gen_kernels_crosscheck.py).  Support: lean/PandoraModel/Model/PyVecIdx.lean.  See
DESIGN_NOTES/translator_pyvec_idx.md.

    list of ast statements --RowTranslator--> RowKernel (SSA lets over typed primitive applications, explicit checks)
    RowKernel --render_lean--> Lean text           RowKernel --evaluate--> exact value (Fractions, "nan", "inf", "-inf")

Every primitive has ONE entry in `PRIMS` / `SCALAR_OPS`: its Lean spelling and its exact Python meaning; the translation
only composes them.  Anything that is not listed raises `Unsupported`.
Types: scalars `fl int nat bool`; vectors `v*`; grids `m*` (list of rows); `w2` = np.where of a Boolean grid and `r*` = a
vector obtained through it, both carried grouped by row.
"""
from __future__ import annotations

import ast
import math
from dataclasses import dataclass, field
from fractions import Fraction
from typing import Dict, List, Optional, Tuple

from .common import Unsupported

FNAN, PINF, NINF = "nan", "inf", "-inf"
INT_MIN = -(2 ** 63)


# ---------------------------------------------------------------------------------------------------------------- values
def is_special(x):
    return isinstance(x, str)


def fl_add(a, b):
    if a == FNAN or b == FNAN:
        return FNAN
    if is_special(a) and is_special(b):
        return a if a == b else FNAN
    if is_special(a):
        return a
    if is_special(b):
        return b
    return a + b


def fl_abs(a):
    if a == FNAN:
        return FNAN
    if is_special(a):
        return PINF
    return abs(a)


def fl_neg(a):
    if a == FNAN:
        return FNAN
    if a == PINF:
        return NINF
    if a == NINF:
        return PINF
    return -a


def fl_lt(a, b):
    if a == FNAN or b == FNAN:
        return False
    if b == NINF or a == PINF:
        return False
    if a == NINF or b == PINF:
        return True
    return a < b


def fl_eq(a, b):
    if a == FNAN or b == FNAN:
        return False
    return a == b


def fl_le(a, b):
    return fl_lt(a, b) or fl_eq(a, b)


def rint_q(x: Fraction) -> int:
    f = math.floor(x)
    r = x - f
    if r < Fraction(1, 2):
        return f
    if r > Fraction(1, 2):
        return f + 1
    return f if f % 2 == 0 else f + 1


def fl_rint(a):
    return a if is_special(a) else Fraction(rint_q(a))


def cast_int(a):
    if is_special(a):
        return INT_MIN
    return math.floor(a) if a >= 0 else -math.floor(-a)


def where_idx(b):
    return [i for i, x in enumerate(b) if x]


def in_range(n, i):
    return 0 <= i < n


def gather(d, v, idx):
    return [v[i] if 0 <= i < len(v) else d for i in idx]


def gather_ok(v, idx):
    return all(in_range(len(v), i) for i in idx)


def scatter_set(v, idx, vals):
    out = list(v)
    for i, x in zip(idx, vals):
        if 0 <= i < len(out):
            out[i] = x
    return out


def scatter_ok(v, idx, vals):
    return gather_ok(v, idx) and len(idx) == len(vals)


def same_shape(a, b):
    return len(a) == len(b) and all(len(x) == len(y) for x, y in zip(a, b))


# scalar operations: name -> (Lean function, Python function, argument kinds, result kind)
SCALAR_OPS = {
    "fadd": ("PyLoops.Fl.add", fl_add, ("fl", "fl"), "fl"),
    "fabs": ("PyLoops.Fl.abs", fl_abs, ("fl",), "fl"),
    "fneg": ("PyLoops.Fl.neg", fl_neg, ("fl",), "fl"),
    "flt": ("PyLoops.Fl.lt", fl_lt, ("fl", "fl"), "bool"),
    "fle": ("PyLoops.Fl.le", fl_le, ("fl", "fl"), "bool"),
    "feq": ("PyLoops.Fl.eq", fl_eq, ("fl", "fl"), "bool"),
    "fisnan": ("PyLoops.Fl.isNan", lambda a: a == FNAN, ("fl",), "bool"),
    "frint": ("PyVecIdx.rint", fl_rint, ("fl",), "fl"),
    "fcastint": ("PyVecIdx.castInt", cast_int, ("fl",), "int"),
    "ofint": ("PyVec.ofInt", lambda a: Fraction(a), ("int",), "fl"),
    "iadd": ("Int.add", lambda a, b: a + b, ("int", "int"), "int"),
    "imul": ("Int.mul", lambda a, b: a * b, ("int", "int"), "int"),
    "ineg": ("Int.neg", lambda a: -a, ("int",), "int"),
    "ilt": ("PyVecIdx.ilt", lambda a, b: a < b, ("int", "int"), "bool"),
    "ile": ("PyVecIdx.ile", lambda a, b: a <= b, ("int", "int"), "bool"),
    "ieq": ("PyVecIdx.ieq", lambda a, b: a == b, ("int", "int"), "bool"),
    "nland": ("Nat.land", lambda a, b: a & b, ("nat", "nat"), "nat"),
    "nadd": ("Nat.add", lambda a, b: a + b, ("nat", "nat"), "nat"),
    "nsub": ("Nat.sub", lambda a, b: max(a - b, 0), ("nat", "nat"), "nat"),
    "neq": ("PyVecIdx.neq", lambda a, b: a == b, ("nat", "nat"), "bool"),
    "band": ("and", lambda a, b: a and b, ("bool", "bool"), "bool"),
    "bor": ("or", lambda a, b: a or b, ("bool", "bool"), "bool"),
    "castu16": ("PyVecIdx.castU16", lambda a: max(a, 0), ("int",), "nat"),
    "u16ok": ("PyVecIdx.u16Ok", lambda a: 0 <= a < 65536, ("int",), "bool"),
    "u16addok": ("PyVecIdx.u16AddOk", lambda a, b: a + b < 65536, ("nat", "nat"), "bool"),
    "u16subok": ("PyVecIdx.u16SubOk", lambda a, b: b <= a, ("nat", "nat"), "bool"),
}

DEFAULTS = {"fl": ("PyLoops.Fl.nan", FNAN), "int": ("(0 : Int)", 0), "nat": ("(0 : Nat)", 0), "bool": ("false", False)}
LEAN_SCALAR = {"fl": "PyLoops.Fl", "int": "Int", "nat": "Nat", "bool": "Bool"}


def lean_type(ty: str) -> str:
    if ty in LEAN_SCALAR:
        return LEAN_SCALAR[ty]
    if ty == "w2":
        return "List (List Int)"
    base = LEAN_SCALAR[ty[1:]]
    return f"List {base}" if ty[0] == "v" else f"List (List {base})"


# ---------------------------------------------------------------------------------------------------------------- tree
@dataclass
class Ex:
    """kind: var | lit | sop (scalar op) | lift (element-wise op over a vector / grid) | prim (PRIMS entry)"""
    kind: str
    ty: str
    name: str = ""            # variable, scalar op or primitive
    args: Tuple = ()
    value: object = None      # literal
    shape: str = ""           # lift: one of v1 vR vL vv m1 mR mL mm


def rank(ty: str) -> str:
    return "" if ty in LEAN_SCALAR else ("v" if ty[0] == "v" else "m")


def base(ty: str) -> str:
    return ty if ty in LEAN_SCALAR else ty[1:]


# vector / grid primitives: name -> (Lean template with {0} {1} … , Python function)
PRIMS = {
    "len": ("(PyVec.len {0})", lambda v: len(v)),
    "arange": ("(PyVec.arange {0})", lambda n: list(range(max(n, 0)))),
    "full": ("(PyVec.full {0} {1})", lambda c, n: [c] * max(n, 0)),
    "whereIdx": ("(PyVecIdx.whereIdx {0})", where_idx),
    "gather": ("(PyVec.gather {0} {1} {2})", gather),
    "gatherOk": ("(PyVec.gatherOk {0} {1})", gather_ok),
    "select": ("(PyVec.select {0} {1})", lambda v, m: [x for x, b in zip(v, m) if b]),
    "maskSet": ("(PyVec.maskSet {0} {1} {2})", lambda v, m, c: [c if b else x for x, b in zip(v, m)]),
    "sameLen": ("(PyVec.sameLen {0} {1})", lambda a, b: len(a) == len(b)),
    "scatterSet": ("(PyVecIdx.scatterSet {0} {1} {2})", scatter_set),
    "scatterOk": ("(PyVecIdx.scatterOk {0} {1} {2})", scatter_ok),
    "concat": ("(PyVecIdx.concat {0} {1})", lambda a, b: list(a) + list(b)),
    "tileRows": ("(PyVecIdx.tileRows {0} {1})", lambda v, k: [list(v) for _ in range(max(k, 0))]),
    "tileCols": ("(PyVecIdx.tileCols {0} {1})", lambda v, m: [[x] * max(m, 0) for x in v]),
    "sameShape": ("(PyVecIdx.sameShape {0} {1})", same_shape),
    "fullLike": ("(PyVecIdx.fullLike {0} {1})", lambda c, m: [[c] * len(r) for r in m]),
    "where2": ("(PyVecIdx.where2 {0})", lambda b: [where_idx(r) for r in b]),
    "gather2": ("(PyVecIdx.gather2 {0} {1} {2})", lambda d, m, w: [gather(d, r, i) for r, i in zip(m, w)]),
    "gather2Ok": ("(PyVecIdx.gather2Ok {0} {1})",
                  lambda m, w: len(m) == len(w) and all(gather_ok(r, i) for r, i in zip(m, w))),
    "rgather": ("(PyVecIdx.rgather {0} {1} {2})", lambda d, v, w: [gather(d, v, i) for i in w]),
    "rgatherOk": ("(PyVecIdx.rgatherOk {0} {1})", lambda v, w: all(gather_ok(v, i) for i in w)),
    "scatter2": ("(PyVecIdx.scatter2 {0} {1} {2})",
                 lambda m, w, x: [scatter_set(r, i, v) for r, i, v in zip(m, w, x)]),
    "scatter2Ok": ("(PyVecIdx.scatter2Ok {0} {1} {2})",
                   lambda m, w, x: len(m) == len(w) == len(x) and all(scatter_ok(r, i, v) for r, i, v in zip(m, w, x))),
    "rowCounts": ("(PyVecIdx.rowCounts {0})", lambda m: [sum(1 for b in r if b) for r in m]),
    "allTrue": ("(List.all {0} id)", lambda v: all(v)),
    "allTrue2": ("(List.all {0} (fun r => List.all r id))", lambda m: all(all(r) for r in m)),
}


def var(name, ty):
    return Ex("var", ty, name=name)


def lit(ty, value):
    return Ex("lit", ty, value=value)


def prim(name, ty, *args):
    return Ex("prim", ty, name=name, args=tuple(args))


@dataclass
class RowKernel:
    lean_name: str
    params: List[Tuple[str, str]]                      # (Lean name, type)
    lets: List[Tuple[str, Ex]] = field(default_factory=list)   # SSA
    checks: List[str] = field(default_factory=list)    # names of Boolean lets
    results: List[Tuple[str, str]] = field(default_factory=list)  # (Lean name of the final value, type)
    notes: List[str] = field(default_factory=list)
    source: str = ""
    origin: str = ""
    meta: Dict[str, object] = field(default_factory=dict)
    cuts: List[int] = field(default_factory=list)      # indices in `lets` where a new stage definition starts


# ---------------------------------------------------------------------------------------------------------------- translation
class RowTranslator:  # noqa: R0902
    """Translates a list of statements.  `arrays` maps the source text of a 2-D array expression (e.g.
    `dataset_left['disparity_map'].data`) to (Lean parameter name, element kind, writable); they may only be subscripted
    `[row_var, …]`.  `scalars` maps source text (`self._threshold`, `nb_col`) to an `Ex`.  `consts` gives the integer value of
    `<cst alias>.NAME`."""

    def __init__(self, row_var: str, arrays: Dict[str, Tuple[str, str, bool]], scalars: Dict[str, Ex],
                 consts: Dict[str, int], numpy_names=("np",), const_names=("cst",)):
        self.row_var = row_var
        self.arrays = arrays
        self.scalars = scalars
        self.consts = consts
        self.np = set(numpy_names)
        self.cst = set(const_names)
        self.env: Dict[str, Ex] = {}
        self.state: Dict[str, Ex] = {}       # Lean parameter name -> current value (a var)
        self.lets: List[Tuple[str, Ex]] = []
        self.checks: List[str] = []
        self.used = set()
        self.notes: List[str] = []

    # ---- helpers
    def bad(self, node, msg):
        text = ast.unparse(node) if isinstance(node, ast.AST) else str(node)
        raise Unsupported(f"pyvec_idx: {msg}: `{text[:100]}`")

    def fresh(self, stem: str) -> str:
        stem = stem if stem.isidentifier() else "t"
        name, k = stem, 0
        while name in self.used:
            k += 1
            name = f"{stem}_{k}"
        self.used.add(name)
        return name

    def bind(self, stem: str, e: Ex) -> Ex:
        name = self.fresh(stem)
        self.lets.append((name, e))
        return var(name, e.ty)

    def check(self, e: Ex):
        if e.ty != "bool":
            raise Unsupported("pyvec_idx: internal: a check must be Boolean")
        self.checks.append(self.bind("ok", e).name)

    def is_np(self, node, attr=None):
        return (isinstance(node, ast.Attribute) and isinstance(node.value, ast.Name) and node.value.id in self.np
                and (attr is None or node.attr == attr))

    def np_call(self, node, name):
        return isinstance(node, ast.Call) and self.is_np(node.func, name)

    # ---- scalar ops and lifting
    def sop(self, op: str, *args: Ex) -> Ex:
        _, _, kinds, res = SCALAR_OPS[op]
        if len(kinds) != len(args):
            raise Unsupported(f"pyvec_idx: internal: arity of {op}")
        ranks = [rank(a.ty) for a in args]
        for a, k in zip(args, kinds):
            if base(a.ty) != k:
                raise Unsupported(f"pyvec_idx: operand of kind {a.ty} where {k} is expected ({op})")
        top = max(ranks, key=len) if ranks else ""
        if any(a.ty == "w2" for a in args):
            raise Unsupported("pyvec_idx: arithmetic on an index tuple")
        if top == "":
            return Ex("sop", res, name=op, args=tuple(args))
        prefs = {a.ty[0] for a in args if rank(a.ty) == top}   # v, m or r (grouped vector: same representation as m)
        if len(prefs) != 1:
            raise Unsupported("pyvec_idx: a grid combined with a grouped vector")
        pref = prefs.pop()
        if len(args) == 1:
            return Ex("lift", pref + res, name=op, args=tuple(args), shape=top + "1")
        a, b = args
        if ranks[0] == ranks[1]:
            self.check(prim("sameLen" if top == "v" else "sameShape", "bool", a, b))
            return Ex("lift", pref + res, name=op, args=(a, b), shape=top + top)
        if ranks[1] == "":
            return Ex("lift", pref + res, name=op, args=(a, b), shape=top + "R")
        if ranks[0] == "":
            return Ex("lift", pref + res, name=op, args=(a, b), shape=top + "L")
        raise Unsupported("pyvec_idx: a vector combined with a grid")

    def coerce(self, a: Ex, b: Ex) -> Tuple[Ex, Ex, str]:
        """numeric promotion of two operands -> (a, b, kind)"""
        ka, kb = base(a.ty), base(b.ty)
        if ka == kb:
            return a, b, ka
        # integer literals and constants adopt the other operand's kind
        for x, y, swap in ((a, b, False), (b, a, True)):
            if x.kind == "lit" and x.ty == "int":
                ky = base(y.ty)
                if ky == "nat" and x.value >= 0:
                    x2 = lit("nat", x.value)
                elif ky == "fl":
                    x2 = lit("fl", Fraction(x.value))
                else:
                    continue
                return (y, x2, ky) if swap else (x2, y, ky)
        if {ka, kb} == {"fl", "int"}:
            a2 = self.sop("ofint", a) if ka == "int" else a
            b2 = self.sop("ofint", b) if kb == "int" else b
            return a2, b2, "fl"
        raise Unsupported(f"pyvec_idx: operands of kinds {a.ty} and {b.ty}")

    def arith(self, node, op, a: Ex, b: Ex) -> Ex:
        if isinstance(op, (ast.BitAnd, ast.BitOr)) and base(a.ty) == "bool" and base(b.ty) == "bool":
            return self.sop("band" if isinstance(op, ast.BitAnd) else "bor", a, b)
        a, b, k = self.coerce(a, b)
        table = {("fl", ast.Add): "fadd", ("int", ast.Add): "iadd", ("int", ast.Mult): "imul", ("nat", ast.BitAnd): "nland",
                 ("nat", ast.Add): "nadd"}
        name = table.get((k, type(op)))
        if name is None:
            self.bad(node, f"operator on {k}")
        return self.sop(name, a, b)

    def compare(self, node, op, a: Ex, b: Ex) -> Ex:
        a, b, k = self.coerce(a, b)
        if isinstance(op, (ast.Gt, ast.GtE)):   # a > b  is  b < a
            a, b = b, a
            op = ast.Lt() if isinstance(op, ast.Gt) else ast.LtE()
        table = {("fl", ast.Lt): "flt", ("fl", ast.LtE): "fle", ("fl", ast.Eq): "feq", ("int", ast.Lt): "ilt",
                 ("int", ast.LtE): "ile", ("int", ast.Eq): "ieq", ("nat", ast.Eq): "neq"}
        name = table.get((k, type(op)))
        if name is None:
            self.bad(node, f"comparison on {k}")
        return self.sop(name, a, b)

    # ---- expressions
    def expr(self, node) -> Ex:  # noqa: C901
        text = ast.unparse(node)
        if text in self.scalars:
            return self.scalars[text]
        if isinstance(node, ast.Name):
            if node.id in self.env:
                return self.env[node.id]
            self.bad(node, "unknown name")
        if isinstance(node, ast.Constant):
            if isinstance(node.value, bool):
                self.bad(node, "Boolean literal")
            if isinstance(node.value, int):
                return lit("int", node.value)
            if isinstance(node.value, float):
                return lit("fl", Fraction(repr(node.value)))
            self.bad(node, "literal")
        if self.is_np(node, "nan"):
            return lit("fl", FNAN)
        if self.is_np(node, "inf"):
            return lit("fl", PINF)
        if isinstance(node, ast.Attribute) and isinstance(node.value, ast.Name) and node.value.id in self.cst:
            if node.attr not in self.consts:
                self.bad(node, "unknown constant")
            return lit("int", int(self.consts[node.attr]))
        if isinstance(node, ast.UnaryOp) and isinstance(node.op, ast.USub):
            e = self.expr(node.operand)
            if e.kind == "lit" and e.ty == "int":
                return lit("int", -e.value)
            if e.kind == "lit" and e.ty == "fl" and not is_special(e.value):
                return lit("fl", -e.value)
            return self.sop("ineg" if base(e.ty) == "int" else "fneg", e)
        if isinstance(node, ast.BinOp):
            return self.arith(node, node.op, self.expr(node.left), self.expr(node.right))
        if isinstance(node, ast.Compare):
            if len(node.ops) != 1:
                self.bad(node, "chained comparison")
            return self.compare(node, node.ops[0], self.expr(node.left), self.expr(node.comparators[0]))
        if isinstance(node, ast.Call):
            return self.call(node)
        if isinstance(node, ast.Subscript):
            return self.subscript(node)
        self.bad(node, "expression outside the subset")

    def int_scalar(self, node, what) -> Ex:
        e = self.expr(node)
        if e.ty != "int":
            self.bad(node, f"{what} must be an integer")
        return e

    def dtype_of(self, node) -> str:
        text = ast.unparse(node)
        if text == "int" or any(text == f"{n}.int64" for n in self.np):
            return "int"
        if any(text == f"{n}.float32" for n in self.np):
            return "fl"
        if any(text == f"{n}.uint16" for n in self.np):
            return "u16"
        self.bad(node, "dtype")

    def tile(self, node):
        """np.tile(v, (k, 1)) -> (v, k)"""
        if len(node.args) != 2 or node.keywords:
            self.bad(node, "np.tile arguments")
        reps = node.args[1]
        if not (isinstance(reps, ast.Tuple) and len(reps.elts) == 2 and isinstance(reps.elts[1], ast.Constant)
                and reps.elts[1].value == 1):
            self.bad(node, "np.tile repetitions must be (k, 1)")
        v = self.expr(node.args[0])
        if rank(v.ty) != "v":
            self.bad(node, "np.tile of a non-vector")
        return v, self.int_scalar(reps.elts[0], "repetition count")

    def call(self, node: ast.Call) -> Ex:  # noqa: C901
        f = node.func
        if isinstance(f, ast.Name) and f.id == "len" and len(node.args) == 1 and not node.keywords:
            v = self.expr(node.args[0])
            if rank(v.ty) != "v":
                self.bad(node, "len of a non-vector")
            return prim("len", "int", v)
        if isinstance(f, ast.Attribute) and f.attr == "astype" and len(node.args) == 1 and not node.keywords:
            x = self.expr(f.value)
            to = self.dtype_of(node.args[0])
            k = base(x.ty)
            if to == "int" and k == "fl":
                return self.sop("fcastint", x)
            if to == "fl" and k == "int":
                return self.sop("ofint", x)
            if to == "u16" and k == "int":
                if rank(x.ty) != "v":
                    self.bad(node, "uint16 cast of a non-vector")
                x = self.bind("t", x) if x.kind != "var" else x
                self.check(prim("allTrue", "bool", self.sop("u16ok", x)))
                return self.sop("castu16", x)
            if to == k:
                return x
            self.bad(node, f"astype from {x.ty}")
        if isinstance(f, ast.Attribute) and f.attr == "transpose" and not node.args and not node.keywords \
                and self.np_call(f.value, "tile"):
            v, m = self.tile(f.value)
            return prim("tileCols", "m" + base(v.ty), v, m)
        if self.np_call(node, "tile"):
            v, k = self.tile(node)
            return prim("tileRows", "m" + base(v.ty), v, k)
        if self.np_call(node, "where"):
            if len(node.args) != 1 or node.keywords:
                self.bad(node, "np.where with several arguments")
            b = self.expr(node.args[0])
            if b.ty == "vbool":
                return prim("whereIdx", "vint", b)
            if b.ty == "mbool":
                return prim("where2", "w2", b)
            self.bad(node, "np.where of a non-Boolean array")
        if self.np_call(node, "arange"):
            kws = {k.arg: k.value for k in node.keywords}
            if len(node.args) != 1 or set(kws) - {"dtype"} or ("dtype" in kws and self.dtype_of(kws["dtype"]) != "int"):
                self.bad(node, "np.arange form")
            return prim("arange", "vint", self.int_scalar(node.args[0], "np.arange bound"))
        for name, op in (("rint", "frint"), ("abs", "fabs"), ("isnan", "fisnan")):
            if self.np_call(node, name):
                if len(node.args) != 1 or node.keywords:
                    self.bad(node, f"np.{name} arguments")
                x = self.expr(node.args[0])
                if base(x.ty) != "fl":
                    self.bad(node, f"np.{name} of a non-float")
                return self.sop(op, x)
        if self.np_call(node, "concatenate"):
            if len(node.args) != 1 or node.keywords or not isinstance(node.args[0], ast.Tuple) or len(node.args[0].elts) != 2:
                self.bad(node, "np.concatenate form")
            a, b = (self.expr(x) for x in node.args[0].elts)
            if a.ty != b.ty or rank(a.ty) != "v":
                self.bad(node, "np.concatenate operands")
            return prim("concat", a.ty, a, b)
        if self.np_call(node, "full"):
            kws = {k.arg: k.value for k in node.keywords}
            if len(node.args) != 2 or set(kws) - {"dtype"} or self.dtype_of(kws.get("dtype", ast.parse("np.float32").body[0].value)) != "fl":
                self.bad(node, "np.full form")
            shp = node.args[0]
            if not (isinstance(shp, ast.Attribute) and shp.attr == "shape"):
                self.bad(node, "np.full shape must be <grid>.shape")
            m = self.expr(shp.value)
            c = self.expr(node.args[1])
            if rank(m.ty) != "m" or c.ty != "fl":
                self.bad(node, "np.full operands")
            return prim("fullLike", "mfl", c, m)
        if self.np_call(node, "sum"):
            kws = {k.arg: k.value for k in node.keywords}
            if len(node.args) != 1 or set(kws) != {"axis"} or ast.unparse(kws["axis"]) != "1":
                self.bad(node, "np.sum form (axis=1 only)")
            m = self.expr(node.args[0])
            if m.ty != "mbool":
                self.bad(node, "np.sum of a non-Boolean grid")
            return prim("rowCounts", "vint", m)
        self.bad(node, "call outside the subset")

    def array_ref(self, node: ast.Subscript):
        """`<array>[row, X]` -> (Lean parameter, kind, writable, X node)"""
        text = ast.unparse(node.value)
        if text not in self.arrays:
            return None
        sl = node.slice
        if not (isinstance(sl, ast.Tuple) and len(sl.elts) == 2 and isinstance(sl.elts[0], ast.Name)
                and sl.elts[0].id == self.row_var):
            self.bad(node, "a map may only be subscripted [row, …]")
        return self.arrays[text] + (sl.elts[1],)

    def current(self, pname: str, kind: str) -> Ex:
        return self.state.get(pname, var(pname, "v" + kind))

    def index_read(self, node, v: Ex, idx: Ex) -> Ex:
        k = base(v.ty)
        d = lit(k, DEFAULTS[k][1])
        if rank(v.ty) == "v" and idx.ty == "vint":
            self.check(prim("gatherOk", "bool", v, idx))
            return prim("gather", v.ty, d, v, idx)
        if rank(v.ty) == "v" and idx.ty == "vbool":
            self.check(prim("sameLen", "bool", v, idx))
            return prim("select", v.ty, v, idx)
        if rank(v.ty) == "v" and idx.ty == "rint":
            self.check(prim("rgatherOk", "bool", v, idx))
            return prim("rgather", "r" + k, d, v, idx)
        if rank(v.ty) == "m" and v.ty[0] == "m" and idx.ty == "w2":
            self.check(prim("gather2Ok", "bool", v, idx))
            return prim("gather2", "r" + k, d, v, idx)
        self.bad(node, f"subscript of {v.ty} by {idx.ty}")

    def subscript(self, node: ast.Subscript) -> Ex:
        ref = self.array_ref(node)
        if ref is not None:
            pname, kind, _, ix = ref
            cur = self.current(pname, kind)
            if isinstance(ix, ast.Slice) and ix.lower is None and ix.upper is None and ix.step is None:
                return cur
            return self.index_read(node, cur, self.as_var(self.expr(ix)))
        v = self.expr(node.value)
        if isinstance(node.slice, (ast.Slice, ast.Tuple)):
            self.bad(node, "slice")
        return self.index_read(node, self.as_var(v), self.as_var(self.expr(node.slice)))

    def as_var(self, e: Ex) -> Ex:
        return e if e.kind in ("var", "lit") else self.bind("t", e)

    # ---- statements
    def statements(self, stmts):
        for st in stmts:
            self.statement(st)

    def statement(self, st):  # noqa: C901
        if isinstance(st, ast.Expr) and isinstance(st.value, ast.Constant) and isinstance(st.value.value, str):
            return
        if isinstance(st, ast.Assign) and len(st.targets) == 1:
            t = st.targets[0]
            if isinstance(t, ast.Name):
                if ast.unparse(t) in self.scalars or t.id == self.row_var:
                    self.bad(st, "assignment to a name bound outside the row body")
                self.env[t.id] = self.bind(t.id, self.expr(st.value))
                return
            if isinstance(t, ast.Subscript):
                self.store(st, t, None, st.value)
                return
        if isinstance(st, ast.AugAssign) and isinstance(st.target, ast.Subscript):
            self.store(st, st.target, st.op, st.value)
            return
        self.bad(st, "statement outside the subset")

    def store(self, st, t: ast.Subscript, op, value_node):  # noqa: C901
        ref = self.array_ref(t)
        value = self.as_var(self.expr(value_node))
        if ref is not None:
            pname, kind, writable, ix = ref
            if not writable:
                self.bad(st, "write to a read-only map")
            idx = self.as_var(self.expr(ix))
            if idx.ty != "vint":
                self.bad(st, "a map row may only be written through an integer index vector")
            cur = self.current(pname, kind)
            if op is not None:
                old = self.as_var(self.index_read(st, cur, idx))
                if kind != "nat" or not isinstance(op, (ast.Add, ast.Sub)):
                    self.bad(st, "augmented assignment outside the subset")
                value = self.to_kind(st, value, "nat")
                okop, doop = ("u16addok", "nadd") if isinstance(op, ast.Add) else ("u16subok", "nsub")
                self.check(prim("allTrue", "bool", self.sop(okop, old, value)))
                value = self.as_var(self.sop(doop, old, value))
            else:
                value = self.to_kind(st, value, kind)
            if rank(value.ty) != "v":
                self.bad(st, "a scalar assigned through an index vector")
            self.check(prim("scatterOk", "bool", cur, idx, value))
            self.state[pname] = self.bind(pname, prim("scatterSet", cur.ty, cur, idx, value))
            return
        if not isinstance(t.value, ast.Name) or t.value.id not in self.env:
            self.bad(st, "assignment target")
        x = self.env[t.value.id]
        idx = self.as_var(self.expr(t.slice))
        if op is not None:
            self.bad(st, "augmented assignment to a local")
        if rank(x.ty) == "v" and idx.ty == "vbool" and rank(value.ty) == "":
            value = self.to_kind(st, value, base(x.ty))
            self.check(prim("sameLen", "bool", x, idx))
            self.env[t.value.id] = self.bind(t.value.id, prim("maskSet", x.ty, x, idx, value))
            return
        if rank(x.ty) == "m" and idx.ty == "w2" and value.ty == "r" + base(x.ty):
            self.check(prim("scatter2Ok", "bool", x, idx, value))
            self.env[t.value.id] = self.bind(t.value.id, prim("scatter2", x.ty, x, idx, value))
            return
        self.bad(st, f"assignment of {value.ty} into {x.ty} through {idx.ty}")

    def to_kind(self, st, e: Ex, kind: str) -> Ex:
        if base(e.ty) == kind:
            return e
        if e.kind == "lit" and e.ty == "int" and kind == "nat" and e.value >= 0:
            return lit("nat", e.value)
        if e.kind == "lit" and e.ty == "int" and kind == "fl":
            return lit("fl", Fraction(e.value))
        self.bad(st, f"value of kind {e.ty} where {kind} is expected")


# ---------------------------------------------------------------------------------------------------------------- Lean
def lean_lit(ty, v) -> str:
    if ty == "fl":
        if v == FNAN:
            return "PyLoops.Fl.nan"
        if v == PINF:
            return "PyLoops.Fl.pinf"
        if v == NINF:
            return "PyLoops.Fl.ninf"
        q = Fraction(v)
        if q.denominator == 1:
            return f"(PyLoops.Fl.fin ({q.numerator} : Rat))"
        return f"(PyLoops.Fl.fin (({q.numerator} : Rat) / {q.denominator}))"
    if ty == "int":
        return f"({v} : Int)"
    if ty == "nat":
        return f"({v} : Nat)"
    if ty == "bool":
        return "true" if v else "false"
    raise Unsupported(f"pyvec_idx: literal of type {ty}")


def lean_expr(e: Ex) -> str:
    if e.kind == "var":
        return e.name
    if e.kind == "lit":
        return lean_lit(e.ty, e.value)
    if e.kind == "sop":
        return "(" + " ".join([SCALAR_OPS[e.name][0]] + [lean_expr(a) for a in e.args]) + ")"
    if e.kind == "lift":
        f = SCALAR_OPS[e.name][0]
        a = [lean_expr(x) for x in e.args]
        sh = e.shape
        if sh == "v1":
            return f"(List.map {f} {a[0]})"
        if sh == "vR":
            return f"(PyVec.mapR {f} {a[0]} {a[1]})"
        if sh == "vL":
            return f"(PyVec.mapL {f} {a[0]} {a[1]})"
        if sh == "vv":
            return f"(PyVec.zip2 {f} {a[0]} {a[1]})"
        if sh == "m1":
            return f"(PyVecIdx.mmap {f} {a[0]})"
        if sh == "mR":
            return f"(PyVecIdx.mmap (fun x => {f} x {a[1]}) {a[0]})"
        if sh == "mL":
            return f"(PyVecIdx.mmap (fun x => {f} {a[0]} x) {a[1]})"
        if sh == "mm":
            return f"(PyVecIdx.mzip {f} {a[0]} {a[1]})"
    if e.kind == "prim":
        return PRIMS[e.name][0].format(*[lean_expr(a) for a in e.args])
    raise Unsupported(f"pyvec_idx: cannot render {e.kind}")


def lean_type_of(ty: str) -> str:
    if ty.startswith("r"):
        return "List (List " + LEAN_SCALAR[ty[1:]] + ")"
    return lean_type(ty)


def free_vars(e: Ex, acc: set) -> set:
    if e.kind == "var":
        acc.add(e.name)
    for a in e.args:
        free_vars(a, acc)
    return acc


def has_grid(e: Ex) -> bool:
    """some sub-expression is a 2-D grid, an index tuple of one, or a vector read through it"""
    if e.ty not in LEAN_SCALAR and e.ty[0] in "mrw":
        return True
    return any(has_grid(a) for a in e.args)


def stage_plan(k: RowKernel):
    """-> [(inputs [(name, ty)], lets, checks, outputs [(name, ty)])] for the stages delimited by `k.cuts`.
    A stage receives the parameters it reads and everything the previous stage hands over; it hands over every value defined so
    far that a later stage (or the result) still reads.  The tests of a stage are decided at its end."""
    bounds = [0] + list(k.cuts) + [len(k.lets)]
    types = dict(k.params)
    types.update({n: e.ty for n, e in k.lets})
    checks = set(k.checks)
    plan, prev_out = [], []
    for s in range(len(bounds) - 1):
        seg = k.lets[bounds[s]:bounds[s + 1]]
        used = set()
        for _, e in seg:
            free_vars(e, used)
        later = {n for n, _ in k.results}
        for _, e in k.lets[bounds[s + 1]:]:
            free_vars(e, later)
        if s == len(bounds) - 2:
            out = list(k.results)
        else:
            out = [(n, types[n]) for n, _ in k.lets[:bounds[s + 1]] if n in later and n not in checks]
        inputs = [(n, t) for n, t in k.params if n in used] + prev_out
        plan.append((inputs, seg, [n for n, _ in seg if n in checks], out))
        prev_out = out
    return plan


def render_stage(name, inputs, lets, checks, out) -> str:
    res_ty = " × ".join(lean_type_of(t) for _, t in out)
    lines = [f"def {name} " + " ".join(f"({n} : {lean_type_of(t)})" for n, t in inputs) + f" : PyVec.Res ({res_ty}) :="]
    for n, e in lets:
        lines.append(f"  let {n} : {lean_type_of(e.ty)} := {lean_expr(e)}")
    ok = " && ".join(checks) if checks else "true"
    lines.append(f"  if {ok} then PyVec.Res.ok ({', '.join(n for n, _ in out)}) else PyVec.Res.shapeError")
    return "\n".join(lines) + "\n"


def render_lean(k: RowKernel) -> str:
    if not k.cuts:
        return render_stage(k.lean_name, k.params, k.lets, k.checks, k.results)
    plan = stage_plan(k)
    text = []
    for s, (inputs, lets, checks, out) in enumerate(plan):
        text.append(render_stage(f"{k.lean_name}_s{s + 1}", inputs, lets, checks, out))
    res_ty = " × ".join(lean_type_of(t) for _, t in k.results)
    lines = [f"/-- the stages composed: a stage that meets a shape / bounds error ends the row -/",
             f"def {k.lean_name} " + " ".join(f"({n} : {lean_type_of(t)})" for n, t in k.params) + f" : PyVec.Res ({res_ty}) :="]
    for s, (inputs, _, _, out) in enumerate(plan):
        call = f"{k.lean_name}_s{s + 1} " + " ".join(n for n, _ in inputs)
        if s == len(plan) - 1:
            lines.append(f"  {call}")
        else:
            lines.append(f"  match {call} with")
            lines.append("  | PyVec.Res.shapeError => PyVec.Res.shapeError")
            lines.append(f"  | PyVec.Res.ok ({', '.join(n for n, _ in out)}) =>")
    text.append("\n".join(lines) + "\n")
    return "\n".join(text)


# ---------------------------------------------------------------------------------------------------------------- evaluator
def ev(e: Ex, env):  # noqa: C901
    if e.kind == "var":
        return env[e.name]
    if e.kind == "lit":
        return e.value
    if e.kind == "sop":
        return SCALAR_OPS[e.name][1](*[ev(a, env) for a in e.args])
    if e.kind == "lift":
        f = SCALAR_OPS[e.name][1]
        a = [ev(x, env) for x in e.args]
        sh = e.shape
        if sh == "v1":
            return [f(x) for x in a[0]]
        if sh == "vR":
            return [f(x, a[1]) for x in a[0]]
        if sh == "vL":
            return [f(a[0], x) for x in a[1]]
        if sh == "vv":
            return [f(x, y) for x, y in zip(a[0], a[1])]
        if sh == "m1":
            return [[f(x) for x in r] for r in a[0]]
        if sh == "mR":
            return [[f(x, a[1]) for x in r] for r in a[0]]
        if sh == "mL":
            return [[f(a[0], x) for x in r] for r in a[1]]
        if sh == "mm":
            return [[f(x, y) for x, y in zip(r, s)] for r, s in zip(a[0], a[1])]
    if e.kind == "prim":
        return PRIMS[e.name][1](*[ev(a, env) for a in e.args])
    raise Unsupported(f"pyvec_idx: cannot evaluate {e.kind}")


def evaluate(k: RowKernel, args: dict):
    """-> ("ok", [values]) | ("shapeError", name of the first failing check)"""
    env = dict(args)
    for name, e in k.lets:
        env[name] = ev(e, env)
    for c in k.checks:
        if not env[c]:
            return "shapeError", c
    return "ok", [env[n] for n, _ in k.results]


# ---------------------------------------------------------------------------------------------------------------- self-test
SELFTEST_REFUSED = [
    ("x = a[1:3]", "slice"),
    ("x = np.where(a > 0, a, 0)", "np.where with several arguments"),
    ("x = np.cumsum(a)", "call outside the subset"),
    ("x = np.sum(g, axis=0)", "np.sum form"),
    ("x = np.tile(a, (2, 3))", "np.tile repetitions"),
    ("x = a[i][j] if a else 0", "expression outside the subset"),
    ("for k in range(3):\n    x = k", "statement outside the subset"),
    ("x = M[col, i]", "a map may only be subscripted"),
    ("M[row, i] *= 2", "augmented assignment outside the subset"),
    ("R[row, i] = a", "write to a read-only map"),
    ("x = 1 < a < 3", "chained comparison"),
    ("x = np.arange(0, n)", "np.arange form"),
    ("x = a.astype(np.float64)", "dtype"),
    ("n = 3", "assignment to a name bound outside"),
    ("x = unknown + 1", "unknown name"),
    ("a[a > 0] += 1", "augmented assignment to a local"),
    ("x = i & a", "operator on"),
]


def selftest():
    """every construct of SELFTEST_REFUSED must be refused with the expected reason; a tiny accepted body must evaluate"""
    problems = []
    def mk():
        t = RowTranslator("row", {"M": ("m", "nat", True), "R": ("r", "fl", False)}, {"n": var("n", "int")}, {"C": 3})
        t.used |= {"m", "r", "n"}
        t.env["a"] = var("a", "vfl")
        t.env["i"] = var("i", "vint")
        t.env["g"] = var("g", "mbool")
        return t
    for text, why in SELFTEST_REFUSED:
        try:
            mk().statements(ast.parse(text).body)
            problems.append(f"accepted: {text!r}")
        except Unsupported as exc:
            if why not in str(exc):
                problems.append(f"{text!r} refused for another reason: {exc}")
    t = mk()
    t.statements(ast.parse("w = np.where(a > 0)\nb = a[w]\nM[row, w] += cst.C\nz = R[row, w]\nz[np.isnan(z)] = np.inf").body)
    k = RowKernel("t", [("m", "vnat"), ("r", "vfl"), ("n", "int"), ("a", "vfl"), ("i", "vint")], t.lets, t.checks,
                  [(t.state["m"].name, "vnat"), (t.env["z"].name, "vfl")])
    got = evaluate(k, {"m": [1, 2, 3], "r": [FNAN, Fraction(1), Fraction(2)], "n": 3,
                       "a": [Fraction(1), Fraction(-1), Fraction(2)], "i": []})
    if got != ("ok", [[4, 2, 6], [PINF, Fraction(2)]]):
        problems.append(f"accepted body evaluates to {got}")
    got = evaluate(k, {"m": [1, 2], "r": [FNAN, Fraction(1), Fraction(2)], "n": 3,
                       "a": [Fraction(1), Fraction(-1), Fraction(2)], "i": []})
    if got[0] != "shapeError":
        problems.append(f"out-of-range index not reported: {got}")
    return problems
