"""T12 (matching-cost array functions, last round of E8): the array-level functions of pandora/img_tools.py the measures are
built on, read from the `ast` statement by statement -> Generated/KernelsMcArr.lean

  census_transform     the `as_strided` window view (shape, strides), `central_pixels`, the initial shift, the two loops over
                       the window offsets and their body `census[:, :] += ((windows[:, :, row, col] > central_pixels[:, :]) << shift)`,
                       `shift -= 1`                                  -> censusBorder, censusShift0, censusTransformPx
  compute_mean_raster  the pipeline `np.r_[zeros, band]` / `np.nancumsum(axis=0)` / `x[w:, :] - x[:-w, :]` / `np.c_[zeros, x]` /
                       `np.cumsum(axis=1)` / `x[:, w:] - x[:, :-w]` / `/ float(w * w)` as a list of recognised array operations,
                       printed as a composition of index functions     -> meanRasterPx
  shift_right_img      the arguments of `zoom(selected_band, (1, (nx_ * subpix - (subpix - 1)) / float(nx_)), order=1)`, the column
                       selection `[:, ind::subpix]`, the loop `for ind in np.arange(1, subpix)`, the guard `subpix > 1`
                                                                       -> zoomFactorCols, zoomOrder, shiftFirst, shiftStep, shiftCount, …

Each reading is executed in Python on numpy arrays by the harness and compared with the REAL function on every run
(`harness/props/C02.py: check_mc_arr`).  Anything not recognised raises `Unsupported`.
"""
from __future__ import annotations

import ast

from . import pyexpr
from .common import Unsupported, digest, find_function, parse, read_source, write_if_changed
from .pyexpr import INT, RAT

NAME = "KernelsMcArr"
IMG_TOOLS = "pandora/img_tools.py"
SRC = [IMG_TOOLS]


def norm(node) -> str:
    return ast.unparse(node).replace("\n", " ")


def body_of(fn):
    return [st for st in fn.body if not (isinstance(st, ast.Expr) and isinstance(st.value, ast.Constant))]


def band_selection(fn, img: str, what: str):
    """`if len(img['im'].shape) > 2: band_index = list(img.band_im.data).index(band); selected_band = img['im'].data[band_index, :, :]
    else: selected_band = img['im'].data` (or the `band is None` form of shift_right_img): the band is looked up by NAME in
    the image's own band list"""
    for st in body_of(fn):
        if isinstance(st, ast.If):
            t = norm(st.test)
            three, two = None, None
            if t == f"len({img}['im'].shape) > 2":
                three, two = st.body, st.orelse
            elif t == "band is None":
                three, two = st.orelse, st.body
            if three is None:
                continue
            texts3 = [norm(s) for s in three]
            texts2 = [norm(s) for s in two]
            idx = [s for s in texts3 if s.endswith(f"= list({img}.band_im.data).index(band)")]
            if len(idx) != 1:
                continue
            name = idx[0].split(" = ")[0]
            return {"three": texts3, "two": texts2, "index_name": name,
                    "ok3": f"selected_band = {img}['im'].data[{name}, :, :]" in texts3, "ok2": f"selected_band = {img}['im'].data" in texts2}
    raise Unsupported(f"{IMG_TOOLS}: {what}: the band selection is not the expected `if`")


# ------------------------------------------------------------------------------------------------
# census_transform
# ------------------------------------------------------------------------------------------------
CMP = {ast.Gt: ">", ast.GtE: "≥", ast.Lt: "<", ast.LtE: "≤"}
PYCMP = {ast.Gt: "__gt__", ast.GtE: "__ge__", ast.Lt: "__lt__", ast.LtE: "__le__"}


def census_reading() -> dict:
    fn = find_function(parse(IMG_TOOLS), "census_transform")
    if [a.arg for a in fn.args.args] != ["image", "window_size", "band"]:
        raise Unsupported(f"{IMG_TOOLS}: census_transform: parameters")
    sel = band_selection(fn, "image", "census_transform")
    if not (sel["ok3"] and sel["ok2"]):
        raise Unsupported(f"{IMG_TOOLS}: census_transform: selected_band is not the named band / the 2-D image")
    body = body_of(fn)
    assigns = {}
    for st in body:
        if isinstance(st, ast.Assign) and len(st.targets) == 1:
            assigns.setdefault(norm(st.targets[0]), []).append(st.value)
    def one(name):
        v = assigns.get(name, [])
        if len(v) != 1:
            raise Unsupported(f"{IMG_TOOLS}: census_transform: expected exactly one `{name} = …` at the top level")
        return v[0]
    if norm(one("(ny_, nx_)")) != "(image.sizes['row'], image.sizes['col'])":
        raise Unsupported(f"{IMG_TOOLS}: census_transform: ny_, nx_")
    if norm(one("(str_row, str_col)")) != "selected_band.strides":
        raise Unsupported(f"{IMG_TOOLS}: census_transform: strides")
    atoms = [("window_size", "w", INT), ("ny_", "ny", INT), ("nx_", "nx", INT), ("border", "border", INT)]
    src = read_source(IMG_TOOLS)
    border = pyexpr.translate_expression(one("border"), "censusBorder", atoms[:1], source_text=src, py_name="census_transform: border")
    shape, strides = one("shape_windows"), one("strides_windows")
    if not (isinstance(shape, ast.Tuple) and isinstance(strides, ast.Tuple) and len(shape.elts) == len(strides.elts) == 4):
        raise Unsupported(f"{IMG_TOOLS}: census_transform: shape_windows / strides_windows are not 4-tuples")
    axes = []
    for s in strides.elts:
        if norm(s) not in ("str_row", "str_col"):
            raise Unsupported(f"{IMG_TOOLS}: census_transform: stride `{norm(s)}`")
        axes.append(0 if norm(s) == "str_row" else 1)
    extents = [pyexpr.translate_expression(e, f"censusShape{i}", atoms[:3], source_text=src, py_name=f"census_transform: shape_windows[{i}]")
               for i, e in enumerate(shape.elts)]
    if norm(one("windows")) != "np.lib.stride_tricks.as_strided(selected_band, shape_windows, strides_windows, writeable=False)":
        raise Unsupported(f"{IMG_TOOLS}: census_transform: windows is not the as_strided view of selected_band")
    if norm(one("central_pixels")) != "selected_band[border:-border, border:-border]":
        raise Unsupported(f"{IMG_TOOLS}: census_transform: central_pixels is not selected_band[border:-border, border:-border]")
    zeros = [v for v in assigns.get("census", []) if isinstance(v, ast.Call) and norm(v.func) == "np.zeros"]
    if len(zeros) != 1 or len(zeros[0].args) != 1 or not isinstance(zeros[0].args[0], ast.Tuple) \
            or [norm(e) for e in zeros[0].args[0].elts] != [norm(shape.elts[0]), norm(shape.elts[1])]:
        raise Unsupported(f"{IMG_TOOLS}: census_transform: census is not np.zeros of the first two window extents")
    shift0 = pyexpr.translate_expression(one("shift"), "censusShift0", atoms[:1], source_text=src, py_name="census_transform: shift")
    loops = [st for st in body if isinstance(st, ast.For)]
    if len(loops) != 1:
        raise Unsupported(f"{IMG_TOOLS}: census_transform: expected one loop nest")
    outer = loops[0]
    if not (isinstance(outer.target, ast.Name) and len(outer.body) == 1 and isinstance(outer.body[0], ast.For) and not outer.orelse):
        raise Unsupported(f"{IMG_TOOLS}: census_transform: the loop nest is not two nested `for`")
    inner = outer.body[0]
    names = (outer.target.id, inner.target.id if isinstance(inner.target, ast.Name) else None)
    ranges = []
    for lp in (outer, inner):
        it = lp.iter
        if not (isinstance(it, ast.Call) and norm(it.func) == "range" and len(it.args) == 1):
            raise Unsupported(f"{IMG_TOOLS}: census_transform: `{norm(it)}` is not range(n)")
        ranges.append(pyexpr.translate_expression(it.args[0], f"censusRange{len(ranges)}", atoms[:1], source_text=src,
                                                  py_name="census_transform: range"))
    if len(inner.body) != 2 or inner.orelse:
        raise Unsupported(f"{IMG_TOOLS}: census_transform: the loop body is not two statements")
    acc, dec = inner.body
    if not (isinstance(dec, ast.AugAssign) and norm(dec.target) == "shift" and isinstance(dec.op, ast.Sub)
            and isinstance(dec.value, ast.Constant) and dec.value.value == 1):
        raise Unsupported(f"{IMG_TOOLS}: census_transform: `{norm(dec)}` is not `shift -= 1`")
    if not (isinstance(acc, ast.AugAssign) and norm(acc.target) == "census[:, :]" and isinstance(acc.op, ast.Add)):
        raise Unsupported(f"{IMG_TOOLS}: census_transform: `{norm(acc)}` is not `census[:, :] += …`")
    v = acc.value
    if not (isinstance(v, ast.Call) and isinstance(v.func, ast.Attribute) and v.func.attr == "astype" and norm(v.args[0]) == "np.uint32"
            and isinstance(v.func.value, ast.BinOp) and isinstance(v.func.value.op, ast.LShift) and norm(v.func.value.right) == "shift"
            and isinstance(v.func.value.left, ast.Compare) and len(v.func.value.left.ops) == 1 and type(v.func.value.left.ops[0]) in CMP):
        raise Unsupported(f"{IMG_TOOLS}: census_transform: the added value is not ((a <cmp> b) << shift).astype(np.uint32)")
    cmp = v.func.value.left
    sides = []
    for side in (cmp.left, cmp.comparators[0]):
        t = norm(side)
        if t == f"windows[:, :, {names[0]}, {names[1]}]":
            sides.append(("window", 0, 1))       # view axes 2, 3 carry the outer / inner loop variable
        elif t == f"windows[:, :, {names[1]}, {names[0]}]":
            sides.append(("window", 1, 0))
        elif t == "central_pixels[:, :]":
            sides.append(("centre",))
        else:
            raise Unsupported(f"{IMG_TOOLS}: census_transform: operand `{t}` of the comparison")
    if sorted(s[0] for s in sides) != ["centre", "window"]:
        raise Unsupported(f"{IMG_TOOLS}: census_transform: the comparison is not between a window plane and the centres")
    if axes[:2] != [0, 1] or sorted(axes[2:]) != [0, 1]:
        raise Unsupported(f"{IMG_TOOLS}: census_transform: unexpected strides {axes}")
    return {"border": border, "shift0": shift0, "ranges": ranges, "extents": extents, "axes": axes, "cmp": type(cmp.ops[0]),
            "sides": sides}


def census_python(rd, band, w):
    """the reading executed on a 2-D numpy array (the harness compares it with the real function)"""
    import numpy as np

    ny, nx = band.shape
    ev = lambda k, *a: int(pyexpr.evaluate(k, *a)[1][0])  # noqa: E731
    border, shift = ev(rd["border"], w), ev(rd["shift0"], w)
    n0, n1 = ev(rd["extents"][0], w, ny, nx), ev(rd["extents"][1], w, ny, nx)
    out = np.zeros((n0, n1), dtype=np.int64)
    for row in range(ev(rd["ranges"][0], w)):
        for col in range(ev(rd["ranges"][1], w)):
            for i in range(n0):
                for j in range(n1):
                    vals = []
                    for s in rd["sides"]:
                        if s[0] == "centre":
                            vals.append(band[i + border, j + border])
                        else:
                            view = [i, j, (row, col)[s[1]], (row, col)[s[2]]]
                            base = [0, 0]
                            for k, ax in enumerate(rd["axes"]):
                                base[ax] += view[k]
                            vals.append(band[base[0], base[1]])
                    if getattr(vals[0], PYCMP[rd["cmp"]])(vals[1]):
                        out[i, j] += 1 << shift
            shift -= 1
    return out


def render_census(rd) -> list:
    lines = []
    for k in [rd["border"], rd["shift0"]] + rd["ranges"] + rd["extents"]:
        lines.append(pyexpr.render_lean(k, always_partial=False).rstrip())
    def operand(s):
        if s[0] == "centre":
            return "band (i + censusBorder w) (j + censusBorder w)"
        view = ["i", "j", ("(row : Int)", "(col : Int)")[s[1]], ("(row : Int)", "(col : Int)")[s[2]]]
        idx = []
        for ax in range(2):
            idx.append("(" + " + ".join(view[k] for k in range(4) if rd["axes"][k] == ax) + ")")
        return f"band {idx[0]} {idx[1]}"
    a, b = operand(rd["sides"][0]), operand(rd["sides"][1])
    lines += [
        "/-- cell `(i, j)` of the census image: the two loops over the window offsets thread `(census, shift)`; the view element",
        "    `windows[i, j, a, b]` is the band at the sums of the view indices carrying each stride -/",
        "def censusTransformPx (w : Int) (band : Int → Int → Rat) (i j : Int) : Nat :=",
        "  ((List.range (censusRange0 w).toNat).foldl (fun (st : Nat × Int) (row : Nat) =>",
        "    (List.range (censusRange1 w).toNat).foldl (fun (st : Nat × Int) (col : Nat) =>",
        f"      (st.1 + ((if {a} {CMP[rd['cmp']]} {b} then (1 : Nat) else 0) <<< st.2.toNat), st.2 - 1)) st)",
        "    ((0 : Nat), censusShift0 w)).1",
    ]
    return lines


# ------------------------------------------------------------------------------------------------
# compute_mean_raster
# ------------------------------------------------------------------------------------------------
def mean_reading() -> dict:
    fn = find_function(parse(IMG_TOOLS), "compute_mean_raster")
    if [a.arg for a in fn.args.args] != ["img", "win_size", "band"]:
        raise Unsupported(f"{IMG_TOOLS}: compute_mean_raster: parameters")
    body = body_of(fn)
    if norm(body[0]) != "ny_, nx_ = (img.sizes['row'], img.sizes['col'])":
        raise Unsupported(f"{IMG_TOOLS}: compute_mean_raster: ny_, nx_")
    sel = body[1]
    if not (isinstance(sel, ast.If) and norm(sel.test) == "len(img['im'].shape) > 2"
            and [norm(s) for s in sel.body] == ["band_index = list(img.band_im.data).index(band)",
                                                "r_mean = np.r_[np.zeros((1, nx_)), img['im'].data[band_index, :, :]]"]
            and [norm(s) for s in sel.orelse] == ["r_mean = np.r_[np.zeros((1, nx_)), img['im'].data]"]):
        raise Unsupported(f"{IMG_TOOLS}: compute_mean_raster: the first step is not np.r_[zero row, selected band] in both branches")
    ops = ["zero_row"]
    table = {
        "r_mean = np.nancumsum(r_mean, axis=0)": "cumsum0", "r_mean = np.cumsum(r_mean, axis=0)": "cumsum0",
        "r_mean = r_mean[win_size:, :] - r_mean[:-win_size, :]": "diff0",
        "r_mean = np.c_[np.zeros(ny_ - (win_size - 1)), r_mean]": "zero_col",
        "r_mean = np.cumsum(r_mean, axis=1)": "cumsum1", "r_mean = np.nancumsum(r_mean, axis=1)": "cumsum1",
        "r_mean = r_mean[:, win_size:] - r_mean[:, :-win_size]": "diff1",
    }
    for st in body[2:-1]:
        t = norm(st)
        if t not in table:
            raise Unsupported(f"{IMG_TOOLS}: compute_mean_raster: statement `{t}` is not a recognised array operation")
        ops.append(table[t])
    ret = body[-1]
    if not (isinstance(ret, ast.Return) and isinstance(ret.value, ast.BinOp) and isinstance(ret.value.op, ast.Div) and norm(ret.value.left) == "r_mean"):
        raise Unsupported(f"{IMG_TOOLS}: compute_mean_raster: the result is not r_mean / …")
    den = ret.value.right
    if isinstance(den, ast.Call) and norm(den.func) == "float" and len(den.args) == 1:
        den = den.args[0]
    kden = pyexpr.translate_expression(den, "meanDen", [("win_size", "w", INT)], source_text=read_source(IMG_TOOLS), py_name="compute_mean_raster: divisor")
    return {"ops": ops, "den": kden}


def mean_python(rd, band, w):
    import numpy as np

    x = np.array(band, dtype=np.float64)
    for op in rd["ops"]:
        if op == "zero_row":
            x = np.vstack([np.zeros((1, x.shape[1])), x])
        elif op == "zero_col":
            x = np.hstack([np.zeros((x.shape[0], 1)), x])
        elif op in ("cumsum0", "cumsum1"):
            ax = int(op[-1])
            y = np.zeros_like(x)
            for idx in np.ndindex(*x.shape):
                prev = list(idx)
                prev[ax] -= 1
                y[idx] = x[idx] + (y[tuple(prev)] if prev[ax] >= 0 else 0.0)
            x = y
        elif op == "diff0":
            x = np.array([[x[i + w, j] - x[i, j] for j in range(x.shape[1])] for i in range(x.shape[0] - w)]).reshape(x.shape[0] - w, x.shape[1])
        elif op == "diff1":
            x = np.array([[x[i, j + w] - x[i, j] for j in range(x.shape[1] - w)] for i in range(x.shape[0])]).reshape(x.shape[0], x.shape[1] - w)
    return x / float(pyexpr.evaluate(rd["den"], w)[1][0])


LEAN_OPS = {
    "zero_row": "zeroRow", "zero_col": "zeroCol", "cumsum0": "cumsum0", "cumsum1": "cumsum1", "diff0": "diff0 w", "diff1": "diff1 w",
}


def render_mean(rd) -> list:
    lines = [
        "/-! array operations of `compute_mean_raster` as index functions (`Int → Int → Rat`; an index below 0 is not read) -/",
        "/-- `np.r_[zeros((1, nx)), x]` -/",
        "def zeroRow (x : Int → Int → Rat) : Int → Int → Rat := fun i j => if i = 0 then 0 else x (i - 1) j",
        "/-- `np.c_[zeros(n), x]` -/",
        "def zeroCol (x : Int → Int → Rat) : Int → Int → Rat := fun i j => if j = 0 then 0 else x i (j - 1)",
        "/-- `np.cumsum(x, axis=0)` (`nancumsum` on a raster without NaN) -/",
        "def cumsum0 (x : Int → Int → Rat) : Int → Int → Rat := fun i j => MC.sumZ (0 : Rat) (fun i' => x i' j) 0 (i + 1).toNat",
        "def cumsum1 (x : Int → Int → Rat) : Int → Int → Rat := fun i j => MC.sumZ (0 : Rat) (fun j' => x i j') 0 (j + 1).toNat",
        "/-- `x[w:, :] - x[:-w, :]` -/",
        "def diff0 (w : Nat) (x : Int → Int → Rat) : Int → Int → Rat := fun i j => x (i + w) j - x i j",
        "def diff1 (w : Nat) (x : Int → Int → Rat) : Int → Int → Rat := fun i j => x i (j + w) - x i j",
        pyexpr.render_lean(rd["den"], always_partial=False).rstrip(),
        "/-- `compute_mean_raster`, statement by statement -/",
        "def meanRasterPx (w : Nat) (band : Int → Int → Rat) : Int → Int → Rat :=",
    ]
    expr = "band"
    for op in rd["ops"]:
        expr = f"({LEAN_OPS[op]} {expr})"
    lines.append(f"  fun i j => {expr} i j / ((meanDen (w : Int) : Int) : Rat)")
    return lines


# ------------------------------------------------------------------------------------------------
# shift_right_img
# ------------------------------------------------------------------------------------------------
def shift_reading() -> dict:
    fn = find_function(parse(IMG_TOOLS), "shift_right_img")
    if [a.arg for a in fn.args.args] != ["img_right", "subpix", "band"]:
        raise Unsupported(f"{IMG_TOOLS}: shift_right_img: parameters")
    sel = band_selection(fn, "img_right", "shift_right_img")
    if not (sel["ok3"] and sel["ok2"]):
        raise Unsupported(f"{IMG_TOOLS}: shift_right_img: selected_band is not the named band / the 2-D image")
    body = body_of(fn)
    if norm(body[0]) != "img_right_shift = [img_right]" or norm(body[-1]) != "return img_right_shift":
        raise Unsupported(f"{IMG_TOOLS}: shift_right_img: the list does not start with the image itself / is not returned")
    guards = [st for st in body if isinstance(st, ast.If) and norm(st.test) == "subpix > 1"]
    if len(guards) != 1 or guards[0].orelse or len(guards[0].body) != 1 or not isinstance(guards[0].body[0], ast.For):
        raise Unsupported(f"{IMG_TOOLS}: shift_right_img: expected `if subpix > 1:` around one loop")
    loop = guards[0].body[0]
    if norm(loop.target) != "ind" or norm(loop.iter) != "np.arange(1, subpix)":
        raise Unsupported(f"{IMG_TOOLS}: shift_right_img: the loop is not `for ind in np.arange(1, subpix)`")
    data = [st for st in loop.body if isinstance(st, ast.Assign) and norm(st.targets[0]) == "data"]
    if len(data) != 1 or not isinstance(data[0].value, ast.Subscript):
        raise Unsupported(f"{IMG_TOOLS}: shift_right_img: `data = zoom(…)[…]` not found")
    sub = data[0].value
    call = sub.value
    if not (isinstance(call, ast.Call) and norm(call.func) == "zoom" and len(call.args) == 2 and norm(call.args[0]) == "selected_band"
            and isinstance(call.args[1], ast.Tuple) and len(call.args[1].elts) == 2 and len(call.keywords) == 1
            and call.keywords[0].arg == "order" and isinstance(call.keywords[0].value, ast.Constant)):
        raise Unsupported(f"{IMG_TOOLS}: shift_right_img: `{norm(call)}` is not zoom(selected_band, (fr, fc), order=k)")
    from .gen_kernels_glue import module_bindings

    if module_bindings(parse(IMG_TOOLS)).get("zoom") != ("from", "scipy.ndimage", "zoom"):
        raise Unsupported(f"{IMG_TOOLS}: `zoom` is not scipy.ndimage.zoom")
    atoms = [("nx_", "nx", INT), ("subpix", "subpix", INT), ("float(nx_)", "nx", INT)]
    src = read_source(IMG_TOOLS)
    frow = pyexpr.translate_expression(call.args[1].elts[0], "zoomFactorRows", atoms[:2], source_text=src, py_name="shift_right_img: zoom factor (rows)")
    # the column factor `(nx_ * subpix - (subpix - 1)) / float(nx_)`: numerator translated, divisor checked to be the width
    fc = call.args[1].elts[1]
    if not (isinstance(fc, ast.BinOp) and isinstance(fc.op, ast.Div) and norm(fc.right) in ("float(nx_)", "nx_")):
        raise Unsupported(f"{IMG_TOOLS}: shift_right_img: the column zoom factor is not `… / float(nx_)`")
    fnum = pyexpr.translate_expression(fc.left, "zoomedCols", atoms[:2], source_text=src, py_name="shift_right_img: zoomed width")
    sl = sub.slice
    if not (isinstance(sl, ast.Tuple) and len(sl.elts) == 2 and norm(sl.elts[0]) == ":" and isinstance(sl.elts[1], ast.Slice)
            and sl.elts[1].upper is None and sl.elts[1].lower is not None and sl.elts[1].step is not None):
        raise Unsupported(f"{IMG_TOOLS}: shift_right_img: the column selection `{norm(sl)}` is not [:, a::s]")
    satoms = [("ind", "ind", INT), ("subpix", "subpix", INT)]
    first = pyexpr.translate_expression(sl.elts[1].lower, "shiftFirst", satoms, source_text=src, py_name="shift_right_img: first column")
    step = pyexpr.translate_expression(sl.elts[1].step, "shiftStep", satoms, source_text=src, py_name="shift_right_img: column step")
    app = [st for st in loop.body if norm(st).startswith("img_right_shift.append(xr.Dataset({'im': (['row', 'col'], data)}")]
    if len(app) != 1:
        raise Unsupported(f"{IMG_TOOLS}: shift_right_img: the shifted image is not appended as the `im` of a new dataset")
    for k in (frow, fnum, first, step):
        if k.partial or k.ret_types != [INT]:
            raise Unsupported(f"{IMG_TOOLS}: shift_right_img: `{k.source}` is not an integer expression")
    return {"frow": frow, "zoomed": fnum, "first": first, "step": step, "order": call.keywords[0].value.value}


def render_shift(rd) -> list:
    lines = [pyexpr.render_lean(k, always_partial=False).rstrip() for k in (rd["frow"], rd["zoomed"], rd["first"], rd["step"])]
    lines += [f"/-- `order=` of the zoom: 1 = (bi)linear interpolation -/", f"def zoomOrder : Nat := {int(rd['order'])}",
              "/-- image number `ind` (1 ≤ ind < subpix; number 0 is the image itself) of the list: columns `first, first + step, …` of the",
              "    zoomed image, i.e. column `j` is zoomed column `shiftFirst ind subpix + j * shiftStep ind subpix` -/",
              "def shiftedCol (ind subpix j : Int) : Int := shiftFirst ind subpix + j * shiftStep ind subpix",
              "/-- number of such columns below the zoomed width (`len(range(first, zoomed, step))`) -/",
              "def shiftedCols (nx ind subpix : Int) : Int := (zoomedCols nx subpix - shiftFirst ind subpix + shiftStep ind subpix - 1) / shiftStep ind subpix"]
    return lines


# ------------------------------------------------------------------------------------------------
def build_all():
    out, errors = {}, {}
    for what, build in (("census_transform", census_reading), ("compute_mean_raster", mean_reading), ("shift_right_img", shift_reading)):
        try:
            out[what] = build()
        except Unsupported as exc:
            errors[what] = str(exc)
    return out, errors


def render(rd, errors) -> str:
    lines = [
        "-- GENERATED by translator/gen_kernels_mc_arr.py (translator/pyexpr.py) from pandora/img_tools.py. Do not edit.",
        "import PandoraModel.Model.PyExpr",
        "import PandoraModel.Model.MatchingCost",
        "set_option linter.unusedVariables false",
        "namespace Pandora.Generated.KernelsMcArr",
        "open Pandora",
        "",
    ]
    if "census_transform" in rd:
        lines += render_census(rd["census_transform"]) + [""]
    if "compute_mean_raster" in rd:
        lines += render_mean(rd["compute_mean_raster"]) + [""]
    if "shift_right_img" in rd:
        lines += render_shift(rd["shift_right_img"]) + [""]
    for what, msg in errors.items():
        lines.append(f"-- NOT TRANSLATED: {what}: " + msg.replace("\n", " ").replace("-/", "- /"))
    lines.append("end Pandora.Generated.KernelsMcArr")
    return "\n".join(lines) + "\n"


def generate():
    rd, errors = build_all()
    write_if_changed("KernelsMcArr.lean", render(rd, errors))
    if errors:
        raise Unsupported("; ".join(f"{n}: {m}" for n, m in errors.items()))
    return {"T12-mc-arr": {"source": SRC, "digest": digest(*SRC), "kernels": sorted(rd)}}
