"""T11: the literals and operators of the refinement and cross-checking kernels that the C06 / C07 models
depend on -> Generated/RefineCC.lean.

Extracted with `ast` only (pandora is never imported):

  vfit.py        `if abs(a) < <literal>:`                          -> vfitGuardNum / vfitGuardDen (exact decimal)
  quadratic.py   `min(<hi>, max(<lo>, ...))`                       -> clampLo / clampHi
                 a guard `if alpha == 0:` before the division      -> quadraticFlatGuard
  refinement.py  `loop_refinement`: `mask[row, col] <op>= ...`     -> flagUpdateIsOr   (`+=` false, `|=` true)
                 the test that lets the method run                 -> endTestOnIndex   (`disp != d_min and disp != d_max`
                                                                      false, `dsp != 0 and dsp != n_disp - 1` true)
                 `dsp = int((disp[row, col] - d_min) * subpixel)`  -> recognised or Unsupported
                 `disp[row, col] = disp[row, col] + (sub_disp / subpixel)` -> recognised or Unsupported
  validation.py  `inside_right = np.where((col_right >= 0) & (col_right < nb_col))` -> recognised or Unsupported
                 `outside_right = np.where((col_right < 0) <op> (col_right >= nb_col))` -> outsideIsOr
                 the columns flagged by the mismatch search include the outside ones -> outsideSearched
                 `invalid = np.abs(right_disp + left_disp) > self._threshold` -> recognised or Unsupported
                 `col_right = col_left + np.rint(<disparities>).astype(int)` -> recognised or Unsupported

Anything else in these places raises `Unsupported` (the obligation cannot be regenerated).
"""
from __future__ import annotations

import ast
from fractions import Fraction

from .common import Unsupported, digest, find_class, find_method, parse, write_if_changed

NAME = "RefineCC"
SRC = [
    "pandora/refinement/vfit.py",
    "pandora/refinement/quadratic.py",
    "pandora/refinement/refinement.py",
    "pandora/validation/validation.py",
]


def src(node) -> str:
    return ast.unparse(node)


def walk_stmts(fn):
    for node in ast.walk(fn):
        if isinstance(node, ast.stmt):
            yield node


def literal_fraction(node, what) -> Fraction:
    if isinstance(node, ast.UnaryOp) and isinstance(node.op, ast.USub):
        return -literal_fraction(node.operand, what)
    if isinstance(node, ast.Constant) and isinstance(node.value, (int, float)) and not isinstance(node.value, bool):
        return Fraction(repr(node.value)) if isinstance(node.value, float) else Fraction(node.value)
    raise Unsupported(f"{what}: expected a numeric literal, got {src(node)[:60]}")


def extract_vfit():
    fn = find_method(find_class(parse(SRC[0]), "Vfit"), "refinement_method")
    guards = []
    for st in walk_stmts(fn):
        if isinstance(st, ast.If) and isinstance(st.test, ast.Compare) and len(st.test.ops) == 1:
            left = st.test.left
            if isinstance(left, ast.Call) and isinstance(left.func, ast.Name) and left.func.id == "abs":
                if not isinstance(st.test.ops[0], ast.Lt) or src(left.args[0]) != "a":
                    raise Unsupported(f"vfit.py: unexpected guard {src(st.test)}")
                guards.append(literal_fraction(st.test.comparators[0], "vfit guard"))
    if len(guards) != 1:
        raise Unsupported(f"vfit.py: expected one `abs(a) < literal` guard, found {len(guards)}")
    # the arithmetic statements of the method are no longer pinned textually here: T12 (gen_kernels.py) translates the
    # whole function and Properties/C06Kernels.lean proves it equal to the model, so a harmless rewrite passes and a
    # change of meaning breaks that proof
    return guards[0]


def extract_quadratic():
    fn = find_method(find_class(parse(SRC[1]), "Quadratic"), "refinement_method")
    clamp = None
    flat_guard = False
    for st in walk_stmts(fn):
        if isinstance(st, ast.Assign) and src(st.targets[0]) == "sub_disp":
            call = st.value
            ok = (isinstance(call, ast.Call) and src(call.func) == "min" and len(call.args) == 2
                  and isinstance(call.args[1], ast.Call) and src(call.args[1].func) == "max" and len(call.args[1].args) == 2)
            if not ok or src(call.args[1].args[1]) != "-beta / (2 * alpha)":
                raise Unsupported(f"quadratic.py: unexpected sub_disp expression {src(st.value)[:80]}")
            clamp = (literal_fraction(call.args[1].args[0], "clamp lo"), literal_fraction(call.args[0], "clamp hi"))
        if isinstance(st, ast.If) and src(st.test) in ("alpha == 0", "alpha == 0.0", "2 * alpha == 0"):
            if len(st.body) != 1 or src(st.body[0]) != "return (0, cost[1], 0)":
                raise Unsupported(f"quadratic.py: unexpected flat-curve guard body {src(st.body[0])[:60]}")
            flat_guard = True
    if clamp is None:
        raise Unsupported("quadratic.py: sub_disp assignment not found")
    # (arithmetic statements: see extract_vfit — covered by T12 and the equality theorem)
    return clamp, flat_guard


def extract_loop():
    try:
        return extract_loop_pinned()
    except Unsupported:
        # the body of loop_refinement is no longer pinned textually when T12p (gen_kernels_refine.py) translates it statement
        # by statement: the flag operator and the form of the interval-end test are then read from its tree, so that a harmless
        # rewrite passes; what the body MEANS is decided by Properties/C06KernelsLoop.lean (loopRefinementPx_eq)
        from . import gen_kernels_refine
        k = gen_kernels_refine.kernels()["loopRefinementPx"]
        if len(k.flag_ops) != 1 or k.guard_kind not in ("index", "value"):
            raise
        return k.flag_ops == {"or"}, k.guard_kind == "index"


def extract_loop_pinned():
    fn = find_method(find_class(parse(SRC[2]), "AbstractRefinement"), "loop_refinement")
    ops = set()
    for st in walk_stmts(fn):
        if isinstance(st, ast.AugAssign) and src(st.target) == "mask[row, col]":
            if isinstance(st.op, ast.Add):
                ops.add("add")
            elif isinstance(st.op, ast.BitOr):
                ops.add("or")
            else:
                raise Unsupported(f"refinement.py: unexpected flag update {src(st)}")
    if len(ops) != 1:
        raise Unsupported(f"refinement.py: flag updates use {sorted(ops)}")
    body = src(fn)
    for needle in ("dsp = int((disp[row, col] - d_min) * subpixel)",
                   "disp[row, col] = disp[row, col] + sub_disp / subpixel",
                   "if mask[row, col] & cst.PANDORA_MSK_PIXEL_INVALID != 0",
                   "if not np.isnan(cv[row, col, dsp])",
                   "[cv[row, col, dsp - 1], cv[row, col, dsp], cv[row, col, dsp + 1]]"):
        if needle not in body:
            raise Unsupported(f"refinement.py: statement `{needle}` not found in loop_refinement")
    on_value = "if disp[row, col] != d_min and disp[row, col] != d_max" in body
    on_index = "if dsp != 0 and dsp != n_disp - 1" in body
    if on_value == on_index:
        raise Unsupported("refinement.py: the interval-end test of loop_refinement is not one of the two known forms")
    return ops == {"or"}, on_index


def extract_cross_checking():
    try:
        return extract_cross_checking_pinned()
    except Unsupported:
        # the row body is no longer pinned textually when T14i (gen_kernels_crosscheck.py) translates it statement by
        # statement: the operator of `outside_right` and the searched set are then read from its structure, so that a
        # harmless rewrite passes; what the body MEANS is decided by Properties/C07Kernels.lean and C07's correspondence
        from . import gen_kernels_crosscheck
        gen_kernels_crosscheck.kernel()
        return extract_cross_checking_structural()


def extract_cross_checking_structural():
    fn = find_method(find_class(parse(SRC[3]), "CrossCheckingAccurate"), "disparity_checking")
    ors = ands = 0
    searched = False
    for st in walk_stmts(fn):
        if isinstance(st, ast.Assign) and isinstance(st.value, ast.Call) and src(st.value.func).endswith(".where") \
                and st.value.args and isinstance(st.value.args[0], ast.BinOp) and "nb_col" in src(st.value) \
                and "index" not in src(st.value):
            if isinstance(st.value.args[0].op, ast.BitOr):
                ors += 1
            elif isinstance(st.value.args[0].op, ast.BitAnd):
                ands += 1
        if isinstance(st, ast.Assign) and isinstance(st.value, ast.Call) and src(st.value.func).endswith(".concatenate"):
            searched = True
    if ors + ands != 2 or ands < 1:
        raise Unsupported("validation.py: inside / outside tests not recognised")
    return ors == 1, searched and ors == 1


def extract_cross_checking_pinned():
    fn = find_method(find_class(parse(SRC[3]), "CrossCheckingAccurate"), "disparity_checking")
    found = {}
    for st in walk_stmts(fn):
        if isinstance(st, ast.Assign) and len(st.targets) == 1 and isinstance(st.targets[0], ast.Name):
            found.setdefault(st.targets[0].id, []).append(st.value)
    def one(name):
        vals = found.get(name, [])
        if len(vals) != 1:
            raise Unsupported(f"validation.py: expected one assignment of `{name}`, found {len(vals)}")
        return vals[0]
    if src(one("inside_right")) != "np.where((col_right >= 0) & (col_right < nb_col))":
        raise Unsupported(f"validation.py: unexpected inside_right: {src(one('inside_right'))}")
    out = one("outside_right")
    if src(out) == "np.where((col_right < 0) & (col_right >= nb_col))":
        outside_or = False
    elif src(out) == "np.where((col_right < 0) | (col_right >= nb_col))":
        outside_or = True
    else:
        raise Unsupported(f"validation.py: unexpected outside_right: {src(out)}")
    if src(one("invalid")) != "np.abs(right_disp + left_disp) > self._threshold":
        raise Unsupported(f"validation.py: unexpected invalid: {src(one('invalid'))}")
    cr = [src(v) for v in found.get("col_right", [])]
    if cr != ["col_left + np.rint(dataset_left['disparity_map'].data[row, col_left]).astype(int)"]:
        raise Unsupported(f"validation.py: unexpected col_right: {cr}")
    body = src(fn)
    for needle in ("comp[comp > 1] = 1", "right_disp[np.isnan(right_disp)] = np.inf", "left_disp[np.isnan(left_disp)] = np.inf",
                   "disp_right = np.full(index.shape, np.inf, dtype=np.float32)",
                   "inside_col_disp = np.where((index >= 0) & (index < nb_col))",
                   "if dataset_left.attrs['offset_row_col'] > 0"):
        if needle not in body:
            raise Unsupported(f"validation.py: statement `{needle}` not found in disparity_checking")
    searched = "invalid_col = np.concatenate((col_left[inside_right][invalid], col_left[outside_right]))" in body
    if searched and not outside_or:
        raise Unsupported("validation.py: the outside pixels are searched but the outside set is built with `&`")
    return outside_or, searched


def extract():
    guard = extract_vfit()
    clamp, flat_guard = extract_quadratic()
    flag_or, end_on_index = extract_loop()
    outside_or, outside_searched = extract_cross_checking()
    return {
        "vfit_guard": guard,
        "clamp": clamp,
        "quadratic_flat_guard": flat_guard,
        "flag_update_is_or": flag_or,
        "end_test_on_index": end_on_index,
        "outside_is_or": outside_or,
        "outside_searched": outside_searched,
    }


def lean_bool(b: bool) -> str:
    return "true" if b else "false"


def render(d) -> str:
    g = d["vfit_guard"]
    lo, hi = d["clamp"]
    cc = "ruleFix" if d["outside_searched"] else ("orFix" if d["outside_is_or"] else "asIs")
    return "\n".join([
        "-- GENERATED by translator/gen_refine_cc.py from pandora/refinement/{vfit,quadratic,refinement}.py and",
        "-- pandora/validation/validation.py. Do not edit.",
        "namespace Pandora.Generated.RefineCC",
        "",
        f"def vfitGuardNum : Nat := {g.numerator}",
        f"def vfitGuardDen : Nat := {g.denominator}",
        f"def clampLo : Int := {lo.numerator}",
        f"def clampLoDen : Nat := {lo.denominator}",
        f"def clampHi : Int := {hi.numerator}",
        f"def clampHiDen : Nat := {hi.denominator}",
        f"def quadraticFlatGuard : Bool := {lean_bool(d['quadratic_flat_guard'])}",
        f"def flagUpdateIsOr : Bool := {lean_bool(d['flag_update_is_or'])}",
        f"def endTestOnIndex : Bool := {lean_bool(d['end_test_on_index'])}",
        f"def outsideIsOr : Bool := {lean_bool(d['outside_is_or'])}",
        f"def outsideSearched : Bool := {lean_bool(d['outside_searched'])}",
        f'def crossCheckVariant : String := "{cc}"',
        "",
        "end Pandora.Generated.RefineCC",
        "",
    ])


def generate():
    d = extract()
    write_if_changed("RefineCC.lean", render(d))
    return {"T11": {"source": SRC, "digest": digest(*SRC),
                    "variant": {"flat": d["quadratic_flat_guard"], "or": d["flag_update_is_or"], "ends": d["end_test_on_index"],
                                "cross_check": "rule" if d["outside_searched"] else ("or" if d["outside_is_or"] else "asis")}}}
