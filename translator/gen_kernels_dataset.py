"""T15 (dataset construction): `add_mask`, `add_no_data`, `add_disparity` and the nodata detection / pipe wiring of
`create_dataset_from_inputs` (pandora/img_tools.py) -> Generated/KernelsDataset.lean.

Array programs in the sense of translator/pyarr.py (fresh arrays vs aliases, element-wise predicates, masked stores), with
DTYPE CASTS as explicit operations: `.astype(np.int16)`, `np.full(..., dtype=np.int16)` and every store into an array of a
known integer dtype wrap around (`PyArr.wrapInt`); the raster read from the mask file keeps its values (any integer width).

`add_mask` is read by a small general reader (names bound to arrays are resolved to array slots at translation time, every
store makes a new version of the slot, the two branches of `if mask is not None` are merged):

    if mask is None and no_data_pixels[0].size == 0: return dataset
    n = <int expr>                                  literals, dataset.attrs["valid_pixels" | "no_data_mask"], +, int(...)
    a = np.full((height, width), <int expr>[, dtype=np.T])[.astype(np.T)] | rasterio_open(mask).read(1, window=window)[.astype(np.T)] | b
    dataset["msk"] = xr.DataArray(<a>, dims=["row", "col"])
    m = <a>[.astype(np.T)] != | > | >= | < | == <int literal>         (also inside np.where(...))
    <a>[m | np.where(m) | <comparison> | :] = <int expr>;   <a>[(no_data_pixels[-2], no_data_pixels[-1])] = <int expr>
    if mask is not None: … [else: …];   return dataset                 (<a>: a name or dataset["msk"].data)

`add_no_data`, `add_disparity` and the tail of `create_dataset_from_inputs` (the isnan / isinf / == chain building
`no_data_pixels`, the arguments of the `.pipe(...)` calls) are matched statement by statement.  Anything else: Unsupported.
The same trees are evaluated exactly (`eval_*`) for the run-time comparison with the real functions.
"""
from __future__ import annotations

import ast

from . import gen_blocks
from .common import Unsupported, digest, find_function, parse, write_if_changed

NAME = "KernelsDataset"
REL = "pandora/img_tools.py"
DTYPES = {f"{'u' if not s else ''}int{b}": (b, s) for b in (8, 16, 32, 64) for s in (True, False)}


def _d(node):
    return gen_blocks._dotted(node)  # pylint: disable=protected-access


def _bad(fn, msg, node=None):
    line = f" (line {node.lineno})" if node is not None and hasattr(node, "lineno") else ""
    raise Unsupported(f"{REL}:{fn}: {msg}{line}")


def _body(fn):
    b = list(fn.body)
    if b and isinstance(b[0], ast.Expr) and isinstance(b[0].value, ast.Constant) and isinstance(b[0].value.value, str):
        b = b[1:]
    return b


def _np_dtype(node):
    if isinstance(node, ast.Attribute) and isinstance(node.value, ast.Name) and node.value.id == "np" and node.attr in DTYPES:
        return node.attr
    return None


def wrap(v, dt):
    bits, signed = DTYPES[dt]
    v %= 1 << bits
    return v - (1 << bits) if signed and v >= 1 << (bits - 1) else v


# ---------------------------------------------------------------------------------------------
# add_mask
# ---------------------------------------------------------------------------------------------
class MaskReader:
    def __init__(self):
        self.n = 0
        self.ints, self.arrs, self.masks = {}, {}, {}  # name -> int tree | (ssa name, dtype) | ssa name
        self.in_mask_branch = False

    def fresh(self, prefix):
        self.n += 1
        return f"{prefix}{self.n}"

    def iexpr(self, node):
        if isinstance(node, ast.Constant) and isinstance(node.value, int) and not isinstance(node.value, bool):
            return ("lit", node.value)
        if isinstance(node, ast.UnaryOp) and isinstance(node.op, ast.USub) and self.iexpr(node.operand):
            e = self.iexpr(node.operand)
            return ("lit", -e[1]) if e[0] == "lit" else None
        t = _d(node)
        if t in ('dataset.attrs["valid_pixels"]', 'dataset.attrs["no_data_mask"]'):
            return ("attr", t[15:-2])
        if isinstance(node, ast.Name) and node.id in self.ints:
            return self.ints[node.id]
        if isinstance(node, ast.BinOp) and isinstance(node.op, ast.Add):
            a, b = self.iexpr(node.left), self.iexpr(node.right)
            return ("add", a, b) if a and b else None
        if isinstance(node, ast.Call) and isinstance(node.func, ast.Name) and node.func.id == "int" and len(node.args) == 1:
            return self.iexpr(node.args[0])
        return None

    def strip_casts(self, node):
        casts = []
        while (isinstance(node, ast.Call) and isinstance(node.func, ast.Attribute) and node.func.attr == "astype"
               and len(node.args) == 1 and not node.keywords and _np_dtype(node.args[0])):
            casts.insert(0, _np_dtype(node.args[0]))
            node = node.func.value
        return node, casts

    def aref(self, node):
        """a name bound to an array, or dataset["msk"].data -> key of self.arrs"""
        if isinstance(node, ast.Name) and node.id in self.arrs:
            return node.id
        if _d(node) == 'dataset["msk"].data' and "dataset.msk" in self.arrs:
            return "dataset.msk"
        return None

    def arrexpr(self, node, out):
        """-> (ssa name, dtype); may append a statement to `out`"""
        key = self.aref(node)
        if key:
            return self.arrs[key]
        inner, casts = self.strip_casts(node)
        if isinstance(inner, ast.Call) and gen_blocks._is_np(inner.func, "full") and len(inner.args) == 2:  # pylint: disable=protected-access
            shape, val = inner.args
            if not (isinstance(shape, ast.Tuple) and [_d(e) for e in shape.elts] == ["height", "width"]):
                _bad("add_mask", "np.full of another shape than (height, width)", node)
            e = self.iexpr(val)
            kw = {k.arg: k.value for k in inner.keywords}
            if e is None or set(kw) - {"dtype"} or ("dtype" in kw and not _np_dtype(kw["dtype"])):
                _bad("add_mask", "unsupported np.full", node)
            if "dtype" in kw:
                casts.insert(0, _np_dtype(kw["dtype"]))
            name = self.fresh("a")
            out.append(("arr", name, ("full", e, casts)))
            return (name, casts[-1] if casts else "int64")
        if ast.unparse(inner) == "rasterio_open(mask).read(1, window=window)":
            if not self.in_mask_branch:
                _bad("add_mask", "the mask file is read outside `if mask is not None`", node)
            name = self.fresh("a")
            out.append(("arr", name, ("readmask", casts)))
            return (name, casts[-1] if casts else None)
        return None

    def maskexpr(self, node, out):
        """comparison of an array with an integer literal (optionally inside np.where) -> ssa name of the mask"""
        if isinstance(node, ast.Call) and gen_blocks._is_np(node.func, "where") and len(node.args) == 1:  # pylint: disable=protected-access
            return self.maskexpr(node.args[0], out)
        if isinstance(node, ast.Name) and node.id in self.masks:
            return self.masks[node.id]
        if isinstance(node, ast.Compare) and len(node.ops) == 1:
            ops = {ast.NotEq: "ne", ast.Gt: "gt", ast.GtE: "ge", ast.Lt: "lt", ast.Eq: "eq"}
            k = self.iexpr(node.comparators[0])
            inner, casts = self.strip_casts(node.left)
            key = self.aref(inner)
            if type(node.ops[0]) in ops and k and k[0] == "lit" and key:
                name = self.fresh("m")
                out.append(("mask", name, ops[type(node.ops[0])], self.arrs[key][0], casts, k[1]))
                return name
        return None

    def walk(self, stmts, out, top=True):
        for i, st in enumerate(stmts):
            if isinstance(st, ast.Return):
                if not (top and i == len(stmts) - 1 and _d(st.value) == "dataset"):
                    _bad("add_mask", "unsupported return", st)
                continue
            if isinstance(st, ast.If):
                t = ast.unparse(st.test)
                if t in ("mask is not None", "mask is None"):
                    self.branches(st, out, t == "mask is not None")
                    continue
                _bad("add_mask", f"unsupported condition {t[:50]}", st)
            if not (isinstance(st, ast.Assign) and len(st.targets) == 1):
                _bad("add_mask", f"unsupported statement {ast.unparse(st)[:60]}", st)
            tgt, val = st.targets[0], st.value
            if isinstance(tgt, ast.Name):
                e = self.iexpr(val)
                if e:
                    self.ints[tgt.id] = e
                    continue
                a = self.arrexpr(val, out)
                if a:
                    self.arrs[tgt.id] = a
                    continue
                m = self.maskexpr(val, out)
                if m:
                    self.masks[tgt.id] = m
                    continue
                _bad("add_mask", f"unsupported right-hand side {ast.unparse(val)[:60]}", st)
            if _d(tgt) == 'dataset["msk"]':
                if not (isinstance(val, ast.Call) and _d(val.func) == "xr.DataArray" and len(val.args) == 1
                        and [(k.arg, ast.unparse(k.value).replace("'", '"')) for k in val.keywords] == [("dims", '["row", "col"]')]):
                    _bad("add_mask", "unsupported construction of dataset[\"msk\"]", st)
                a = self.arrexpr(val.args[0], out)
                if not a:
                    _bad("add_mask", "unsupported data of dataset[\"msk\"]", st)
                self.arrs["dataset.msk"] = a  # the DataArray wraps the array itself (no copy)
                for k_, v_ in list(self.arrs.items()):
                    if v_ == a:
                        self.arrs[k_] = a
                continue
            if isinstance(tgt, ast.Subscript):
                key = self.aref(tgt.value)
                e = self.iexpr(val)
                if key is None or e is None:
                    _bad("add_mask", f"unsupported store {ast.unparse(st)[:60]}", st)
                old, dt = self.arrs[key]
                sl = tgt.slice
                if isinstance(sl, ast.Slice) and sl.lower is None and sl.upper is None and sl.step is None:
                    idx = ("all",)
                elif ast.unparse(sl) == "(no_data_pixels[-2], no_data_pixels[-1])":
                    idx = ("pixels",)
                else:
                    m = self.maskexpr(sl, out)
                    if not m:
                        _bad("add_mask", f"unsupported index {ast.unparse(sl)[:50]}", st)
                    idx = ("mask", m)
                name = self.fresh("a")
                out.append(("arr", name, ("store", old, idx, e, dt)))
                for k_, v_ in list(self.arrs.items()):  # every name of this array sees the store
                    if v_[0] == old:
                        self.arrs[k_] = (name, dt)
                continue
            _bad("add_mask", f"unsupported statement {ast.unparse(st)[:60]}", st)

    def branches(self, st, out, then_is_some):
        saved = (dict(self.ints), dict(self.arrs), dict(self.masks))
        res = []
        for body, some in ((st.body, then_is_some), (st.orelse, not then_is_some)):
            self.ints, self.arrs, self.masks = (dict(x) for x in saved)
            self.in_mask_branch = some
            o = []
            self.walk(body, o, top=False)
            res.append((some, o, dict(self.arrs)))
        self.in_mask_branch = False
        (s1, o1, a1), (s2, o2, a2) = res
        some_o, some_a, none_o, none_a = (o1, a1, o2, a2) if s1 else (o2, a2, o1, a1)
        self.ints, self.arrs, self.masks = (dict(x) for x in saved)
        merged, pairs = {}, {}
        for k in some_a:
            if k in none_a:
                if some_a[k] == none_a[k]:
                    merged[k] = some_a[k]
                else:
                    if some_a[k][1] != none_a[k][1]:
                        _bad("add_mask", f"{k} has dtype {some_a[k][1]} in one branch and {none_a[k][1]} in the other", st)
                    pr = (some_a[k][0], none_a[k][0])
                    if pr not in pairs:
                        pairs[pr] = self.fresh("a")
                    merged[k] = (pairs[pr], some_a[k][1])
        self.arrs = merged
        out.append(("if", some_o, none_o, [(v, k[0], k[1]) for k, v in pairs.items()]))


def read_add_mask(fn_node=None):
    fn = fn_node if fn_node is not None else find_function(parse(REL), "add_mask")
    if [a.arg for a in fn.args.args] != ["dataset", "mask", "no_data_pixels", "width", "height", "window"]:
        _bad("add_mask", "unexpected parameters")
    body = _body(fn)
    g = body[0] if body else None
    if not (isinstance(g, ast.If) and not g.orelse and ast.unparse(g.test) == "mask is None and no_data_pixels[0].size == 0"
            and len(g.body) == 1 and isinstance(g.body[0], ast.Return) and _d(g.body[0].value) == "dataset"):
        _bad("add_mask", "the function does not start with the `no mask and no nodata pixel` shortcut")
    r = MaskReader()
    out = []
    r.walk(body[1:], out)
    if "dataset.msk" not in r.arrs:
        _bad("add_mask", "dataset[\"msk\"] is not assigned on every path")
    return {"stmts": out, "result": r.arrs["dataset.msk"][0], "source": ast.unparse(fn)}


def mask_cmp():
    """Fallback of gen_imgtools.extract_mask: the operator of the single comparison of the RAW mask raster with 0"""
    t = read_add_mask()

    def flat(stmts):
        for st in stmts:
            if st[0] == "if":
                yield from flat(st[1])
                yield from flat(st[2])
            else:
                yield st

    sts = list(flat(t["stmts"]))
    raws = {st[1] for st in sts if st[0] == "arr" and st[2][0] == "readmask" and not st[2][1]}
    cmps = [st for st in sts if st[0] == "mask"]
    if len(cmps) != 1 or cmps[0][3] not in raws or cmps[0][4] or cmps[0][5] != 0 or cmps[0][2] not in ("ne", "gt"):
        _bad("add_mask", "translated, but not one `!= 0` / `> 0` comparison of the raw mask raster")
    return {"maskCmp": cmps[0][2]}


def _il(e):
    if e[0] == "lit":
        return f"({e[1]})"
    if e[0] == "attr":
        return e[1]
    return f"({_il(e[1])} + {_il(e[2])})"


def _cast(term, casts):
    for c in casts:
        b, s = DTYPES[c]
        term = f"wrapInt {b} {'true' if s else 'false'} ({term})"
    return term


OPS = {"ne": "≠", "gt": ">", "ge": "≥", "lt": "<", "eq": "="}


def _mask_lines(stmts, ind):
    out = []
    for st in stmts:
        if st[0] == "arr":
            _, name, e = st
            if e[0] == "full":
                out.append(f"{ind}let {name} : Nat → Nat → Int := fun _ _ => {_cast(_il(e[1]), e[2])}")
            elif e[0] == "readmask":
                out.append(f"{ind}let {name} : Nat → Nat → Int := fun r c => {_cast('raw r c', e[1])}")
            else:
                _, old, idx, v, dt = e
                val = _cast(_il(v), [dt] if dt else [])
                if idx[0] == "all":
                    out.append(f"{ind}let {name} : Nat → Nat → Int := fun _ _ => {val}")
                else:
                    cond = f"{idx[1]} r c" if idx[0] == "mask" else "pix2 nbands no_data_pixels r c"
                    out.append(f"{ind}let {name} : Nat → Nat → Int := fun r c => if {cond} then {val} else {old} r c")
        elif st[0] == "mask":
            _, name, op, arr, casts, k = st
            out.append(f"{ind}let {name} : Nat → Nat → Bool := fun r c => decide ({_cast(arr + ' r c', casts)} {OPS[op]} ({k}))")
        else:
            _, some_o, none_o, outs = st
            ty = " × ".join(["(Nat → Nat → Int)"] * len(outs)) or "Unit"
            tup = lambda j: "()" if not outs else ("(" + ", ".join(o[j] for o in outs) + ")" if len(outs) > 1 else outs[0][j])  # noqa: E731
            out.append(f"{ind}let phi : {ty} :=")
            out.append(f"{ind}  match input_mask with")
            out.append(f"{ind}  | some raw =>")
            out += _mask_lines(some_o, ind + "    ")
            out.append(f"{ind}    {tup(1)}")
            out.append(f"{ind}  | none =>")
            out += _mask_lines(none_o, ind + "    ")
            out.append(f"{ind}    {tup(2)}")
            for j, o in enumerate(outs):
                proj = "phi" if len(outs) == 1 else "phi" + ".2" * j + (".1" if j < len(outs) - 1 else "")
                out.append(f"{ind}let {o[0]} : Nat → Nat → Int := {proj}")
    return out


def render_add_mask(t):
    lines = ["def addMask (valid_pixels no_data_mask : Int) (nbands rows cols : Nat) (input_mask : Option (Nat → Nat → Int))",
             "    (no_data_pixels : Nat → Nat → Nat → Bool) : Option (Nat → Nat → Int) :=",
             "  if input_mask.isNone && !(anyIdx3 nbands rows cols no_data_pixels) then none",
             "  else some ("]
    lines += _mask_lines(t["stmts"], "    ")
    lines.append(f"    {t['result']})")
    return "\n".join(lines)


def eval_add_mask(t, attrs, rows, cols, raw, pixels2, any_pixels):
    """raw: 2-D list of ints or None; pixels2: 2-D list of bools; -> 2-D list of ints or None"""
    if raw is None and not any_pixels:
        return None

    def iv(e):
        return e[1] if e[0] == "lit" else attrs[e[1]] if e[0] == "attr" else iv(e[1]) + iv(e[2])

    def cast(v, casts):
        for c in casts:
            v = wrap(v, c)
        return v

    cmpf = {"ne": lambda a, b: a != b, "gt": lambda a, b: a > b, "ge": lambda a, b: a >= b, "lt": lambda a, b: a < b,
            "eq": lambda a, b: a == b}

    def run(stmts, env):
        for st in stmts:
            if st[0] == "arr":
                _, name, e = st
                if e[0] == "full":
                    env[name] = [[cast(iv(e[1]), e[2])] * cols for _ in range(rows)]
                elif e[0] == "readmask":
                    env[name] = [[cast(int(raw[r][c]), e[1]) for c in range(cols)] for r in range(rows)]
                else:
                    _, old, idx, v, dt = e
                    val = cast(iv(v), [dt] if dt else [])
                    sel = (lambda r, c: True) if idx[0] == "all" else (lambda r, c: env[idx[1]][r][c]) if idx[0] == "mask" \
                        else (lambda r, c: pixels2[r][c])
                    env[name] = [[val if sel(r, c) else env[old][r][c] for c in range(cols)] for r in range(rows)]
            elif st[0] == "mask":
                _, name, op, arr, casts, k = st
                env[name] = [[cmpf[op](cast(env[arr][r][c], casts), k) for c in range(cols)] for r in range(rows)]
            else:
                _, some_o, none_o, outs = st
                sub = dict(env)
                run(some_o if raw is not None else none_o, sub)
                for new, a, b in outs:
                    env[new] = sub[a if raw is not None else b]
        return env

    return run(t["stmts"], {})[t["result"]]


# ---------------------------------------------------------------------------------------------
# add_no_data
# ---------------------------------------------------------------------------------------------
def read_add_no_data():
    fn = find_function(parse(REL), "add_no_data")
    body = _body(fn)
    if len(body) != 3 or not isinstance(body[0], ast.If) or body[0].orelse:
        _bad("add_no_data", "unexpected shape of the body")
    test = body[0].test
    if not (isinstance(test, ast.BoolOp) and isinstance(test.op, ast.And) and len(test.values) == 2
            and ast.unparse(test.values[0]) == "no_data_pixels[0].size != 0"):
        _bad("add_no_data", "unexpected condition", body[0])
    t2 = test.values[1]
    tests = [t2] if not isinstance(t2, ast.BoolOp) else (t2.values if isinstance(t2.op, ast.Or) else None)
    names = []
    for t in tests or [None]:
        u = ast.unparse(t) if t is not None else ""
        if u not in ("np.isnan(no_data)", "np.isinf(no_data)"):
            _bad("add_no_data", f"unexpected test {u}", body[0])
        names.append(u[3:8])
    st = body[0].body
    r = MaskReader()
    if not (len(st) == 2 and all(isinstance(s, ast.Assign) for s in st) and ast.unparse(st[0].targets[0]).replace("'", '"') == 'dataset["im"].data[no_data_pixels]'
            and _d(st[1].targets[0]) == "no_data"):
        _bad("add_no_data", "unexpected statements under the condition", body[0])
    v1, v2 = r.iexpr(st[0].value), r.iexpr(st[1].value)
    if not (v1 and v2 and v1[0] == v2[0] == "lit"):
        _bad("add_no_data", "replacement values are not integer literals", body[0])
    if ast.unparse(body[1]).replace("'", '"') != 'dataset.attrs.update({"no_data_img": no_data})' or ast.unparse(body[2]) != "return dataset":
        _bad("add_no_data", "unexpected end of the function", body[1])
    return {"tests": names, "store": v1[1], "attr": v2[1], "source": ast.unparse(fn)}


def render_add_no_data(t):
    cond = " || ".join(f"no_data.{'isNan' if n == 'isnan' else 'isInf'}" for n in t["tests"])
    return "\n".join([
        "def addNoData (nbands rows cols : Nat) (no_data : FVal) (no_data_pixels : Nat → Nat → Nat → Bool)",
        "    (im : Nat → Nat → Nat → FVal) : (Nat → Nat → Nat → FVal) × FVal :=",
        f"  if anyIdx3 nbands rows cols no_data_pixels && ({cond}) then",
        f"    (fun b r c => if no_data_pixels b r c then FVal.ofInt ({t['store']}) else im b r c, FVal.ofInt ({t['attr']}))",
        "  else (im, no_data)",
    ])


# ---------------------------------------------------------------------------------------------
# add_disparity
# ---------------------------------------------------------------------------------------------
def read_add_disparity():
    fn = find_function(parse(REL), "add_disparity")
    body = _body(fn)
    ok = (len(body) == 3 and isinstance(body[0], ast.If) and ast.unparse(body[0].test) == "disparity is not None" and not body[0].orelse
          and ast.unparse(body[1]).replace("'", '"') == 'dataset.attrs["disparity_source"] = disparity' and ast.unparse(body[2]) == "return dataset")
    if not ok:
        _bad("add_disparity", "unexpected shape of the body")
    inner = body[0].body
    if not (len(inner) == 2 and ast.unparse(inner[0]).replace("'", '"') == 'dataset.coords["band_disp"] = ["min", "max"]'
            and isinstance(inner[1], ast.If) and ast.unparse(inner[1].test) == "isinstance(disparity, str)" and len(inner[1].orelse) == 1):
        _bad("add_disparity", "unexpected statements under `disparity is not None`", body[0])
    grid = [ast.unparse(s).replace("'", '"') for s in inner[1].body]
    if grid != ["disparity_ds = rasterio_open(disparity)",
                'dataset["disparity"] = xr.DataArray(disparity_ds.read(out_dtype=np.float32, window=window), dims=["band_disp", "row", "col"])']:
        _bad("add_disparity", "unexpected grid branch", inner[1])
    st = inner[1].orelse[0]
    val = st.value if isinstance(st, ast.Assign) and ast.unparse(st.targets[0]).replace("'", '"') == 'dataset["disparity"]' else None
    idx = []
    try:
        assert _d(val.func) == "xr.DataArray" and ast.unparse(val.keywords[0].value).replace("'", '"') == '["band_disp", "row", "col"]'
        arr = val.args[0]
        assert gen_blocks._is_np(arr.func, "array") and isinstance(arr.args[0], ast.List) and len(arr.args[0].elts) == 2  # pylint: disable=protected-access
        for e in arr.args[0].elts:
            assert gen_blocks._is_np(e.func, "full") and ast.unparse(e.args[0]).replace("'", '"') == '(dataset.sizes["row"], dataset.sizes["col"])'  # pylint: disable=protected-access
            assert isinstance(e.args[1], ast.Subscript) and _d(e.args[1].value) == "disparity" and e.args[1].slice.value in (0, 1)
            idx.append(e.args[1].slice.value)
    except (AssertionError, AttributeError, IndexError):
        _bad("add_disparity", "unexpected broadcast of the [min, max] pair", st)
    return {"pair": idx, "source": ast.unparse(fn)}


def render_add_disparity(t):
    d = ["d0", "d1"]
    return "\n".join([
        "def addDisparity (disparity : DispIn) (rowOff colOff : Nat) : Option (Nat → Nat → Nat → FVal) :=",
        "  match disparity with",
        "  | .absent => none   -- no \"disp\" key: add_disparity is not called",
        "  | .null => none",
        "  | .grid g => some fun k r c => g k (r + rowOff) (c + colOff)   -- read(window=window)",
        f"  | .pair d0 d1 => some fun k _ _ => if k = 0 then FVal.ofInt {d[t['pair'][0]]} else FVal.ofInt {d[t['pair'][1]]}",
    ])


# ---------------------------------------------------------------------------------------------
# the tail of create_dataset_from_inputs
# ---------------------------------------------------------------------------------------------
def read_tail():
    fn = find_function(parse(REL), "create_dataset_from_inputs")
    body = _body(fn)
    chain, pipes, has_disp = None, None, False
    for i, st in enumerate(body):
        u = ast.unparse(st).replace("'", '"')
        if u.startswith('if "disp" in input_parameters:'):
            has_disp = u == 'if "disp" in input_parameters:\n    dataset.pipe(add_disparity, disparity=input_config["disp"], window=window)'
        if u == 'no_data = input_parameters["nodata"]':
            nxt = body[i + 1]
            chain = []
            while isinstance(nxt, ast.If):
                chain.append((ast.unparse(nxt.test), ast.unparse(nxt.body[0]).replace("'", '"') if len(nxt.body) == 1 else "?"))
                if len(nxt.orelse) == 1 and isinstance(nxt.orelse[0], ast.If):
                    nxt = nxt.orelse[0]
                else:
                    chain.append((None, ast.unparse(nxt.orelse[0]).replace("'", '"') if len(nxt.orelse) == 1 else "?"))
                    break
            if not isinstance(body[i + 2], ast.Return) or i + 2 != len(body) - 1:
                _bad("create_dataset_from_inputs", "the detection of the nodata pixels is not followed by the final return", st)
            pipes = []
            node = body[i + 2].value
            while isinstance(node, ast.Call) and isinstance(node.func, ast.Attribute) and node.func.attr == "pipe":
                pipes.insert(0, [ast.unparse(a).replace("'", '"') for a in node.args])
                node = node.func.value
            if _d(node) != "dataset" or body[i + 2].value.keywords:
                _bad("create_dataset_from_inputs", "unexpected final return", body[i + 2])
    preds = {'no_data_pixels = np.where(np.isnan(dataset["im"].data))': "isnan",
             'no_data_pixels = np.where(np.isinf(dataset["im"].data))': "isinf",
             'no_data_pixels = np.where(dataset["im"].data == no_data)': "eq"}
    tests = {"np.isnan(no_data)": "isnan", "np.isinf(no_data)": "isinf", None: None}
    if not chain or any(t not in tests or p not in preds for t, p in chain) or chain[-1][0] is not None:
        _bad("create_dataset_from_inputs", f"unexpected detection of the nodata pixels: {chain}")
    want = [["add_classif", 'input_parameters["classif"]', "window"], ["add_segm", 'input_parameters["segm"]', "window"],
            ["add_no_data", "no_data", "no_data_pixels"], ["add_mask", 'input_parameters["mask"]', "no_data_pixels", "nx_", "ny_", "window"]]
    if sorted(pipes) != sorted(want) or not has_disp:
        _bad("create_dataset_from_inputs", f"unexpected pipe calls {pipes}")
    return {"chain": [(tests[t], preds[p]) for t, p in chain], "pipes": [p[0] for p in pipes]}


def render_tail(t):
    pred = {"isnan": "fun b r c => (im b r c).isNan", "isinf": "fun b r c => (im b r c).isInf", "eq": "fun b r c => (im b r c).npEq no_data"}
    test = {"isnan": "no_data.isNan", "isinf": "no_data.isInf"}
    lines = ["def noDataPixels (no_data : FVal) (im : Nat → Nat → Nat → FVal) : Nat → Nat → Nat → Bool :="]
    expr = ""
    for tst, p in t["chain"]:
        expr += f"if {test[tst]} then ({pred[p]}) else " if tst else f"({pred[p]})"
    lines.append("  " + expr)
    lines += ["",
              "/-- the end of `create_dataset_from_inputs`: `no_data_pixels` is computed ONCE, before `add_no_data` rewrites the samples,",
              "    and handed to both `add_no_data` and `add_mask` -/",
              "def datasetTail (nbands rows cols : Nat) (no_data : FVal) (im : Nat → Nat → Nat → FVal)",
              "    (input_mask : Option (Nat → Nat → Int)) : (Nat → Nat → Nat → FVal) × FVal × Option (Nat → Nat → Int) :=",
              "  let no_data_pixels := noDataPixels no_data im",
              "  let nd := addNoData nbands rows cols no_data no_data_pixels im",
              "  let msk := addMask Generated.imgToolsParams.validPixels Generated.imgToolsParams.noDataMask nbands rows cols input_mask no_data_pixels",
              "  (nd.1, nd.2, msk)"]
    return "\n".join(lines)


def functions():
    return {"add_mask": read_add_mask(), "add_no_data": read_add_no_data(), "add_disparity": read_add_disparity(), "tail": read_tail()}


def render(f) -> str:
    def com(t):
        return t["source"].replace("-/", "- /").replace("/-", "/ -")

    return "\n".join([
        "-- GENERATED by translator/gen_kernels_dataset.py from pandora/img_tools.py. Do not edit.",
        "import PandoraModel.Model.PyArr",
        "import PandoraModel.Model.Dataset",
        "import PandoraModel.Generated.ImgTools",
        "set_option linter.unusedVariables false",
        "namespace Pandora.Generated.KernelsDataset",
        "open Pandora Pandora.PyArr Pandora.Dataset",
        "",
        "/- add_mask", com(f["add_mask"]), "-/", render_add_mask(f["add_mask"]), "",
        "/- add_no_data", com(f["add_no_data"]), "-/", render_add_no_data(f["add_no_data"]), "",
        "/- add_disparity", com(f["add_disparity"]), "-/", render_add_disparity(f["add_disparity"]), "",
        "/- create_dataset_from_inputs: detection of the nodata pixels and the final pipe calls -/", render_tail(f["tail"]), "",
        "end Pandora.Generated.KernelsDataset",
    ]) + "\n"


def generate():
    f = functions()
    write_if_changed("KernelsDataset.lean", render(f))
    return {"T15dataset": {"source": [REL], "digest": digest(REL), "add_mask": [s[0] for s in f["add_mask"]["stmts"]],
                           "add_no_data": {k: v for k, v in f["add_no_data"].items() if k != "source"},
                           "add_disparity": f["add_disparity"]["pair"], "tail": f["tail"]}}
