"""T3 + T4 + T5: class defaults, json_checker schemas (lambda bodies included) and the default-insertion
sequence of every step class's check_conf, plus the input-section schemas of check_configuration.py.

Python `ast` only.  The intermediate representation is plain JSON-able data (lists / strings / numbers),
the same the harness sends to the Lean driver; `render()` prints it as Lean terms of the types of
`Model/Schema.lean` and `Model/Config.lean`.

  value  := None | bool | int | {"f": "n/d" | "nan" | "inf" | "-inf"} | str | [value…] (tuple/list literal)
  expr   := ["var"] | ["lit", value] | ["cmp", op, expr, expr] | ["and", e, e] | ["or", e, e] | ["not", e]
          | ["mod", e, int] | ["bitand", e, e] | ["in", e, [value…]] | ["isnone", e] | ["isnan", e]
          | ["isscalar", e] | ["len", e]
  schema := ["type", name] | ["func", expr] | ["oracle", name] | ["all", [schema…]] | ["any", [schema…]]
          | ["list", [schema…]] | ["dict", [[key, optional, schema]…]]
  action := ["default", key, value] | ["default_nan", key, value] | ["guard_ne", key, value, err]
          | ["refuse_grids"]

A float literal is carried by its shortest round-trip decimal (`repr`), e.g. 0.7 -> "7/10": this names
the double uniquely and preserves the order against every integer constant (see DESIGN_NOTES/C05.md).
Anything outside the recognised syntax raises `Unsupported`.
"""
from __future__ import annotations

import ast
import os
from fractions import Fraction

from .common import REPO, Unsupported, find_class, find_function, find_method, lean_str, parse

# kind -> (package directory, module of the abstract class, abstract class name)
KINDS = [
    ("matching_cost", "pandora/matching_cost", "matching_cost.py", "AbstractMatchingCost"),
    ("aggregation", "pandora/aggregation", "aggregation.py", "AbstractAggregation"),
    ("optimization", "pandora/optimization", "optimization.py", "AbstractOptimization"),
    ("semantic_segmentation", "pandora/semantic_segmentation", "semantic_segmentation.py", "AbstractSemanticSegmentation"),
    ("cost_volume_confidence", "pandora/cost_volume_confidence", "cost_volume_confidence.py", "AbstractCostVolumeConfidence"),
    ("disparity", "pandora/disparity", "disparity.py", "AbstractDisparity"),
    ("filter", "pandora/filter", "filter.py", "AbstractFilter"),
    ("refinement", "pandora/refinement", "refinement.py", "AbstractRefinement"),
    ("validation", "pandora/validation", "validation.py", "AbstractValidation"),
    ("multiscale", "pandora/multiscale", "multiscale.py", "AbstractMultiscale"),
]
CHECK_CONFIGURATION = "pandora/check_configuration.py"
TYPES = {"int", "float", "str", "bool", "dict", "list"}
ORACLES = {"rasterio_can_open", "rasterio_can_open_mandatory"}
ERRORS = {"ValueError": "value", "TypeError": "type", "AttributeError": "attr", "KeyError": "key"}
CMP = {ast.Lt: "lt", ast.LtE: "le", ast.Gt: "gt", ast.GtE: "ge", ast.Eq: "eq", ast.NotEq: "ne"}


def src(node) -> str:
    return ast.unparse(node)[:100]


# --------------------------------------------------------------------------------------------
# values
# --------------------------------------------------------------------------------------------
def fval(x: float):
    if x != x:
        return {"f": "nan"}
    if x in (float("inf"), float("-inf")):
        return {"f": "inf" if x > 0 else "-inf"}
    fr = Fraction(repr(x))
    return {"f": fr.numerator if fr.denominator == 1 else f"{fr.numerator}/{fr.denominator}"}


def const_value(node, consts=None):
    """a literal: None/bool/int/float/str, -literal, tuple/list of literals, np.nan, self._NAME"""
    if isinstance(node, ast.Constant):
        v = node.value
        if v is None or isinstance(v, (bool, int, str)):
            return v
        if isinstance(v, float):
            return fval(v)
        raise Unsupported(f"literal {src(node)}")
    if isinstance(node, ast.UnaryOp) and isinstance(node.op, ast.USub) and isinstance(node.operand, ast.Constant):
        v = node.operand.value
        if isinstance(v, bool) or not isinstance(v, (int, float)):
            raise Unsupported(f"literal {src(node)}")
        return -v if isinstance(v, int) else fval(-v)
    if isinstance(node, (ast.Tuple, ast.List)):
        return [const_value(e, consts) for e in node.elts]
    if isinstance(node, ast.Attribute) and isinstance(node.value, ast.Name):
        if node.value.id == "np" and node.attr == "nan":
            return {"f": "nan"}
        if node.value.id == "np" and node.attr == "inf":
            return {"f": "inf"}
        if node.value.id == "self" and consts is not None:
            if node.attr in consts:
                return consts[node.attr]
            raise Unsupported(f"class constant {node.attr} not found")
    raise Unsupported(f"not a literal: {src(node)}")


def is_numeric_literal(e) -> bool:
    return e[0] == "lit" and (isinstance(e[1], int) and not isinstance(e[1], bool) or isinstance(e[1], dict))


# --------------------------------------------------------------------------------------------
# lambda bodies
# --------------------------------------------------------------------------------------------
def expr(node, param: str):
    if isinstance(node, ast.Name):
        if node.id == param:
            return ["var"]
        raise Unsupported(f"free variable {node.id} in a lambda")
    if isinstance(node, (ast.Constant, ast.UnaryOp)) and not (
        isinstance(node, ast.UnaryOp) and isinstance(node.op, ast.Not)
    ):
        return ["lit", const_value(node)]
    if isinstance(node, ast.UnaryOp) and isinstance(node.op, ast.Not):
        return ["not", expr(node.operand, param)]
    if isinstance(node, ast.BoolOp):
        tag = "and" if isinstance(node.op, ast.And) else "or"
        vals = [expr(v, param) for v in node.values]
        out = vals[-1]
        for v in reversed(vals[:-1]):
            out = [tag, v, out]
        return out
    if isinstance(node, ast.Compare):
        parts = []
        left = node.left
        for op, right in zip(node.ops, node.comparators):
            parts.append(compare(op, left, right, param))
            left = right
        if len(parts) > 1:
            # a chain a < b < c evaluates b once; translated as (a < b) and (b < c): b must be pure and cheap
            for mid in node.comparators[:-1]:
                if not isinstance(mid, (ast.Name, ast.Constant)):
                    raise Unsupported(f"chained comparison with a compound middle operand: {src(node)}")
        out = parts[-1]
        for p in reversed(parts[:-1]):
            out = ["and", p, out]
        return out
    if isinstance(node, ast.BinOp) and isinstance(node.op, ast.Mod):
        m = node.right
        if not (isinstance(m, ast.Constant) and isinstance(m.value, int) and not isinstance(m.value, bool) and m.value > 0):
            raise Unsupported(f"modulus must be a positive integer literal: {src(node)}")
        return ["mod", expr(node.left, param), m.value]
    if isinstance(node, ast.BinOp) and isinstance(node.op, ast.BitAnd):
        if not (isinstance(node.left, ast.Compare) and isinstance(node.right, ast.Compare)):
            raise Unsupported(f"& is translated between comparisons only: {src(node)}")
        return ["bitand", expr(node.left, param), expr(node.right, param)]
    if isinstance(node, ast.Call):
        f = node.func
        if isinstance(f, ast.Name) and f.id == "len" and len(node.args) == 1 and not node.keywords:
            return ["len", expr(node.args[0], param)]
        if isinstance(f, ast.Attribute) and isinstance(f.value, ast.Name):
            if (f.value.id, f.attr) == ("np", "isnan") and len(node.args) == 1 and not node.keywords:
                return ["isnan", expr(node.args[0], param)]
            if (f.value.id, f.attr) == ("np", "isscalar") and len(node.args) == 1 and not node.keywords:
                return ["isscalar", expr(node.args[0], param)]
            if (f.value.id, f.attr) == ("common", "is_method") and len(node.args) == 2 and not node.keywords:
                items = const_value(node.args[1])
                if not isinstance(items, list):
                    raise Unsupported(f"is_method needs a literal list: {src(node)}")
                return ["in", expr(node.args[0], param), items]
    raise Unsupported(f"lambda body: {src(node)}")


def compare(op, left, right, param):
    if isinstance(op, (ast.In, ast.NotIn)):
        items = const_value(right)
        if not isinstance(items, list):
            raise Unsupported(f"`in` needs a literal tuple/list: {src(right)}")
        e = ["in", expr(left, param), items]
        return e if isinstance(op, ast.In) else ["not", e]
    if isinstance(op, (ast.Is, ast.IsNot)):
        if not (isinstance(right, ast.Constant) and right.value is None):
            raise Unsupported("`is` is translated against None only")
        e = ["isnone", expr(left, param)]
        return e if isinstance(op, ast.Is) else ["not", e]
    if type(op) not in CMP:
        raise Unsupported(f"comparison operator {type(op).__name__}")
    a, b = expr(left, param), expr(right, param)
    if CMP[type(op)] not in ("eq", "ne") and not (is_numeric_literal(a) or is_numeric_literal(b)):
        raise Unsupported(f"ordering without a numeric literal operand: {src(left)} ? {src(right)}")
    if CMP[type(op)] in ("eq", "ne") and not (a[0] == "lit" or b[0] == "lit"):
        raise Unsupported(f"== without a literal operand: {src(left)} ? {src(right)}")
    return ["cmp", CMP[type(op)], a, b]


# --------------------------------------------------------------------------------------------
# schemas
# --------------------------------------------------------------------------------------------
def schema(node):
    if isinstance(node, ast.Name):
        if node.id in TYPES:
            return ["type", node.id]
        if node.id in ORACLES:
            return ["oracle", node.id]
        raise Unsupported(f"schema name {node.id}")
    if isinstance(node, ast.Lambda):
        a = node.args
        if len(a.args) != 1 or a.vararg or a.kwarg or a.kwonlyargs or a.defaults or a.posonlyargs:
            raise Unsupported(f"lambda signature: {src(node)}")
        return ["func", expr(node.body, a.args[0].arg)]
    if isinstance(node, ast.Call) and isinstance(node.func, ast.Name) and node.func.id in ("And", "Or"):
        if node.keywords or not node.args:
            raise Unsupported(f"And/Or call: {src(node)}")
        return ["all" if node.func.id == "And" else "any", [schema(a) for a in node.args]]
    if isinstance(node, ast.List):
        if not node.elts:
            raise Unsupported("empty list schema")
        return ["list", [schema(e) for e in node.elts]]
    if isinstance(node, ast.Dict):
        return ["dict", dict_entries(node)]
    raise Unsupported(f"schema expression: {src(node)}")


def dict_entries(node: ast.Dict):
    out = []
    for k, v in zip(node.keys, node.values):
        if isinstance(k, ast.Constant) and isinstance(k.value, str):
            out.append([k.value, False, schema(v)])
        elif (
            isinstance(k, ast.Call)
            and isinstance(k.func, ast.Name)
            and k.func.id == "OptionalKey"
            and len(k.args) == 1
            and isinstance(k.args[0], ast.Constant)
            and isinstance(k.args[0].value, str)
        ):
            out.append([k.args[0].value, True, schema(v)])
        else:
            raise Unsupported(f"schema key: {src(k) if k is not None else '**'}")
    keys = [e[0] for e in out]
    if len(set(keys)) != len(keys):
        raise Unsupported("duplicate schema key")
    return out


def set_entry(entries, key, sch):
    for e in entries:
        if e[0] == key:
            e[1], e[2] = False, sch
            return
    entries.append([key, False, sch])


# --------------------------------------------------------------------------------------------
# classes
# --------------------------------------------------------------------------------------------
def class_consts(cls: ast.ClassDef, base_consts=None):
    """class-level `_NAME = literal` assignments (the defaults) and a class-level `schema = {…}`"""
    consts = dict(base_consts or {})
    sch = None
    for node in cls.body:
        target = value = None
        if isinstance(node, ast.Assign) and len(node.targets) == 1 and isinstance(node.targets[0], ast.Name):
            target, value = node.targets[0].id, node.value
        elif isinstance(node, ast.AnnAssign) and isinstance(node.target, ast.Name) and node.value is not None:
            target, value = node.target.id, node.value
        if target is None:
            continue
        if target == "schema":
            if not isinstance(value, ast.Dict):
                raise Unsupported(f"{cls.name}.schema is not a dict literal")
            sch = dict_entries(value)
        elif target.startswith("_"):
            try:
                consts[target] = const_value(value)
            except Unsupported:
                pass  # not a literal (e.g. `_band = None` is one; objects are not): only literals can be defaults
    return consts, sch


def is_key_sub(node, var: str, key=None):
    """node is `var["key"]`"""
    ok = (
        isinstance(node, ast.Subscript)
        and isinstance(node.value, ast.Name)
        and node.value.id == var
        and isinstance(node.slice, ast.Constant)
        and isinstance(node.slice.value, str)
    )
    return ok and (key is None or node.slice.value == key)


def not_in_cfg(test, var: str):
    """test is `"k" not in cfg` -> k"""
    if (
        isinstance(test, ast.Compare)
        and len(test.ops) == 1
        and isinstance(test.ops[0], ast.NotIn)
        and isinstance(test.left, ast.Constant)
        and isinstance(test.left.value, str)
        and isinstance(test.comparators[0], ast.Name)
        and test.comparators[0].id == var
    ):
        return test.left.value
    return None


def single_assign(body, var: str, key: str, consts):
    """body is `[cfg["key"] = literal]` -> literal"""
    if len(body) == 1 and isinstance(body[0], ast.Assign) and len(body[0].targets) == 1 and is_key_sub(body[0].targets[0], var, key):
        return const_value(body[0].value, consts)
    raise Unsupported(f"expected a single assignment to {var}[{key!r}]")


def raised(body):
    if len(body) == 1 and isinstance(body[0], ast.Raise) and isinstance(body[0].exc, ast.Call) and isinstance(body[0].exc.func, ast.Name):
        name = body[0].exc.func.id
        if name in ERRORS:
            return ERRORS[name]
    raise Unsupported("expected a single `raise <KnownError>(…)`")


def is_grid_test(test):
    """isinstance(left_img.attrs["disparity_source"], str) or isinstance(right_img.attrs["disparity_source"], str)"""

    def one(n, who):
        return (
            isinstance(n, ast.Call)
            and isinstance(n.func, ast.Name)
            and n.func.id == "isinstance"
            and len(n.args) == 2
            and isinstance(n.args[1], ast.Name)
            and n.args[1].id == "str"
            and ast.unparse(n.args[0]) == f"{who}.attrs['disparity_source']"
        )

    return (
        isinstance(test, ast.BoolOp)
        and isinstance(test.op, ast.Or)
        and len(test.values) == 2
        and one(test.values[0], "left_img")
        and one(test.values[1], "right_img")
    )


def statement_actions(stmt: ast.If, var: str, consts):
    """one `if` statement of a check_conf -> list of actions"""
    k = not_in_cfg(stmt.test, var)
    if k is not None:
        val = single_assign(stmt.body, var, k, consts)
        if not stmt.orelse:
            return [["default", k, val]]
        # elif cfg[k] == "NaN": cfg[k] = np.nan
        if len(stmt.orelse) == 1 and isinstance(stmt.orelse[0], ast.If) and not stmt.orelse[0].orelse:
            el = stmt.orelse[0]
            t = el.test
            if (
                isinstance(t, ast.Compare)
                and len(t.ops) == 1
                and isinstance(t.ops[0], ast.Eq)
                and is_key_sub(t.left, var, k)
                and isinstance(t.comparators[0], ast.Constant)
                and t.comparators[0].value == "NaN"
                and single_assign(el.body, var, k, consts) == {"f": "nan"}
            ):
                return [["default_nan", k, val]]
        raise Unsupported(f"else branch of the default of {k}")
    # if "pandora2d" not in sys.modules: <guard>      (the checks run without pandora2d: harness asserts it)
    t = stmt.test
    if (
        isinstance(t, ast.Compare)
        and len(t.ops) == 1
        and isinstance(t.ops[0], ast.NotIn)
        and isinstance(t.left, ast.Constant)
        and t.left.value == "pandora2d"
        and ast.unparse(t.comparators[0]) == "sys.modules"
        and not stmt.orelse
    ):
        out = []
        for inner in stmt.body:
            if not isinstance(inner, ast.If):
                raise Unsupported("statement under the pandora2d test")
            out.extend(statement_actions(inner, var, consts))
        return out
    # if "k" in cfg and cfg["k"] != v: raise E
    if (
        isinstance(t, ast.BoolOp)
        and isinstance(t.op, ast.And)
        and len(t.values) == 2
        and isinstance(t.values[0], ast.Compare)
        and len(t.values[0].ops) == 1
        and isinstance(t.values[0].ops[0], ast.In)
        and isinstance(t.values[0].left, ast.Constant)
        and isinstance(t.values[0].comparators[0], ast.Name)
        and t.values[0].comparators[0].id == var
        and isinstance(t.values[1], ast.Compare)
        and len(t.values[1].ops) == 1
        and isinstance(t.values[1].ops[0], ast.NotEq)
        and is_key_sub(t.values[1].left, var, t.values[0].left.value)
        and not stmt.orelse
    ):
        return [["guard_ne", t.values[0].left.value, const_value(t.values[1].comparators[0], consts), raised(stmt.body)]]
    if is_grid_test(t) and not stmt.orelse and raised(stmt.body) == "type":
        return [["refuse_grids"]]
    raise Unsupported(f"check_conf statement: if {src(t)}")


def check_conf_of(cls: ast.ClassDef, consts, base):
    """(actions, schema entries) of cls.check_conf; `base` = (actions, class-level schema) of the parent"""
    fn = find_method(cls, "check_conf")
    # the configuration is `**cfg` or a positional `cfg`
    var = fn.args.kwarg.arg if fn.args.kwarg else (fn.args.args[-1].arg if fn.args.args else None)
    if var is None:
        raise Unsupported(f"{cls.name}.check_conf: no configuration parameter")
    actions = []
    entries = None
    tail = []
    for stmt in fn.body:
        if isinstance(stmt, ast.Expr) and isinstance(stmt.value, ast.Constant) and isinstance(stmt.value.value, str):
            continue  # docstring
        if tail:
            tail.append(stmt)
            continue
        if isinstance(stmt, ast.If):
            if entries is not None:
                raise Unsupported(f"{cls.name}.check_conf: statement after the schema")
            actions.extend(statement_actions(stmt, var, consts))
            continue
        if isinstance(stmt, ast.Assign) and len(stmt.targets) == 1:
            tgt, val = stmt.targets[0], stmt.value
            if isinstance(tgt, ast.Name) and tgt.id == var and ast.unparse(val) == f"super().check_conf(**{var})":
                if base is None or actions or entries is not None:
                    raise Unsupported(f"{cls.name}.check_conf: super() call out of place")
                actions.extend(base[0])
                continue
            if isinstance(tgt, ast.Name) and tgt.id == "schema":
                if isinstance(val, ast.Dict):
                    entries = dict_entries(val)
                    continue
                if ast.unparse(val) == "self.schema":
                    if base is None or base[1] is None:
                        raise Unsupported(f"{cls.name}: self.schema without a class-level schema")
                    entries = [list(e) for e in base[1]]
                    continue
            if is_key_sub(tgt, "schema") and entries is not None:
                set_entry(entries, tgt.slice.value, schema(val))
                continue
            if isinstance(tgt, ast.Name) and tgt.id == "checker" and ast.unparse(val) == "Checker(schema)":
                tail.append(stmt)
                continue
        raise Unsupported(f"{cls.name}.check_conf: {src(stmt)}")
    if entries is None:
        raise Unsupported(f"{cls.name}.check_conf: no schema")
    got = [ast.unparse(s) for s in tail]
    if got != ["checker = Checker(schema)", f"checker.validate({var})", f"return {var}"]:
        raise Unsupported(f"{cls.name}.check_conf: unexpected tail {got}")
    return actions, entries


def base_actions(cls: ast.ClassDef, consts):
    """the abstract class's own check_conf (matching cost): actions only, must end with `return cfg`"""
    try:
        fn = find_method(cls, "check_conf")
    except Unsupported:
        return None
    var = fn.args.kwarg.arg if fn.args.kwarg else None
    if var is None:
        raise Unsupported(f"{cls.name}.check_conf: expected **cfg")
    actions = []
    body = [s for s in fn.body if not (isinstance(s, ast.Expr) and isinstance(s.value, ast.Constant))]
    if not body or ast.unparse(body[-1]) != f"return {var}":
        raise Unsupported(f"{cls.name}.check_conf: must end with return {var}")
    for stmt in body[:-1]:
        if not isinstance(stmt, ast.If):
            raise Unsupported(f"{cls.name}.check_conf: {src(stmt)}")
        actions.extend(statement_actions(stmt, var, consts))
    return actions


def new_info(cls: ast.ClassDef):
    """method key and presence of the `unicode` branch in the abstract class's __new__"""
    fn = find_method(cls, "__new__")
    keys = set()
    uni = False
    for node in ast.walk(fn):
        if isinstance(node, ast.Subscript) and isinstance(node.value, ast.Name) and node.value.id == "cfg":
            if isinstance(node.slice, ast.Constant) and isinstance(node.slice.value, str):
                keys.add(node.slice.value)
        if isinstance(node, ast.Name) and node.id == "unicode":
            uni = True
    if len(keys) != 1:
        raise Unsupported(f"{cls.name}.__new__: expected exactly one cfg[...] key, got {sorted(keys)}")
    # shape: if cls is X: if isinstance(cfg[k], str): try: return super().__new__(registry[cfg[k]]) except: raise KeyError
    first = [s for s in fn.body if not (isinstance(s, ast.Expr) and isinstance(s.value, ast.Constant))][0]
    if not (isinstance(first, ast.If) and ast.unparse(first.test) == f"cls is {cls.name}"):
        raise Unsupported(f"{cls.name}.__new__: unexpected shape")
    inner = first.body[0]
    if not (isinstance(inner, ast.If) and ast.unparse(inner.test) == f"isinstance(cfg['{next(iter(keys))}'], str)"):
        raise Unsupported(f"{cls.name}.__new__: unexpected dispatch test")
    tr = inner.body[0]
    if not (isinstance(tr, ast.Try) and len(tr.handlers) == 1 and raised_key(tr.handlers[0].body)):
        raise Unsupported(f"{cls.name}.__new__: unknown names must raise KeyError")
    return next(iter(keys)), uni


def raised_key(body):
    for s in body:
        if isinstance(s, ast.Raise):
            e = s.exc
            name = e.func.id if isinstance(e, ast.Call) and isinstance(e.func, ast.Name) else (e.id if isinstance(e, ast.Name) else None)
            return name == "KeyError"
    return False


def registered_names(cls: ast.ClassDef, abstract: str):
    for d in cls.decorator_list:
        if isinstance(d, ast.Call) and isinstance(d.func, ast.Attribute) and d.func.attr == "register_subclass":
            owner = d.func.value
            owner_name = owner.attr if isinstance(owner, ast.Attribute) else (owner.id if isinstance(owner, ast.Name) else None)
            if owner_name == abstract:
                names = [a.value for a in d.args if isinstance(a, ast.Constant) and isinstance(a.value, str)]
                if len(names) != len(d.args) or d.keywords:
                    raise Unsupported(f"{cls.name}: register_subclass arguments")
                return names
    return None


def extract_kind(kind, pkg, absfile, absname):
    amod = parse(f"{pkg}/{absfile}")
    acls = find_class(amod, absname)
    method_key, uni = new_info(acls)
    aconsts, aschema = class_consts(acls)
    aactions = base_actions(acls, aconsts)
    base = (aactions, aschema) if aactions is not None else None
    classes = []
    files = sorted(f for f in os.listdir(os.path.join(REPO, pkg)) if f.endswith(".py") and f != "__init__.py")
    used = [f"{pkg}/{absfile}"]
    for f in files:
        mod = parse(f"{pkg}/{f}")
        for node in mod.body:
            if not isinstance(node, ast.ClassDef):
                continue
            names = registered_names(node, absname)
            if names is None:
                continue
            consts, _ = class_consts(node, aconsts)
            actions, entries = check_conf_of(node, consts, base)
            classes.append(
                {
                    "className": node.name,
                    "file": f"{pkg}/{f}",
                    "names": names,
                    "actions": actions,
                    "schema": entries,
                    "consts": {k: v for k, v in consts.items() if k.isupper() or k.lstrip("_").isupper()},
                }
            )
            if f"{pkg}/{f}" not in used:
                used.append(f"{pkg}/{f}")
    return {"kind": kind, "methodKey": method_key, "unicodeBranch": uni, "classes": classes, "abstract": absname}, used


def module_dict(mod: ast.Module, name: str) -> ast.Dict:
    for node in mod.body:
        target = value = None
        if isinstance(node, ast.Assign) and len(node.targets) == 1 and isinstance(node.targets[0], ast.Name):
            target, value = node.targets[0].id, node.value
        elif isinstance(node, ast.AnnAssign) and isinstance(node.target, ast.Name):
            target, value = node.target.id, node.value
        if target == name:
            if not isinstance(value, ast.Dict):
                raise Unsupported(f"{name} is not a dict literal")
            return value
    raise Unsupported(f"{name} not found in {CHECK_CONFIGURATION}")


def lit_dict(node: ast.Dict):
    """a dict literal of literals -> ordered [[k, value]…] with nested dicts as {"o": …}"""
    out = []
    for k, v in zip(node.keys, node.values):
        if not (isinstance(k, ast.Constant) and isinstance(k.value, str)):
            raise Unsupported("default dictionary key")
        out.append([k.value, {"o": lit_dict(v)} if isinstance(v, ast.Dict) else const_value(v)])
    return out


def side_entries(node: ast.Dict, side: str):
    for k, v in zip(node.keys, node.values):
        if isinstance(k, ast.Constant) and k.value == side:
            if not isinstance(v, ast.Dict):
                raise Unsupported(f"input schema side {side}")
            return dict_entries(v)
    raise Unsupported(f"input schema has no {side}")


def extract_input():
    mod = parse(CHECK_CONFIGURATION)
    out = {}
    for field, name in [
        ("base", "input_configuration_schema"),
        ("integer", "input_configuration_schema_integer_disparity"),
        ("gridNone", "input_configuration_schema_left_disparity_grids_right_none"),
        ("gridGrid", "input_configuration_schema_left_disparity_grids_right_grids"),
    ]:
        d = module_dict(mod, name)
        out[field + "Left"] = side_entries(d, "left")
        out[field + "Right"] = side_entries(d, "right")
    out["defaults"] = lit_dict(module_dict(mod, "default_short_configuration_input"))
    check_input_section_shape(mod)
    return out


def check_input_section_shape(mod):
    """the schema selection of check_input_section is the one the model hard-codes"""
    fn = find_function(mod, "check_input_section")
    sel = [s for s in fn.body if isinstance(s, ast.If)]
    if not sel:
        raise Unsupported("check_input_section: no schema selection")
    s = sel[0]
    want = [
        ("isinstance(cfg['input']['left']['disp'], list)", "input_configuration_schema_integer_disparity"),
        ("isinstance(cfg['input']['right']['disp'], str)", "input_configuration_schema_left_disparity_grids_right_grids"),
    ]
    cur = s
    for test, target in want:
        if not (ast.unparse(cur.test) == test and len(cur.body) == 1 and ast.unparse(cur.body[0]).endswith("= " + target)):
            raise Unsupported(f"check_input_section: selection branch {ast.unparse(cur.test)[:60]}")
        if len(cur.orelse) != 1:
            raise Unsupported("check_input_section: selection shape")
        cur = cur.orelse[0]
    if not ast.unparse(cur).endswith("= input_configuration_schema_left_disparity_grids_right_none"):
        raise Unsupported("check_input_section: default selection")
    text = ast.unparse(fn)
    for needle in [
        "cfg = update_conf(default_short_configuration_input, user_cfg)",
        "input_configuration_schema['left'].update(base_input_configuration_schema['left'])",
        "input_configuration_schema['right'].update(base_input_configuration_schema['right'])",
        "configuration_schema = {'input': input_configuration_schema}",
        "check_disparities_from_input(cfg['input']['left']['disp'], cfg['input']['left']['img'])",
        "check_disparities_from_input(cfg['input']['right']['disp'], cfg['input']['right']['img'])",
        "check_images(cfg['input'])",
    ]:
        if needle not in text:
            raise Unsupported(f"check_input_section: missing `{needle}`")


STATE_MACHINE = "pandora/state_machine.py"


def extract_machine_flags():
    """two facts about state_machine.py the model is parametrised by (Model/Config.lean `MachineFlags`)"""
    mod = parse(STATE_MACHINE)
    cls = find_class(mod, "PandoraMachine")
    # check_band_pipeline: if not band_used: … elif isinstance(band_used, dict): … else: [wrap a str] for band in band_used: …
    fn = find_method(cls, "check_band_pipeline")
    body = [s for s in fn.body if not (isinstance(s, ast.Expr) and isinstance(s.value, ast.Constant))]
    if not (len(body) == 1 and isinstance(body[0], ast.If) and ast.unparse(body[0].test) == "not band_used"):
        raise Unsupported("check_band_pipeline: unexpected shape")
    second = body[0].orelse
    if not (len(second) == 1 and isinstance(second[0], ast.If) and ast.unparse(second[0].test) == "isinstance(band_used, dict)"):
        raise Unsupported("check_band_pipeline: unexpected second branch")
    last = second[0].orelse
    loop = "for band in band_used:\n    if band not in band_list:\n        raise AttributeError("
    texts = [ast.unparse(s) for s in last]
    wrap = "if isinstance(band_used, str):\n    band_used = [band_used]"
    if len(texts) == 1 and texts[0].startswith(loop):
        band_whole = False
    elif len(texts) == 2 and texts[0] == wrap and texts[1].startswith(loop):
        band_whole = True
    else:
        raise Unsupported("check_band_pipeline: unexpected final branch")
    # check_conf: is self.pipeline_cfg emptied before the loop over the steps?
    fn = find_method(cls, "check_conf")
    reset = False
    for stmt in fn.body:
        if isinstance(stmt, ast.For):
            break
        for node in ast.walk(stmt):
            if isinstance(node, ast.Assign) and len(node.targets) == 1 and ast.unparse(node.targets[0]) == "self.pipeline_cfg":
                if ast.unparse(node.value) != "{'pipeline': {}}":
                    raise Unsupported("check_conf: unexpected assignment to self.pipeline_cfg")
                reset = True
    # the callbacks store each step's completed configuration under its name
    text = ast.unparse(cls)
    for cb in ("matching_cost", "disparity", "filter", "refinement", "aggregation", "validation", "multiscale", "cost_volume_confidence"):
        if f"def {cb}_check_conf(" not in text:
            raise Unsupported(f"{cb}_check_conf not found")
    if text.count("self.pipeline_cfg['pipeline'][input_step] = ") != 10:
        raise Unsupported("the check callbacks do not all store their step configuration in pipeline_cfg")
    return {"bandWhole": band_whole, "resetPipelineCfg": reset, "strictMerge": extract_update_conf()}


UPDATE_CONF_BODY = """config = copy.deepcopy(def_cfg)
for key, value in user_cfg.items():
    if isinstance(value, Mapping):%s
        config[key] = update_conf(config.get(key, {}), value)
    else:
        if value == 'NaN':
            value = np.nan
        elif value == 'inf':
            value = np.inf
        elif value == '-inf':
            value = -np.inf
        config[key] = value
return config"""
STRICT_GUARD = "\n        if not isinstance(config.get(key, {}), Mapping):\n            raise TypeError("


def extract_update_conf():
    """update_conf has the shape the model mirrors; does it refuse a dictionary given where the default is
    not one (`if not isinstance(config.get(key, {}), Mapping): raise TypeError(...)`)?"""
    fn = find_function(parse(CHECK_CONFIGURATION), "update_conf")
    body = [s for s in fn.body if not (isinstance(s, ast.Expr) and isinstance(s.value, ast.Constant))]
    text = "\n".join(ast.unparse(s) for s in body)
    if text == UPDATE_CONF_BODY % "":
        return False
    head, _, tail = (UPDATE_CONF_BODY % "@").partition("@")
    if text.startswith(head + STRICT_GUARD) and text.endswith(tail):
        middle = text[len(head) + len(STRICT_GUARD): len(text) - len(tail)]
        if "\n" not in middle and middle.endswith(")"):
            return True
    raise Unsupported("update_conf: unexpected body")


def extract():
    kinds = []
    sources = [CHECK_CONFIGURATION, STATE_MACHINE]
    for kind, pkg, absfile, absname in KINDS:
        k, used = extract_kind(kind, pkg, absfile, absname)
        kinds.append(k)
        sources.extend(used)
    return {"kinds": kinds, "input": extract_input(), "flags": extract_machine_flags(), "sources": sources}


# --------------------------------------------------------------------------------------------
# rendering
# --------------------------------------------------------------------------------------------
def lean_value(v) -> str:
    if v is None:
        return "JVal.null"
    if isinstance(v, bool):
        return f"JVal.bool {'true' if v else 'false'}"
    if isinstance(v, int):
        return f"JVal.int ({v})"
    if isinstance(v, str):
        return f"JVal.str {lean_str(v)}"
    if isinstance(v, list):
        return "JVal.list [" + ", ".join(lean_value(x) for x in v) + "]"
    if isinstance(v, dict) and "f" in v:
        f = v["f"]
        if f == "nan":
            return "JVal.float FVal.nan"
        if f == "inf":
            return "JVal.float FVal.pinf"
        if f == "-inf":
            return "JVal.float FVal.ninf"
        fr = Fraction(f)
        if fr.denominator == 1:
            return f"JVal.float (FVal.num ({fr.numerator}))"
        return f"JVal.float (FVal.num (mkRat ({fr.numerator}) {fr.denominator}))"
    if isinstance(v, dict) and "o" in v:
        return "JVal.obj [" + ", ".join(f"({lean_str(k)}, {lean_value(x)})" for k, x in v["o"]) + "]"
    raise Unsupported(f"value {v!r}")


def lean_expr(e) -> str:
    tag = e[0]
    if tag == "var":
        return "Expr.var"
    if tag == "lit":
        return f"Expr.lit ({lean_value(e[1])})"
    if tag == "cmp":
        return f"Expr.cmp CmpOp.{e[1]} ({lean_expr(e[2])}) ({lean_expr(e[3])})"
    if tag in ("and", "or", "bitand"):
        return f"Expr.{tag} ({lean_expr(e[1])}) ({lean_expr(e[2])})"
    if tag == "not":
        return f"Expr.not ({lean_expr(e[1])})"
    if tag == "mod":
        return f"Expr.mod ({lean_expr(e[1])}) ({e[2]})"
    if tag == "in":
        return f"Expr.isIn ({lean_expr(e[1])}) [" + ", ".join(lean_value(x) for x in e[2]) + "]"
    if tag == "isnone":
        return f"Expr.isNone ({lean_expr(e[1])})"
    if tag == "isnan":
        return f"Expr.npIsnan ({lean_expr(e[1])})"
    if tag == "isscalar":
        return f"Expr.npIsscalar ({lean_expr(e[1])})"
    if tag == "len":
        return f"Expr.len ({lean_expr(e[1])})"
    raise Unsupported(f"expr {e!r}")


def lean_schema(s) -> str:
    tag = s[0]
    if tag == "type":
        return f"Schema.type PyType.{s[1]}"
    if tag == "func":
        return f"Schema.func ({lean_expr(s[1])})"
    if tag == "oracle":
        return f"Schema.oracle {lean_str(s[1])}"
    if tag in ("all", "any"):
        return f"Schema.{tag} [" + ", ".join(lean_schema(x) for x in s[1]) + "]"
    if tag == "list":
        return "Schema.listOf [" + ", ".join(lean_schema(x) for x in s[1]) + "]"
    if tag == "dict":
        return "Schema.dict " + lean_entries(s[1])
    raise Unsupported(f"schema {s!r}")


def lean_entries(entries, indent="    ") -> str:
    rows = [f"({lean_str(k)}, {'true' if opt else 'false'}, {lean_schema(s)})" for k, opt, s in entries]
    return "[\n" + ",\n".join(indent + r for r in rows) + "]"


def lean_action(a) -> str:
    if a[0] == "default":
        return f"Action.default {lean_str(a[1])} ({lean_value(a[2])})"
    if a[0] == "default_nan":
        return f"Action.defaultElifNaN {lean_str(a[1])} ({lean_value(a[2])})"
    if a[0] == "guard_ne":
        return f"Action.guardNe {lean_str(a[1])} ({lean_value(a[2])}) Err.{a[3]}"
    if a[0] == "refuse_grids":
        return "Action.refuseGrids"
    raise Unsupported(f"action {a!r}")


def render(data) -> str:
    out = [
        "-- GENERATED by translator/t4_schemas.py from the step modules of pandora/ and pandora/check_configuration.py.",
        "-- Do not edit: rewritten by every run of the checks.",
        "import PandoraModel.Model.Config",
        "",
        "namespace Pandora.Generated.Schemas",
        "open Pandora Pandora.Config",
        "",
    ]
    for k in data["kinds"]:
        for c in k["classes"]:
            out.append(f"/-- `{c['file']}`: class `{c['className']}` -/")
            out.append(f"def {c['className']} : ClassDesc := {{")
            out.append(f"  className := {lean_str(c['className'])}")
            out.append("  names := [" + ", ".join(lean_str(n) for n in c["names"]) + "]")
            out.append("  actions := [\n" + ",\n".join("    " + lean_action(a) for a in c["actions"]) + "]")
            out.append("  schema := " + lean_entries(c["schema"]) + " }")
            out.append("")
        out.append(f"def kind_{k['kind']} : KindDesc := {{")
        out.append(f"  kind := {lean_str(k['kind'])}")
        out.append(f"  methodKey := {lean_str(k['methodKey'])}")
        out.append(f"  unicodeBranch := {'true' if k['unicodeBranch'] else 'false'}")
        out.append("  classes := [" + ", ".join(c["className"] for c in k["classes"]) + "] }")
        out.append("")
    out.append("def registry : List KindDesc := [" + ", ".join(f"kind_{k['kind']}" for k in data["kinds"]) + "]")
    out.append("")
    fl = data["flags"]
    out.append("/-- read from `pandora/state_machine.py` (`check_band_pipeline`, `check_conf`) -/")
    out.append("def machineFlags : MachineFlags := { bandWhole := %s, resetPipelineCfg := %s, strictMerge := %s }"
               % tuple("true" if fl[k] else "false" for k in ("bandWhole", "resetPipelineCfg", "strictMerge")))
    out.append("")
    inp = data["input"]
    out.append("def inputSchemas : InputSchemas := {")
    for f in ("baseLeft", "baseRight", "integerLeft", "integerRight", "gridNoneLeft", "gridNoneRight", "gridGridLeft", "gridGridRight"):
        out.append(f"  {f} := " + lean_entries(inp[f]))
    out.append("  defaults := [" + ", ".join(f"({lean_str(k)}, {lean_value(v)})" for k, v in inp["defaults"]) + "] }")
    out.append("")
    out.append("end Pandora.Generated.Schemas")
    return "\n".join(out) + "\n"
