"""C16: what pandora/img_tools.py says today -> Generated/ImgTools.lean

Extracted with `ast` only (pandora is not imported):
  * get_window: the four comparisons of the "roi outside" test (strict or not); every other statement
    of the function must be, textually after `ast.unparse`, the one the Lean model `getWindow` mirrors;
  * add_mask: the comparison applied to the input mask (`>` or `!=`), the invalid value expression;
  * create_dataset_from_inputs: the attributes `valid_pixels`, `no_data_mask`;
  * add_no_data: the replacement value of NaN / inf nodata samples.
Anything else raises `Unsupported` (the obligation cannot be regenerated).
"""
from __future__ import annotations

import ast

from .common import Unsupported, digest, find_function, parse, write_if_changed

NAME = "ImgTools"
SRC = "pandora/img_tools.py"

# the statements of get_window the model mirrors literally (docstring and outside test excluded)
GET_WINDOW_BODY = [
    "col_off = max(roi['col']['first'] - roi['margins'][0], 0)",
    "row_off = max(roi['row']['first'] - roi['margins'][1], 0)",
    "roi_width = roi['col']['last'] - col_off + roi['margins'][2] + 1",
    "roi_height = roi['row']['last'] - row_off + roi['margins'][3] + 1",
    "<outside test>",
    "if col_off + roi_width > width:\n    roi_width = width - col_off",
    "if row_off + roi_height > height:\n    roi_height = height - row_off",
    "return Window(col_off, row_off, roi_width, roi_height)",
]


def _body(fn: ast.FunctionDef):
    body = list(fn.body)
    if body and isinstance(body[0], ast.Expr) and isinstance(body[0].value, ast.Constant) and isinstance(body[0].value.value, str):
        body = body[1:]
    return body


def _int_const(node: ast.expr, what: str) -> int:
    if isinstance(node, ast.Constant) and isinstance(node.value, int) and not isinstance(node.value, bool):
        return node.value
    if isinstance(node, ast.UnaryOp) and isinstance(node.op, ast.USub):
        return -_int_const(node.operand, what)
    raise Unsupported(f"{what}: expected an integer literal, got {ast.unparse(node)}")


def extract_window(mod: ast.Module) -> dict:
    fn = find_function(mod, "get_window")
    body = _body(fn)
    if len(body) != len(GET_WINDOW_BODY):
        raise Unsupported(f"get_window: {len(body)} statements, the model mirrors {len(GET_WINDOW_BODY)}")
    out = {}
    for stmt, expected in zip(body, GET_WINDOW_BODY):
        if expected != "<outside test>":
            got = ast.unparse(stmt)
            if got != expected:
                raise Unsupported(f"get_window: statement not recognised: {got!r} (model mirrors {expected!r})")
            continue
        if not (isinstance(stmt, ast.If) and not stmt.orelse and len(stmt.body) == 1 and isinstance(stmt.body[0], ast.Raise)):
            raise Unsupported("get_window: outside test is not `if …: raise …`")
        if "ValueError" not in ast.unparse(stmt.body[0]):
            raise Unsupported("get_window: outside test does not raise ValueError")
        test = stmt.test
        if not (isinstance(test, ast.BoolOp) and isinstance(test.op, ast.Or) and len(test.values) == 4):
            raise Unsupported(f"get_window: outside test is not a 4-way `or`: {ast.unparse(test)}")
        shapes = [
            ("colOffStrict", "col_off", "width", {ast.Gt: True, ast.GtE: False}),
            ("rowOffStrict", "row_off", "height", {ast.Gt: True, ast.GtE: False}),
            ("colEndStrict", "col_off + roi_width", "0", {ast.Lt: True, ast.LtE: False}),
            ("rowEndStrict", "row_off + roi_height", "0", {ast.Lt: True, ast.LtE: False}),
        ]
        for cmp_, (key, left, right, ops) in zip(test.values, shapes):
            if not (isinstance(cmp_, ast.Compare) and len(cmp_.ops) == 1 and len(cmp_.comparators) == 1):
                raise Unsupported(f"get_window: unsupported comparison {ast.unparse(cmp_)}")
            if ast.unparse(cmp_.left) != left or ast.unparse(cmp_.comparators[0]) != right:
                raise Unsupported(f"get_window: unsupported operands in {ast.unparse(cmp_)}")
            op = type(cmp_.ops[0])
            if op not in ops:
                raise Unsupported(f"get_window: unsupported operator in {ast.unparse(cmp_)}")
            out[key] = ops[op]
    return out


def extract_mask(mod: ast.Module) -> dict:
    fn = find_function(mod, "add_mask")
    found = []
    for node in ast.walk(fn):
        if isinstance(node, ast.Compare) and isinstance(node.left, ast.Name) and node.left.id == "input_mask":
            found.append(node)
    if len(found) != 1:
        raise Unsupported(f"add_mask: expected one comparison on input_mask, found {len(found)}")
    cmp_ = found[0]
    if len(cmp_.ops) != 1 or _int_const(cmp_.comparators[0], "add_mask") != 0:
        raise Unsupported(f"add_mask: unsupported comparison {ast.unparse(cmp_)}")
    ops = {ast.Gt: "gt", ast.NotEq: "ne"}
    if type(cmp_.ops[0]) not in ops:
        raise Unsupported(f"add_mask: unsupported operator in {ast.unparse(cmp_)}")
    # the statements the model mirrors: the guard, the invalid value, the nodata overwrite
    src = ast.unparse(fn)
    needed = [
        "if mask is None and no_data_pixels[0].size == 0:\n        return dataset",
        "np.full((height, width), dataset.attrs['valid_pixels']).astype(np.int16)",
        "dataset['msk'].data[np.where(%s)] = dataset.attrs['valid_pixels'] + dataset.attrs['no_data_mask'] + 1"
        % ast.unparse(cmp_),
        "dataset['msk'].data[no_data_pixels[-2], no_data_pixels[-1]] = int(dataset.attrs['no_data_mask'])",
        "input_mask = rasterio_open(mask).read(1, window=window)",
    ]
    for piece in needed:
        if piece not in src:
            raise Unsupported(f"add_mask: statement not recognised (model mirrors {piece!r})")
    return {"maskCmp": ops[type(cmp_.ops[0])]}


def extract_attrs(mod: ast.Module) -> dict:
    fn = find_function(mod, "create_dataset_from_inputs")
    out = {}
    for node in ast.walk(fn):
        if isinstance(node, ast.Assign) and len(node.targets) == 1 and isinstance(node.targets[0], ast.Name) \
                and node.targets[0].id == "attributes" and isinstance(node.value, ast.Dict):
            for k, v in zip(node.value.keys, node.value.values):
                if isinstance(k, ast.Constant) and k.value in ("valid_pixels", "no_data_mask"):
                    out[{"valid_pixels": "validPixels", "no_data_mask": "noDataMask"}[k.value]] = _int_const(v, k.value)
    if set(out) != {"validPixels", "noDataMask"}:
        raise Unsupported("create_dataset_from_inputs: attributes valid_pixels / no_data_mask not found")
    src = ast.unparse(fn)
    needed = [
        "window = get_window(roi, nx_, ny_) if roi else None",
        "col_off, row_off = (window.col_off, window.row_off) if roi else (0, 0)",
        "coords = {'row': np.arange(row_off, ny_ + row_off), 'col': np.arange(col_off, nx_ + col_off)}",
        "'row': np.arange(row_off, ny_ + row_off), 'col': np.arange(col_off, nx_ + col_off)}",
        "if np.isnan(no_data):\n        no_data_pixels = np.where(np.isnan(dataset['im'].data))\n    elif np.isinf(no_data):\n"
        "        no_data_pixels = np.where(np.isinf(dataset['im'].data))\n    else:\n"
        "        no_data_pixels = np.where(dataset['im'].data == no_data)",
        "if img_ds.count == 1:",
    ]
    for piece in needed:
        if piece not in src:
            raise Unsupported(f"create_dataset_from_inputs: statement not recognised (model mirrors {piece!r})")
    return out


def extract_nodata(mod: ast.Module) -> dict:
    fn = find_function(mod, "add_no_data")
    vals = set()
    for node in ast.walk(fn):
        if isinstance(node, ast.Assign) and len(node.targets) == 1:
            t = ast.unparse(node.targets[0])
            if t in ("dataset['im'].data[no_data_pixels]", "no_data"):
                vals.add(_int_const(node.value, "add_no_data"))
    if len(vals) != 1:
        raise Unsupported(f"add_no_data: expected one replacement value, found {sorted(vals)}")
    src = ast.unparse(fn)
    if "if no_data_pixels[0].size != 0 and (np.isnan(no_data) or np.isinf(no_data)):" not in src:
        raise Unsupported("add_no_data: guard not recognised")
    return {"replacement": vals.pop()}


def window_params(mod: ast.Module) -> dict:
    """the four comparison flags of get_window: read off the pinned text; when the text of the function is not the
    pinned one any more but translator/pyexpr.py still translates it (gen_kernels_glue.py), read off the translated
    function at the four image edges — `C16Kernels.getWindow_eq_source` then proves, for all inputs, that the function
    is `Dataset.getWindow` with these flags (a wrong choice, or a function outside that family, is a failing proof)"""
    try:
        return extract_window(mod)
    except Unsupported as textual:
        from . import gen_kernels_glue

        try:
            return gen_kernels_glue.window_flags()
        except Unsupported as exc:
            raise Unsupported(f"{textual}; and not translated either: {exc}") from exc


def mask_params(mod: ast.Module) -> dict:
    """the comparison applied to the input mask: read off the pinned text; when the text of add_mask is not the pinned one any
    more but translator/gen_kernels_dataset.py still translates it, read off the translated tree (the one comparison of the RAW
    mask raster with 0) — `C16KernelsDataset.addMask_generated` then proves, for all inputs, that the function is the model's"""
    try:
        return extract_mask(mod)
    except Unsupported as textual:
        from . import gen_kernels_dataset

        try:
            return gen_kernels_dataset.mask_cmp()
        except Unsupported as exc:
            raise Unsupported(f"{textual}; and not translated either: {exc}") from exc


def nodata_params(mod: ast.Module) -> dict:
    """the replacement value of add_no_data: the pinned text, else the translated function (`addNoData_generated`)"""
    try:
        return extract_nodata(mod)
    except Unsupported as textual:
        from . import gen_kernels_dataset

        try:
            t = gen_kernels_dataset.read_add_no_data()
        except Unsupported as exc:
            raise Unsupported(f"{textual}; and not translated either: {exc}") from exc
        if t["store"] != t["attr"]:
            raise Unsupported(f"{textual}; translated, but the sample value {t['store']} and the attribute {t['attr']} differ") from textual
        return {"replacement": t["store"]}


def extract() -> dict:
    mod = parse(SRC)
    out = {}
    out.update(window_params(mod))
    out.update(mask_params(mod))
    out.update(extract_attrs(mod))
    out.update(nodata_params(mod))
    return out


def _b(x: bool) -> str:
    return "true" if x else "false"


def _i(x: int) -> str:
    return f"({x})" if x < 0 else str(x)


def render(p: dict) -> str:
    return "\n".join(
        [
            "-- GENERATED by translator/gen_imgtools.py from pandora/img_tools.py. Do not edit.",
            "import PandoraModel.Model.Dataset",
            "",
            "namespace Pandora.Generated",
            "",
            "/-- comparison operators and constants of get_window / add_mask / add_no_data in the source -/",
            "def imgToolsParams : Pandora.Dataset.Params :=",
            f"  {{ colOffStrict := {_b(p['colOffStrict'])}, rowOffStrict := {_b(p['rowOffStrict'])},",
            f"    colEndStrict := {_b(p['colEndStrict'])}, rowEndStrict := {_b(p['rowEndStrict'])},",
            f"    maskCmp := .{p['maskCmp']}, validPixels := {_i(p['validPixels'])}, noDataMask := {_i(p['noDataMask'])},",
            f"    replacement := {_i(p['replacement'])} }}",
            "",
            "end Pandora.Generated",
            "",
        ]
    )


def generate():
    p = extract()
    write_if_changed("ImgTools.lean", render(p))
    return {"T-C16": {"source": SRC, "digest": digest(SRC), "params": p}}
