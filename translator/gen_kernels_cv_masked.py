"""T12 (cv_masked): the per-cell DECISIONS "this cost becomes NaN" of `AbstractMatchingCost.cv_masked` and
`masks_dilatation` (pandora/matching_cost/matching_cost.py) -> Generated/KernelsCvMasked.lean, with the machinery of
translator/gen_kernels_criteria.py (elementwise numpy predicates read per cell on pyexpr's typed tree, printed by
`pyexpr.render_lean`, evaluated exactly by `pyexpr.evaluate`).  `Properties/C02KernelsMasked.lean` proves them equal to
the pieces of the model (`MC.intervalMask`, `MC.cvMaskedStep`, `MC.maskRaster`).

Values are read through their NaN-ness only (a mask cell is 0 or NaN, `x + NaN = NaN`, `x + 0 = x`): a Boolean "is NaN".

    cv_masked, second loop   np.logical_or(disp[dsp] < disp_min, disp[dsp] > disp_max)   -> gridOutside d lo hi : Bool
                             `data[masking[0], masking[1], dsp] = np.nan`                 -> intervalNanCell d lo hi costNan
    cv_masked, first loop    `i_mask_right = min(1, i_right)`                             -> iMaskRight i_right : Int
                             `if p_mask.size > 0: cv[:, p_cv, dsp] += mask_left.data[:, p_mask]`
                             `    if q_mask.size > 0: cv[:, p_cv, dsp] += mask_right[i_mask_right].data[:, q_mask]`
                                 -> cvMaskedNanCell c p0 p1 q0 q1 costNan leftNan rightNan : Bool × Int
                                    (NaN after the step at column c of plane dsp; the right column that is read)
    masks_dilatation         the `"msk" in img_*` branch of each image:
                             zeros, `[np.where(P)] = np.nan`, `dil = binary_dilation(X, ones((w, w)), iterations=1)`,
                             `[dil] = np.nan`            -> leftMaskNan / rightMaskNan m vL ndL vR ndR dil : Bool
                                                            leftDilInput / rightDilInput m vL ndL vR ndR : Bool

What the names stand for (declared here, exercised against the real functions by harness/props/c02_masked_check.py):
`disp[dsp]` the disparity sample of the plane (a rational), `disp_min` / `disp_max` the cell of the two grids (rationals: no
NaN bound is modelled); `p_mask = np.arange(p_0, point_p[1], step)`, `q_mask`, `p_cv` with **step_col = 1** (the model's
scope): column `c` of the plane is in `p_cv` iff `p0 <= c < p1`, it receives `mask_left[:, c]` and
`mask_right[i_mask_right][:, q0 + (c - p0)]`; `X.size` of such an arange is `max(hi - lo, 0)`; `m` the mask code of the
cell, `vL ndL vR ndR` = `img_left/right.attrs["valid_pixels" / "no_data_mask"]` (all four are parameters of both sides, so
that reading the wrong image's convention is a failing proof, not a refusal); `dil` the cell of scipy's `binary_dilation`.
Every other statement of the two functions is pinned as text (listed below) or the function is refused.
"""
from __future__ import annotations

import ast

from . import pyexpr
from .common import Unsupported, digest, find_class, find_method, parse, read_source, write_if_changed
from .gen_kernels_criteria import Pointwise, lit, np_call, strip_doc, text
from .gen_kernels_glue import module_bindings
from .pyexpr import BOOL, INT, RAT, Ex, Kernel, Ret

NAME = "KernelsCvMasked"
SRC = "pandora/matching_cost/matching_cost.py"
CMP = {ast.Lt: "lt", ast.LtE: "le", ast.Gt: "gt", ast.GtE: "ge", ast.Eq: "eq", ast.NotEq: "ne"}
FALSE = Ex("const", BOOL, (), False)


class PW(Pointwise):
    """the criteria layer + rationals in comparisons, `np.logical_or/and/not`, `min` / `max`, `np.nan` as a value"""

    def bad(self, node, why):
        return Unsupported(f"{SRC}: {self.what}: `{pyexpr.src(node)}`: {why}")

    def expr(self, node, env) -> Ex:
        e = self.expr_(node, env)
        if e.ty not in (INT, BOOL, RAT):
            raise self.bad(node, f"a {e.ty}")
        return e

    def expr_(self, node, env) -> Ex:
        if not isinstance(node, ast.Constant) and pyexpr.src(node) in self.t.atoms:
            return self.t.var(self.t.atoms[pyexpr.src(node)])
        for name, op in (("logical_or", "or"), ("logical_and", "and")):
            a = np_call(node, name, 2)
            if a is not None:
                x, y = self.expr(a[0], env), self.expr(a[1], env)
                if x.ty != BOOL or y.ty != BOOL:
                    raise self.bad(node, "np.logical_* on something that is not boolean")
                return self.t.mk_bool(op, x, y)
        a = np_call(node, "logical_not", 1)
        if a is not None:
            x = self.expr(a[0], env)
            if x.ty != BOOL:
                raise self.bad(node, "np.logical_not on something that is not boolean")
            return self.t.mk_not(x)
        if isinstance(node, ast.Compare) and len(node.ops) == 1 and type(node.ops[0]) in CMP:
            x, y = self.expr(node.left, env), self.expr(node.comparators[0], env)
            if x.ty in (INT, RAT) and y.ty in (INT, RAT):
                x, y, _ = self.t.num_pair(x, y, pyexpr.src(node))
                return self.t.mk_cmp(CMP[type(node.ops[0])], x, y)
            raise self.bad(node, f"comparison of {x.ty} and {y.ty}")
        if isinstance(node, ast.Call) and isinstance(node.func, ast.Name) and node.func.id in ("min", "max") \
                and len(node.args) == 2 and not node.keywords:
            x, y = self.expr(node.args[0], env), self.expr(node.args[1], env)
            if x.ty != INT or y.ty != INT:
                raise self.bad(node, "min / max of something that is not an int")
            return Ex(node.func.id, INT, (x, y))
        return super().expr_(node, env)


def is_np_nan(node) -> bool:
    return text(node) in ("np.nan", "np.NaN")


def or_(pw, a, b):
    return pw.t.mk_bool("or", a, b)


def and_(pw, a, b):
    return pw.t.mk_bool("and", a, b)


def load(method):
    mod = parse(SRC)
    b = module_bindings(mod)
    if b.get("np") != ("import", "numpy"):
        raise Unsupported(f"{SRC}: `np` is not numpy ({b.get('np')})")
    if b.get("binary_dilation") != ("from", "scipy.ndimage", "binary_dilation"):
        raise Unsupported(f"{SRC}: `binary_dilation` is not scipy.ndimage's ({b.get('binary_dilation')})")
    for n in ("min", "max", "int", "range"):
        if n in b:
            raise Unsupported(f"{SRC}: the builtin `{n}` is rebound at module level")
    fn = find_method(find_class(mod, "AbstractMatchingCost"), method)
    return fn, read_source(SRC)


def kernel(pw, name, e_or_list, types, source, origin) -> Kernel:
    vals = e_or_list if isinstance(e_or_list, list) else [e_or_list]
    k = pw.kernel(name, Ret(vals), types, source)
    k.origin = origin
    return k


# ------------------------------------------------------------------------------------------------
# cv_masked
# ------------------------------------------------------------------------------------------------
HEAD_PINS = [
    "ny_, nx_, nd_ = cost_volume['cost_volume'].shape",
    "dmin, _ = self.get_min_max_from_grid(disp_min, disp_max)",
    "img_right_shift = shift_right_img(img_right, self._subpix, self._band)",
    "mask_left, mask_right = self.masks_dilatation(img_left, img_right, self._window_size, self._subpix)",
]
LOOP1_PINS = [
    "i_right = int(disp % 1 * self._subpix)",
    "point_p, point_q = self.point_interval(img_left, img_right_shift[i_right], disp)",
    "p_0 = self.find_nearest_multiple_of_step(point_p[0])",
    "q_0 = self.find_nearest_multiple_of_step(point_q[0])",
    "p_mask = np.arange(p_0, point_p[1], self._step_col)",
    "q_mask = np.arange(q_0, point_q[1], self._step_col)",
    "p_cv = (p_mask / self._step_col).astype(int)",
    "dsp = int((disp - dmin) * self._subpix)",  # regenerated by gen_kernels_glue (dspIndex)
]
CROP_PINS = [
    "if disp_min.shape[0] > ny_: disp_min = disp_min[0:ny_, :] disp_max = disp_max[0:ny_, :]",
    "if disp_min.shape[1] > nx_: disp_min = disp_min[:, 0:nx_] disp_max = disp_max[:, 0:nx_]",
]
TAIL_PINS = [
    "mask_invalid_variable_disparity_range(cost_volume)",
    "offset = cost_volume.attrs['offset_row_col']",
    "if offset > 0: mask_border(cost_volume)",
]
CV_PLANE = "cost_volume['cost_volume'].data[:, p_cv, dsp]"
SOURCES = {"mask_left.data[:, p_mask]": "leftNan", "mask_right[i_mask_right].data[:, q_mask]": "rightNan"}


def take(stmts, pins, what):
    rest, seen = [], []
    for st in stmts:
        (seen if text(st) in pins else rest).append(st if text(st) not in pins else text(st))
    for p in pins:
        if seen.count(p) != 1:
            raise Unsupported(f"{SRC}: {what}: expected exactly one `{p}`, found {seen.count(p)}")
    return rest


def cv_masked_kernels():
    fn, source = load("cv_masked")
    if [a.arg for a in fn.args.args] != ["self", "img_left", "img_right", "cost_volume", "disp_min", "disp_max"]:
        raise Unsupported(f"{SRC}: cv_masked: parameters {[a.arg for a in fn.args.args]}")
    ss = take(strip_doc(fn.body), HEAD_PINS + CROP_PINS + TAIL_PINS, "cv_masked")
    if len(ss) != 2 or not all(isinstance(s, ast.For) and not s.orelse for s in ss):
        raise Unsupported(f"{SRC}: cv_masked: expected the loop over the disparities and the loop over the planes, found "
                          f"{[text(s)[:50] for s in ss]}")
    loop1, loop2 = ss
    order = [text(s) for s in strip_doc(fn.body) if text(s) in CROP_PINS or s is loop2]
    if order[-1] in CROP_PINS:
        raise Unsupported(f"{SRC}: cv_masked: the grids are cropped after the loop over the planes")
    if text(loop1.target) != "disp" or text(loop1.iter) != "cost_volume.coords['disp'].data":
        raise Unsupported(f"{SRC}: cv_masked: the first loop is not `for disp in cost_volume.coords['disp'].data`")
    if text(loop2.target) != "dsp" or text(loop2.iter) != "range(nd_)":
        raise Unsupported(f"{SRC}: cv_masked: the second loop is not `for dsp in range(nd_)`")
    out = {}
    # ---- first loop
    body = take([s for s in loop1.body], LOOP1_PINS, "cv_masked, first loop")
    atoms = [("c", "c", INT, True), ("p_0", "p0", INT, False), ("point_p[1]", "p1", INT, False), ("q_0", "q0", INT, False),
             ("point_q[1]", "q1", INT, False), ("costNan", "costNan", BOOL, True), ("leftNan", "leftNan", BOOL, True),
             ("rightNan", "rightNan", BOOL, True)]
    pw = PW("cv_masked", atoms, {}, source)
    var = lambda n: pw.t.var(pw.t.atoms[n])  # noqa: E731
    sizes = {"p_mask.size": Ex("max", INT, (Ex("sub", INT, (var("point_p[1]"), var("p_0"))), lit(0))),
             "q_mask.size": Ex("max", INT, (Ex("sub", INT, (var("point_q[1]"), var("q_0"))), lit(0)))}
    in_p = and_(pw, pw.t.mk_cmp("le", var("p_0"), var("c")), pw.t.mk_cmp("lt", var("c"), var("point_p[1]")))
    gather = {"leftNan": var("c"), "rightNan": Ex("add", INT, (var("q_0"), Ex("sub", INT, (var("c"), var("p_0")))))}
    gathered = []
    imask = []

    def guard(test):
        if isinstance(test, ast.Compare) and len(test.ops) == 1 and type(test.ops[0]) in CMP:
            sides = []
            for x in (test.left, test.comparators[0]):
                e = sizes[text(x)] if text(x) in sizes else pw.expr(x, {})
                if e.ty != INT or pw.is_array(e):
                    raise pw.bad(test, "a size compared with something that is not a scalar int")
                sides.append(e)
            if text(test.left) in sizes or text(test.comparators[0]) in sizes:
                return pw.t.mk_cmp(CMP[type(test.ops[0])], sides[0], sides[1])
        raise pw.bad(test, "the guards of the first loop are tests of `p_mask.size` / `q_mask.size`")

    def walk(stmts, cond, nan):
        for st in stmts:
            if isinstance(st, ast.If):
                g = guard(st.test)
                nan = walk(st.body, and_(pw, cond, g), nan)
                nan = walk(st.orelse, and_(pw, cond, pw.t.mk_not(g)), nan)
            elif isinstance(st, ast.AugAssign) and isinstance(st.op, ast.Add) and text(st.target) == CV_PLANE \
                    and text(st.value) in SOURCES:
                srcn = SOURCES[text(st.value)]
                gathered.append(srcn)
                nan = or_(pw, nan, and_(pw, cond, and_(pw, in_p, var(srcn))))
            elif isinstance(st, ast.Assign) and len(st.targets) == 1 and text(st.targets[0]) == "i_mask_right":
                pi = PW("cv_masked", [("i_right", "i_right", INT, False)], {}, source)
                imask.append(kernel(pi, "iMaskRight", pi.expr(st.value, {}), [INT], text(st),
                                    f"{SRC}: cv_masked, which right mask is read (0: the dilated mask, 1: the half-pixel one): `{text(st)}`"))
            else:
                raise pw.bad(st, "statement of the first loop outside the subset")
        return nan

    nan = walk(body, Ex("const", BOOL, (), True), var("costNan"))
    if sorted(set(gathered)) != ["leftNan", "rightNan"] or len(gathered) != 2 or len(imask) != 1:
        raise Unsupported(f"{SRC}: cv_masked: expected one `+=` of the left mask, one of the right mask and `i_mask_right = …`")
    out["iMaskRight"] = imask[0]
    out["cvMaskedNanCell"] = kernel(pw, "cvMaskedNanCell", [nan, gather["rightNan"]], [BOOL, INT], ast.unparse(loop1),
                                    f"{SRC}: cv_masked, first loop, read for the cell at column c of the plane `dsp` (step_col = 1): "
                                    "is the cost NaN after the iteration; the column of the right mask that is added")
    # ---- second loop
    atoms2 = [("cost_volume.coords['disp'].data[dsp]", "d", RAT, False), ("disp_min", "lo", RAT, True), ("disp_max", "hi", RAT, True),
              ("costNan", "costNan", BOOL, True)]
    p2 = PW("cv_masked", atoms2, {}, source)
    if len(loop2.body) != 2:
        raise Unsupported(f"{SRC}: cv_masked: the loop over the planes does not hold two statements")
    s1, s2 = loop2.body
    a = np_call(s1.value, "where", 1) if isinstance(s1, ast.Assign) and len(s1.targets) == 1 and text(s1.targets[0]) == "masking" else None
    if a is None:
        raise Unsupported(f"{SRC}: cv_masked: `{text(s1)[:60]}` is not `masking = np.where(P)`")
    outside = p2.expr(a[0], {})
    if outside.ty != BOOL:
        raise p2.bad(a[0], "not a boolean")
    if not (isinstance(s2, ast.Assign) and len(s2.targets) == 1
            and text(s2.targets[0]) == "cost_volume['cost_volume'].data[masking[0], masking[1], dsp]" and is_np_nan(s2.value)):
        raise Unsupported(f"{SRC}: cv_masked: `{text(s2)[:90]}` is not `cost_volume['cost_volume'].data[masking[0], masking[1], dsp] = np.nan`")
    p2a = PW("cv_masked", atoms2[:3], {}, source)
    out["gridOutside"] = kernel(p2a, "gridOutside", p2a.expr(a[0], {}), [BOOL], text(s1),
                                f"{SRC}: cv_masked, second loop: the cells of plane `dsp` outside their own interval")
    out["intervalNanCell"] = kernel(p2, "intervalNanCell", or_(p2, p2.t.var(p2.t.atoms["costNan"]), outside), [BOOL], ast.unparse(loop2),
                                    f"{SRC}: cv_masked, second loop, read for one cell: is the cost NaN after it")
    return out


# ------------------------------------------------------------------------------------------------
# masks_dilatation
# ------------------------------------------------------------------------------------------------
def mask_atoms(side):
    return [(f"img_{side}['msk'].data", "m", INT, True), ("img_left.attrs['valid_pixels']", "vL", INT, False),
            ("img_left.attrs['no_data_mask']", "ndL", INT, False), ("img_right.attrs['valid_pixels']", "vR", INT, False),
            ("img_right.attrs['no_data_mask']", "ndR", INT, False), ("dil", "dil", BOOL, True)]


MD_TAIL = """ny_, nx_ = (img_left.sizes['row'], img_left.sizes['col'])
row = np.arange(0, ny_)
col = np.arange(0, nx_)
dilatate_right_mask_shift = xr.DataArray()
if subp != 1: str_row, str_col = dilatate_right_mask.strides shape_windows = (dilatate_right_mask.shape[0], dilatate_right_mask.shape[1] - 1, 2) strides_windows = (str_row, str_col, str_col) aggregation_window = np.lib.stride_tricks.as_strided(dilatate_right_mask, shape_windows, strides_windows) dilatate_right_mask_shift = np.sum(aggregation_window, 2) col_shift = np.arange(0 + 0.5, nx_ - 1, step=1) dilatate_right_mask_shift = xr.DataArray(dilatate_right_mask_shift, coords=[row, col_shift], dims=['row', 'col'])
dilatate_left_mask_xr = xr.DataArray(dilatate_left_mask, coords=[row, col], dims=['row', 'col'])
dilatate_right_mask_xr = xr.DataArray(dilatate_right_mask, coords=[row, col], dims=['row', 'col'])
return (dilatate_left_mask_xr, [dilatate_right_mask_xr, dilatate_right_mask_shift])""".split("\n")


def masks_dilatation_kernels():
    fn, source = load("masks_dilatation")
    if [a.arg for a in fn.args.args] != ["img_left", "img_right", "window_size", "subp"]:
        raise Unsupported(f"{SRC}: masks_dilatation: parameters {[a.arg for a in fn.args.args]}")
    ss = strip_doc(fn.body)
    if len(ss) != 2 + len(MD_TAIL) or [text(s) for s in ss[2:]] != MD_TAIL:
        got = [text(s) for s in ss[2:]]
        bad = next((g for g, w in zip(got, MD_TAIL) if g != w), "a different number of statements")
        raise Unsupported(f"{SRC}: masks_dilatation: the part after the two masks is not the pinned one: `{bad[:120]}`")
    out = {}
    for side, st in zip(("left", "right"), ss[:2]):
        arr = f"dilatate_{side}_mask"
        if not (isinstance(st, ast.If) and text(st.test) == f"'msk' in img_{side}.data_vars"):
            raise Unsupported(f"{SRC}: masks_dilatation: `{text(st)[:60]}` is not `if 'msk' in img_{side}.data_vars:`")
        if [text(s) for s in st.orelse] != [f"{arr} = np.zeros((img_left.sizes['row'], img_left.sizes['col']))"]:
            raise Unsupported(f"{SRC}: masks_dilatation: without a {side} mask the array is not zeros of the left image's size")
        pw = PW("masks_dilatation", mask_atoms(side), {}, source)
        nan, dil_in, started = FALSE, None, False
        for s in st.body:
            t = text(s)
            if t == f"{arr} = np.zeros(img_{side}['msk'].shape)" and not started:
                started = True
            elif started and isinstance(s, ast.Assign) and len(s.targets) == 1 and isinstance(s.targets[0], ast.Subscript) \
                    and text(s.targets[0].value) == arr and is_np_nan(s.value):
                idx = s.targets[0].slice
                a = np_call(idx, "where", 1)
                e = pw.expr(a[0] if a is not None else idx, {})
                if e.ty != BOOL:
                    raise pw.bad(s, "the cells set to NaN are not given by a boolean array")
                if text(idx) == "dil" and dil_in is None:
                    raise pw.bad(s, "`dil` is used before it is computed")
                nan = or_(pw, nan, e)
            elif started and isinstance(s, ast.Assign) and len(s.targets) == 1 and text(s.targets[0]) == "dil" and dil_in is None \
                    and isinstance(s.value, ast.Call) and text(s.value.func) == "binary_dilation" and len(s.value.args) == 1 \
                    and [(k.arg, text(k.value)) for k in s.value.keywords] == [("structure", "np.ones((window_size, window_size))"),
                                                                              ("iterations", "1")]:
                pd = PW("masks_dilatation", mask_atoms(side)[:5], {}, source)
                dil_in = pd.expr(s.value.args[0], {})
                if dil_in.ty != BOOL:
                    raise pd.bad(s, "binary_dilation of something that is not a boolean array")
                out[f"{side}DilInput"] = kernel(pd, f"{side}DilInput", dil_in, [BOOL], t,
                                                f"{SRC}: masks_dilatation, the cells of the {side} mask handed to "
                                                "binary_dilation(…, structure=np.ones((window_size, window_size)), iterations=1)")
            else:
                raise pw.bad(s, f"statement of the {side} mask outside the subset")
        if dil_in is None:
            raise Unsupported(f"{SRC}: masks_dilatation: the {side} mask is not dilated")
        out[f"{side}MaskNan"] = kernel(pw, f"{side}MaskNan", nan, [BOOL], ast.unparse(st),
                                       f"{SRC}: masks_dilatation, is the cell of the {side} mask NaN (mask present)")
    return out


GROUPS = [(("iMaskRight", "cvMaskedNanCell", "gridOutside", "intervalNanCell"), cv_masked_kernels),
          (("leftDilInput", "leftMaskNan", "rightDilInput", "rightMaskNan"), masks_dilatation_kernels)]


def kernels():
    out, errors = {}, {}
    for names, build in GROUPS:
        try:
            out.update(build())
        except Unsupported as exc:
            for n in names:
                errors[n] = str(exc)
    return out, errors


GOLDEN = {
    "iMaskRight": [(0,), (1,), (3,)],
    # c p0 p1 q0 q1 costNan leftNan rightNan
    "cvMaskedNanCell": [(2, 0, 5, 1, 6, False, False, True), (2, 0, 5, 1, 6, False, True, False), (5, 0, 5, 1, 6, False, True, True),
                        (2, 3, 3, 0, 4, False, True, True), (2, 0, 5, 4, 4, False, False, True), (2, 0, 5, 1, 6, True, False, False),
                        (0, 0, 0, 0, 0, False, True, True)],
    "gridOutside": [(0, -1, 1), (2, -1, 1), (-1, -1, 1), ("3/2", 1, 1), ("-1/4", 0, 2), (1, 1, 1)],
    "intervalNanCell": [(0, -1, 1, False), (2, -1, 1, False), (0, -1, 1, True)],
    "leftDilInput": [(1, 0, 1, 5, 7), (0, 0, 1, 5, 7), (7, 0, 1, 5, 7)],
    "leftMaskNan": [(2, 0, 1, 5, 7, False), (0, 0, 1, 5, 7, False), (1, 0, 1, 5, 7, False), (0, 0, 1, 5, 7, True), (5, 0, 1, 5, 7, False)],
    "rightDilInput": [(7, 0, 1, 5, 7), (1, 0, 1, 5, 7), (5, 0, 1, 5, 7)],
    "rightMaskNan": [(2, 0, 1, 5, 7, False), (5, 0, 1, 5, 7, False), (7, 0, 1, 5, 7, False), (5, 0, 1, 5, 7, True), (0, 0, 1, 5, 7, False)],
}


def golden_examples(k) -> list:
    from fractions import Fraction

    from .gen_kernels import lean_value

    out = []
    for args in GOLDEN.get(k.lean_name, []):
        args = tuple(Fraction(a) if isinstance(a, str) else a for a in args)
        res, vals = pyexpr.evaluate(k, *args)
        actual = " ".join(f"({lean_value(v, ty)})" for v, (_, ty) in zip(args, k.lean_params))
        val = ", ".join(lean_value(v, ty) for v, ty in zip(vals, k.ret_types))
        out.append(f"example : {k.lean_name} {actual} = {'(' + val + ')' if len(vals) > 1 else val} := by decide +kernel")
    return out


def render(ks, errors) -> str:
    lines = ["-- GENERATED by translator/gen_kernels_cv_masked.py (translator/pyexpr.py) from pandora/matching_cost/matching_cost.py. Do not edit.",
             "import PandoraModel.Model.PyExpr", "set_option linter.unusedVariables false",
             "namespace Pandora.Generated.KernelsCvMasked", "open Pandora", ""]
    for name, k in ks.items():
        lines += [f"/- {k.origin}", k.source.replace("-/", "- /").replace("/-", "/ -")[:3000], "-/",
                  pyexpr.render_lean(k, always_partial=False)]
        lines += golden_examples(k) + [""]
    for name, msg in errors.items():
        lines.append(f"-- NOT TRANSLATED: {name}: " + msg.replace("\n", " ").replace("-/", "- /"))
    lines.append("end Pandora.Generated.KernelsCvMasked")
    return "\n".join(lines) + "\n"


def generate(*required):
    ks, errors = kernels()
    write_if_changed("KernelsCvMasked.lean", render(ks, errors))
    bad = {n: m for n, m in errors.items() if not required or n in required}
    if bad:
        raise Unsupported("; ".join(sorted(set(bad.values()))))
    return {"T12-cv_masked": {"source": [SRC], "digest": digest(SRC), "kernels": sorted(ks), "not_translated": sorted(errors)}}


# whole-function edits that must be refused (self-test, run by harness/props/c02_masked_check.py)
REFUSED_EDITS = [
    ("cv", "p_mask = np.arange(p_0, point_p[1], self._step_col)", "p_mask = np.arange(p_0, point_p[1] + 1, self._step_col)"),
    ("cv", "for dsp in range(nd_):", "for dsp in range(nd_ - 1):"),
    ("cv", "] = np.nan\n\n        # The disp_min", "] = 0\n\n        # The disp_min"),
    ("cv", "+= mask_left.data[:, p_mask]", "+= mask_left.data[:, q_mask]"),
    ("cv", "i_right = int((disp % 1) * self._subpix)", "i_right = int(disp * self._subpix)"),
    ("md", "structure=np.ones((window_size, window_size)),\n                iterations=1,\n            )\n            dilatate_left_mask[dil]",
     "structure=np.ones((window_size, 1)),\n                iterations=1,\n            )\n            dilatate_left_mask[dil]"),
    ("md", "dilatate_right_mask = np.zeros(img_right[\"msk\"].shape)", "dilatate_right_mask = np.ones(img_right[\"msk\"].shape)"),
    ("md", "if subp != 1:", "if subp > 2:"),
]


def refused_edit_problems() -> list:
    import translator.common as common

    text0 = read_source(SRC)
    problems = []
    orig_parse, orig_read = globals()["parse"], globals()["read_source"]
    try:
        for which, old, new in REFUSED_EDITS:
            if text0.count(old) != 1:
                continue
            edited = text0.replace(old, new)
            globals()["parse"] = lambda rel, _e=edited: ast.parse(_e)
            globals()["read_source"] = lambda rel, _e=edited: _e
            try:
                (cv_masked_kernels if which == "cv" else masks_dilatation_kernels)()
                problems.append(f"edit of matching_cost.py not refused: `{old.strip()[:60]}` -> `{new.strip()[:60]}`")
            except Unsupported:
                pass
    finally:
        globals()["parse"], globals()["read_source"] = orig_parse, orig_read
    del common
    return problems
