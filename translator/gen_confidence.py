"""T3c: what the source text says about confidence band naming -> Generated/Confidence.lean

Extracted with `ast` only:
  * the method names registered with `register_subclass("...")` in pandora/cost_volume_confidence/*.py;
  * for each method, the band stems in the order `confidence_prediction` allocates them: every
    `self.allocate_confidence_map(self.<attr>, ...)` call is resolved through the `__init__` assignment
    `self.<attr> = self._method... + "lit" + str(self.cfg["indicator"])` and the class constants;
  * the common prefix added by `allocate_confidence_map` (`"confidence_from_" + name`);
  * the indicator rule of `PandoraMachine.cost_volume_confidence_run`:
        cfg[...]["indicator"] = <default>
        if len(input_step.split(<sep>[, maxsplit])) == <n>:
            cfg[...]["indicator"] = <lead> + input_step.split(<sep>[, maxsplit])[<k>]
  * the eta / threshold class defaults (recorded in the digest; C05 owns the defaults).
Anything else raises Unsupported.
"""
from __future__ import annotations

import ast

from .common import (Unsupported, class_assign, const_str, digest, find_class, find_function, find_method, lean_list,
                     lean_str, parse, write_if_changed)

NAME = "Confidence"
DIR = "pandora/cost_volume_confidence/"
FILES = {
    "ambiguity": (DIR + "ambiguity.py", "Ambiguity"),
    "risk": (DIR + "risk.py", "Risk"),
    "interval_bounds": (DIR + "interval_bounds.py", "IntervalBounds"),
    "std_intensity": (DIR + "std_intensity.py", "StdIntensity"),
}
BASE = DIR + "cost_volume_confidence.py"
MACHINE = "pandora/state_machine.py"


def registered_name(cls: ast.ClassDef) -> str:
    for dec in cls.decorator_list:
        if isinstance(dec, ast.Call) and isinstance(dec.func, ast.Attribute) and dec.func.attr == "register_subclass":
            if len(dec.args) == 1:
                return const_str(dec.args[0], f"{cls.name} register_subclass")
    raise Unsupported(f"{cls.name}: no register_subclass decorator")


def is_indicator(node: ast.expr) -> bool:
    """`self.cfg["indicator"]` or `str(self.cfg["indicator"])`"""
    if isinstance(node, ast.Call) and isinstance(node.func, ast.Name) and node.func.id == "str" and len(node.args) == 1:
        node = node.args[0]
    return (
        isinstance(node, ast.Subscript)
        and isinstance(node.value, ast.Attribute)
        and node.value.attr == "cfg"
        and isinstance(node.slice, ast.Constant)
        and node.slice.value == "indicator"
    )


def flatten_add(node: ast.expr):
    if isinstance(node, ast.BinOp) and isinstance(node.op, ast.Add):
        return flatten_add(node.left) + flatten_add(node.right)
    return [node]


def stem_of(cls: ast.ClassDef, init: ast.FunctionDef, attr: str) -> str:
    """resolve `self.<attr> = part + part + ... + indicator` to the literal stem"""
    for node in ast.walk(init):
        if isinstance(node, ast.Assign) and len(node.targets) == 1:
            t = node.targets[0]
            if isinstance(t, ast.Attribute) and isinstance(t.value, ast.Name) and t.value.id == "self" and t.attr == attr:
                parts = flatten_add(node.value)
                if not parts or not is_indicator(parts[-1]):
                    raise Unsupported(f"{cls.name}.{attr}: the indicator suffix is not the last part")
                out = ""
                for p in parts[:-1]:
                    if isinstance(p, ast.Constant) and isinstance(p.value, str):
                        out += p.value
                    elif isinstance(p, ast.Attribute) and isinstance(p.value, ast.Name) and p.value.id == "self":
                        out += const_str(class_assign(cls, p.attr), f"{cls.name}.{p.attr}")
                    else:
                        raise Unsupported(f"{cls.name}.{attr}: unsupported part {ast.dump(p)[:80]}")
                return out
    raise Unsupported(f"{cls.name}.__init__: no assignment to self.{attr}")


def allocated_attrs(cls: ast.ClassDef):
    pred = find_method(cls, "confidence_prediction")
    calls = []
    for node in ast.walk(pred):
        if isinstance(node, ast.Call) and isinstance(node.func, ast.Attribute) and node.func.attr == "allocate_confidence_map":
            if not node.args:
                raise Unsupported(f"{cls.name}: allocate_confidence_map without positional name")
            a = node.args[0]
            if not (isinstance(a, ast.Attribute) and isinstance(a.value, ast.Name) and a.value.id == "self"):
                raise Unsupported(f"{cls.name}: allocate_confidence_map name is not a self attribute")
            calls.append((node.lineno, node.col_offset, a.attr))
    if not calls:
        raise Unsupported(f"{cls.name}: confidence_prediction allocates no band")
    return [c[2] for c in sorted(calls)]


def prefix() -> str:
    fn = find_method(find_class(parse(BASE), "AbstractCostVolumeConfidence"), "allocate_confidence_map")
    for node in fn.body:
        if isinstance(node, ast.Assign) and len(node.targets) == 1 and isinstance(node.targets[0], ast.Name):
            if node.targets[0].id == "name_confidence_measure":
                v = node.value
                if (isinstance(v, ast.BinOp) and isinstance(v.op, ast.Add) and isinstance(v.right, ast.Name)
                        and v.right.id == "name_confidence_measure"):
                    return const_str(v.left, "allocate_confidence_map prefix")
    raise Unsupported("allocate_confidence_map: prefix assignment not recognised")


def split_call(node: ast.expr):
    """`input_step.split(sep[, maxsplit])` -> (sep, maxsplit or None)"""
    if (isinstance(node, ast.Call) and isinstance(node.func, ast.Attribute) and node.func.attr == "split"
            and isinstance(node.func.value, ast.Name) and node.func.value.id == "input_step" and 1 <= len(node.args) <= 2
            and all(kw.arg == "maxsplit" for kw in node.keywords) and len(node.args) + len(node.keywords) <= 2):
        sep = const_str(node.args[0], "split separator")
        ms = None
        extra = list(node.args[1:]) + [kw.value for kw in node.keywords]   # `split(sep, 1)` or `split(sep, maxsplit=1)`
        if extra:
            if isinstance(extra[0], ast.UnaryOp) and isinstance(extra[0].op, ast.USub) and isinstance(extra[0].operand, ast.Constant) \
                    and isinstance(extra[0].operand.value, int) and not isinstance(extra[0].operand.value, bool):
                return sep, None                                                 # a negative maxsplit: no limit
            if not (isinstance(extra[0], ast.Constant) and isinstance(extra[0].value, int) and not isinstance(extra[0].value, bool)):
                raise Unsupported("split maxsplit is not an integer literal")
            ms = extra[0].value
        return sep, ms
    raise Unsupported(f"indicator rule: expected input_step.split(...), got {ast.dump(node)[:80]}")


def is_indicator_target(t: ast.expr) -> bool:
    return isinstance(t, ast.Subscript) and isinstance(t.slice, ast.Constant) and t.slice.value == "indicator"


def indicator_rule():
    fn = find_method(find_class(parse(MACHINE), "PandoraMachine"), "cost_volume_confidence_run")
    default = None
    rule = None
    for node in fn.body:
        if isinstance(node, ast.Assign) and len(node.targets) == 1 and is_indicator_target(node.targets[0]):
            default = const_str(node.value, "indicator default")
        elif isinstance(node, ast.If) and any(is_indicator_target(t) for a in ast.walk(node) if isinstance(a, ast.Assign) for t in a.targets):
            t = node.test
            if isinstance(t, ast.Compare) and len(t.ops) == 1 and isinstance(t.ops[0], ast.Eq) and isinstance(t.left, ast.Constant):
                t = ast.Compare(left=t.comparators[0], ops=t.ops, comparators=[t.left])   # `n == len(..)` reads as `len(..) == n`
            if not (isinstance(t, ast.Compare) and len(t.ops) == 1 and isinstance(t.ops[0], ast.Eq)
                    and isinstance(t.left, ast.Call) and isinstance(t.left.func, ast.Name) and t.left.func.id == "len"
                    and isinstance(t.comparators[0], ast.Constant) and isinstance(t.comparators[0].value, int)):
                raise Unsupported("indicator rule: test is not `len(input_step.split(..)) == n`")
            sep, ms = split_call(t.left.args[0])
            n = t.comparators[0].value
            if node.orelse or len(node.body) != 1:
                raise Unsupported("indicator rule: unexpected if body")
            a = node.body[0]
            if not (isinstance(a, ast.Assign) and len(a.targets) == 1 and is_indicator_target(a.targets[0])):
                raise Unsupported("indicator rule: body is not an assignment to the indicator")
            v = a.value
            if not (isinstance(v, ast.BinOp) and isinstance(v.op, ast.Add) and isinstance(v.right, ast.Subscript)):
                raise Unsupported("indicator rule: value is not `lead + input_step.split(..)[k]`")
            lead = const_str(v.left, "indicator lead")
            sep2, ms2 = split_call(v.right.value)
            if not (isinstance(v.right.slice, ast.Constant) and isinstance(v.right.slice.value, int)):
                raise Unsupported("indicator rule: index is not an integer literal")
            if (sep2, ms2) != (sep, ms):
                raise Unsupported("indicator rule: two different split calls")
            rule = {"sep": sep, "maxsplit": ms, "len": n, "lead": lead, "index": v.right.slice.value}
    if default is None or rule is None:
        raise Unsupported("cost_volume_confidence_run: indicator rule not found")
    rule["default"] = default
    return rule


# step names on which CPython's own `str.split` evaluates the extracted rule; Lean's reading of the rule
# (`Properties/C12Names.lean: evalRule`) is checked against this table when the file is built
GOLDEN_STEPS = ["cost_volume_confidence", "cost_volume_confidence.amb", "cost_volume_confidence.a.b", "cost_volume_confidence.a.b.c",
                "cost_volume_confidence.", "cost_volume_confidence..", ".x", "", ".", "a..b", "..", "a.b."]


def eval_rule(r, step: str):
    """the extracted rule run by CPython (`None`: the subscript raises IndexError)"""
    parts = step.split(r["sep"]) if r["maxsplit"] is None else step.split(r["sep"], r["maxsplit"])
    if len(parts) == r["len"]:
        return r["lead"] + parts[r["index"]] if -len(parts) <= r["index"] < len(parts) else None
    return r["default"]


def defaults():
    out = {}
    for meth, (path, cname) in FILES.items():
        cls = find_class(parse(path), cname)
        for node in cls.body:
            if isinstance(node, ast.Assign) and len(node.targets) == 1 and isinstance(node.targets[0], ast.Name):
                k = node.targets[0].id
                if k.startswith("_") and k.upper() == k and isinstance(node.value, ast.Constant):
                    out[f"{meth}.{k}"] = node.value.value
    return out


def extract():
    stems, registered = {}, []
    for meth, (path, cname) in FILES.items():
        cls = find_class(parse(path), cname)
        reg = registered_name(cls)
        registered.append(reg)
        if reg != meth:
            raise Unsupported(f"{cname} is registered as {reg!r}, expected {meth!r}")
        init = find_method(cls, "__init__")
        stems[meth] = [stem_of(cls, init, a) for a in allocated_attrs(cls)]
    return {"stems": stems, "registered": registered, "prefix": prefix(), "rule": indicator_rule(), "defaults": defaults()}


def chars(s: str) -> str:
    return f"{lean_str(s)}.toList"


def render(x) -> str:
    r = x["rule"]
    ms = "none" if r["maxsplit"] is None else f"(some {r['maxsplit']})"
    lines = [
        "-- GENERATED by translator/gen_confidence.py from pandora/cost_volume_confidence/*.py and pandora/state_machine.py.",
        "-- Do not edit.",
        "namespace Pandora.Generated.Confidence",
        "",
        "/-- registered confidence methods, with the band stems in allocation order -/",
        "def stems : List (List Char × List (List Char)) := [",
        ",\n".join(f"  ({chars(m)}, {lean_list([chars(s) for s in ss])})" for m, ss in x["stems"].items()),
        "]",
        "",
        f"def bandPrefix : List Char := {chars(x['prefix'])}",
        "",
        "/-- `cost_volume_confidence_run`: `indicator = dflt; if len(step.split(sep, maxsplit)) == len: indicator = lead + parts[index]` -/",
        "structure IndicatorRule where",
        "  sep : List Char",
        "  maxsplit : Option Nat",
        "  len : Nat",
        "  lead : List Char",
        "  index : Nat",
        "  dflt : List Char",
        "  deriving DecidableEq, Repr",
        "",
        f"def indicatorRule : IndicatorRule := ⟨{chars(r['sep'])}, {ms}, {r['len']}, {chars(r['lead'])}, {r['index']}, {chars(r['default'])}⟩",
        "",
        "/-- what CPython's `str.split` makes of that rule on a few step names (`none`: IndexError) -/",
        "def indicatorGolden : List (List Char × Option (List Char)) := [",
        ",\n".join(f"  ({chars(st)}, {'none' if eval_rule(r, st) is None else '(some ' + chars(eval_rule(r, st)) + ')'})" for st in GOLDEN_STEPS),
        "]",
        "",
        "end Pandora.Generated.Confidence",
    ]
    return "\n".join(lines) + "\n"


def generate():
    x = extract()
    write_if_changed("Confidence.lean", render(x))
    srcs = [p for p, _ in FILES.values()] + [BASE, MACHINE]
    return {"T3c": {"source": srcs, "digest": digest(*srcs), "stems": x["stems"], "rule": x["rule"], "defaults": x["defaults"]}}
