"""T15 (winner-takes-all): the numpy glue of `WinnerTakesAll.to_disp`, `argmin_split`, `argmax_split`
-> Generated/KernelsWta.lean  (on top of translator/pyarr.py; support Model/PyArr3.lean).

Read statement by statement, strictly (anything else raises Unsupported):

  to_disp        N = np.isnan(CV)                                          CV = cv["cost_volume"].data
                 if cv.attrs["type_measure"] == "max": <branch> else: <branch>
                     branch:  CV[N] = -np.inf | np.inf | np.nan ;  D = self.argmax_split(cv) | self.argmin_split(cv)
                 CV[N] = np.nan | ±np.inf
                 DM = xr.Dataset({"disparity_map": (["row", "col"], D)}, coords=…)     (the data is D itself, not a copy)
                 M = np.min | np.all | np.max | np.any (N, axis=2);   P = np.where(M)
                 DM["disparity_map"].data[P | M] = self._invalid_disparity
                 cv["disp_indices"] = DM["disparity_map"].copy(deep=True)
                 carried fields (recorded, not modelled): DM["disparity_interval"] = f(cv), DM.attrs = cv.attrs,
                     if "confidence_measure" in cv.data_vars: DM["confidence_measure"] = cv["confidence_measure"],
                     DM["validity_mask"] = copy.deepcopy(cv["validity_mask"]);   x = cv.coords[...];  del …;  return DM
  arg*_split     n0, n1, n2 = cost_volume["cost_volume"].shape;  D = np.zeros((n0, n1), dtype=np.float32)
                 the T8 block loop with the ONE write  D[block] = cost_volume.coords["disp"].data[np.argmin|argmax(chunk, axis=2)];
                 return D

The same statement list is evaluated exactly (`evaluate_to_disp`) for the run-time comparison with the real functions.
"""
from __future__ import annotations

import ast
import math
from fractions import Fraction

from . import gen_blocks, pyarr
from .common import Unsupported, digest, find_class, find_method, parse, write_if_changed

NAME = "KernelsWta"
REL = "pandora/disparity/disparity.py"
CLS = "WinnerTakesAll"
CV = 'cv["cost_volume"].data'
PINF, NINF = float("inf"), float("-inf")


def _d(node):
    return gen_blocks._dotted(node)  # pylint: disable=protected-access


def _np(node, name):
    return gen_blocks._is_np(node, name)  # pylint: disable=protected-access


def _bad(where, msg, node=None):
    line = f" (line {node.lineno})" if node is not None and hasattr(node, "lineno") else ""
    raise Unsupported(f"{REL}:{CLS}.{where}: {msg}{line}")


# ---------------------------------------------------------------------------------------------
# argmin_split / argmax_split
# ---------------------------------------------------------------------------------------------
def read_split(meth, t8name):
    fn = find_method(find_class(parse(REL), CLS), meth)
    gen_blocks.extract_one(REL, CLS, meth, None)  # the block structure (raises Unsupported)
    out = {"meth": meth, "t8": t8name, "kernel": None}
    arr_param = fn.args.args[0].arg
    cvdata = f'{arr_param}["cost_volume"].data'
    dims, dst, zeros_ok, ret = None, None, False, None
    for st in fn.body:
        if isinstance(st, ast.Expr) and isinstance(st.value, ast.Constant) and isinstance(st.value.value, str):
            continue
        if isinstance(st, ast.Return):
            ret = st.value.id if isinstance(st.value, ast.Name) else None
            continue
        if isinstance(st, ast.For):
            loop = st
            continue
        if not (isinstance(st, ast.Assign) and len(st.targets) == 1):
            _bad(meth, f"unsupported statement {ast.unparse(st)[:60]}", st)
        tgt, val = st.targets[0], st.value
        if isinstance(tgt, ast.Tuple):
            if not (_d(val) == f'{arr_param}["cost_volume"].shape' and len(tgt.elts) == 3 and all(isinstance(e, ast.Name) for e in tgt.elts)):
                _bad(meth, "unsupported tuple assignment", st)
            dims = [e.id for e in tgt.elts]
        elif isinstance(tgt, ast.Name) and isinstance(val, ast.Call) and _np(val.func, "zeros"):
            sh = val.args[0] if val.args else None
            if not (dims and isinstance(sh, ast.Tuple) and [getattr(e, "id", None) for e in sh.elts] == dims[:2]):
                _bad(meth, "np.zeros of another shape than the first two dimensions of the cost volume", st)
            dst, zeros_ok = tgt.id, True
        elif isinstance(tgt, ast.Name) and isinstance(val, ast.Call) and _np(val.func, "array_split"):
            if _d(val.args[0]) != cvdata:
                _bad(meth, "the outer split does not cut the cost volume", st)
        elif isinstance(tgt, ast.Name) and gen_blocks._int(val):  # pylint: disable=protected-access
            pass
        else:
            _bad(meth, f"unsupported statement {ast.unparse(st)[:60]}", st)
    if not zeros_ok or ret != dst:
        _bad(meth, "the map returned is not the np.zeros map")
    inner = [s for s in loop.body if isinstance(s, ast.For)]
    for s in loop.body:
        if s is inner[0]:
            continue
        ok = (isinstance(s, ast.AugAssign) and isinstance(s.target, ast.Name)) or (
            isinstance(s, ast.Assign) and isinstance(s.targets[0], ast.Name) and (
                gen_blocks._int(s.value) or (isinstance(s.value, ast.Call) and _np(s.value.func, "array_split"))))  # pylint: disable=protected-access
        if not ok:
            _bad(meth, f"unsupported statement in the outer block loop: {ast.unparse(s)[:60]}", s)
    chunk, _ = gen_blocks._loop_var_and_iter(inner[0], gen_blocks.LoopInfo(meth))  # pylint: disable=protected-access
    writes = []
    for s in inner[0].body:
        if isinstance(s, ast.AugAssign) and isinstance(s.target, ast.Name) and s.target.id.endswith("_begin"):
            continue
        if isinstance(s, ast.Assign) and isinstance(s.targets[0], ast.Subscript):
            writes.append(s)
            continue
        _bad(meth, f"unsupported statement in the inner block loop: {ast.unparse(s)[:60]}", s)
    if len(writes) != 1 or _d(writes[0].targets[0].value) != dst:
        _bad(meth, "expected one block write into the np.zeros map")
    v = writes[0].value
    ok = (isinstance(v, ast.Subscript) and _d(v.value) == f'{arr_param}.coords["disp"].data' and isinstance(v.slice, ast.Call)
          and len(v.slice.args) == 1 and chunk.matches(v.slice.args[0])
          and [(k.arg, getattr(k.value, "value", None)) for k in v.slice.keywords] == [("axis", 2)])
    if ok and _np(v.slice.func, "argmin"):
        out["kernel"] = "argmin"
    elif ok and _np(v.slice.func, "argmax"):
        out["kernel"] = "argmax"
    else:
        _bad(meth, f"unsupported block kernel {ast.unparse(v)[:70]}", writes[0])
    return out


# ---------------------------------------------------------------------------------------------
# to_disp
# ---------------------------------------------------------------------------------------------
def _fill3(st, masks3, where):
    """CV[N] = ±np.inf | np.nan"""
    tgt, val = st.targets[0], st.value
    if not (isinstance(tgt, ast.Subscript) and _d(tgt.value) == CV and isinstance(tgt.slice, ast.Name) and tgt.slice.id in masks3):
        return None
    if isinstance(val, ast.UnaryOp) and isinstance(val.op, ast.USub) and _np(val.operand, "inf"):
        return ("fill3", tgt.slice.id, "ninf")
    if _np(val, "inf"):
        return ("fill3", tgt.slice.id, "pinf")
    if _np(val, "nan"):
        return ("fill3", tgt.slice.id, "nan")
    _bad(where, f"unsupported value stored into the cost volume: {ast.unparse(val)[:40]}", st)
    return None


def read_to_disp():
    fn = find_method(find_class(parse(REL), CLS), "to_disp")
    stmts, masks3, masks2, maps, carried = [], set(), {}, set(), {}
    dm, ret = None, None

    def branch(body):
        out = []
        for st in body:
            if not (isinstance(st, ast.Assign) and len(st.targets) == 1):
                _bad("to_disp", f"unsupported statement in a measure branch: {ast.unparse(st)[:60]}", st)
            f3 = _fill3(st, masks3, "to_disp")
            if f3:
                out.append(f3)
                continue
            tgt, val = st.targets[0], st.value
            if (isinstance(tgt, ast.Name) and isinstance(val, ast.Call) and _d(val.func) in ("self.argmax_split", "self.argmin_split")
                    and len(val.args) == 1 and _d(val.args[0]) == "cv" and not val.keywords):
                out.append(("split", tgt.id, "max" if "argmax" in _d(val.func) else "min"))
                continue
            _bad("to_disp", f"unsupported statement in a measure branch: {ast.unparse(st)[:60]}", st)
        return out

    for st in fn.body:
        if ret is not None:
            _bad("to_disp", "statement after return", st)
        if isinstance(st, ast.Expr) and isinstance(st.value, ast.Constant) and isinstance(st.value.value, str):
            continue
        if isinstance(st, ast.Delete):
            if not all(isinstance(t, ast.Name) for t in st.targets):
                _bad("to_disp", "del of something that is not a local", st)
            continue
        if isinstance(st, ast.Return):
            if not (isinstance(st.value, ast.Name) and st.value.id == dm):
                _bad("to_disp", "the returned value is not the dataset built from the split result", st)
            ret = dm
            continue
        if isinstance(st, ast.If):
            t = st.test
            if (isinstance(t, ast.Compare) and len(t.ops) == 1 and isinstance(t.ops[0], ast.In) and isinstance(t.left, ast.Constant)
                    and _d(t.comparators[0]) == "cv.data_vars" and not st.orelse and len(st.body) == 1
                    and isinstance(st.body[0], ast.Assign) and _d(st.body[0].targets[0]) == f'{dm}["{t.left.value}"]'
                    and _d(st.body[0].value) == f'cv["{t.left.value}"]'):
                carried[t.left.value] = "alias"
                continue
            if (isinstance(t, ast.Compare) and len(t.ops) == 1 and isinstance(t.ops[0], (ast.Eq, ast.NotEq))
                    and _d(t.left) == 'cv.attrs["type_measure"]' and isinstance(t.comparators[0], ast.Constant)
                    and t.comparators[0].value in ("max", "min") and st.orelse):
                is_max_then = (t.comparators[0].value == "max") == isinstance(t.ops[0], ast.Eq)
                a, b = branch(st.body), branch(st.orelse)
                then_, else_ = (a, b) if is_max_then else (b, a)
                da = [s[1] for s in then_ if s[0] == "split"]
                db = [s[1] for s in else_ if s[0] == "split"]
                if len(da) != 1 or da != db:
                    _bad("to_disp", "each measure branch must assign the same map from one split call", st)
                maps.add(da[0])
                stmts.append(("if_max", then_, else_, da[0]))
                continue
            _bad("to_disp", f"unsupported if statement: {ast.unparse(t)[:60]}", st)
        if not (isinstance(st, ast.Assign) and len(st.targets) == 1):
            _bad("to_disp", f"unsupported statement {type(st).__name__}: {ast.unparse(st)[:60]}", st)
        tgt, val = st.targets[0], st.value
        f3 = _fill3(st, masks3, "to_disp")
        if f3:
            stmts.append(f3)
            continue
        if isinstance(tgt, ast.Name):
            if isinstance(val, ast.Call) and _np(val.func, "isnan") and len(val.args) == 1 and _d(val.args[0]) == CV:
                masks3.add(tgt.id)
                stmts.append(("mask3", tgt.id))
                continue
            if _d(val) in ('cv.coords["row"]', 'cv.coords["col"]'):
                continue
            if (isinstance(val, ast.Call) and _d(val.func) == "xr.Dataset" and len(val.args) == 1 and isinstance(val.args[0], ast.Dict)
                    and len(val.args[0].keys) == 1 and getattr(val.args[0].keys[0], "value", None) == "disparity_map"
                    and isinstance(val.args[0].values[0], ast.Tuple) and len(val.args[0].values[0].elts) == 2
                    and isinstance(val.args[0].values[0].elts[1], ast.Name) and val.args[0].values[0].elts[1].id in maps
                    and all(k.arg == "coords" for k in val.keywords)):
                dm = tgt.id
                stmts.append(("dataset", val.args[0].values[0].elts[1].id))
                continue
            if (isinstance(val, ast.Call) and any(_np(val.func, f) for f in ("min", "all", "max", "any")) and len(val.args) == 1
                    and isinstance(val.args[0], ast.Name) and val.args[0].id in masks3
                    and [(k.arg, getattr(k.value, "value", None)) for k in val.keywords] == [("axis", 2)]):
                kind = "all" if (_np(val.func, "min") or _np(val.func, "all")) else "any"
                masks2[tgt.id] = True
                stmts.append(("reduce3", tgt.id, kind, val.args[0].id))
                continue
            if isinstance(val, ast.Call) and _np(val.func, "where") and len(val.args) == 1 and isinstance(val.args[0], ast.Name) \
                    and val.args[0].id in masks2:
                masks2[tgt.id] = True
                stmts.append(("mask_alias", tgt.id, val.args[0].id))
                continue
            _bad("to_disp", f"unsupported assignment {ast.unparse(st)[:70]}", st)
        if isinstance(tgt, ast.Subscript) and dm and _d(tgt.value) == f'{dm}["disparity_map"].data':
            if isinstance(tgt.slice, ast.Name) and tgt.slice.id in masks2 and _d(val) == "self._invalid_disparity":
                stmts.append(("fill", tgt.slice.id))
                continue
            _bad("to_disp", f"unsupported store into the disparity map {ast.unparse(st)[:70]}", st)
        text = _d(tgt)
        if dm and text == f'{dm}["disparity_interval"]' and isinstance(val, ast.Call) and isinstance(val.func, ast.Name) \
                and val.func.id == "extract_disparity_interval_from_cost_volume" and len(val.args) == 1 and _d(val.args[0]) == "cv":
            carried["disparity_interval"] = "derived"
            continue
        if dm and text == 'cv["disp_indices"]' and _d(getattr(val, "func", val)) == f'{dm}["disparity_map"].copy' \
                and [(k.arg, getattr(k.value, "value", None)) for k in val.keywords] == [("deep", True)] and not val.args:
            stmts.append(("copy_out",))
            continue
        if dm and text == f"{dm}.attrs" and _d(val) == "cv.attrs":
            carried["attrs"] = "alias"
            continue
        if dm and text == f'{dm}["validity_mask"]':
            if isinstance(val, ast.Call) and _d(val.func) == "copy.deepcopy" and len(val.args) == 1 and _d(val.args[0]) == 'cv["validity_mask"]':
                carried["validity_mask"] = "deepcopy"
                continue
            if (isinstance(val, ast.Call) and _d(val.func) == 'cv["validity_mask"].copy' and not val.args
                    and [(k.arg, getattr(k.value, "value", None)) for k in val.keywords] == [("deep", True)]):
                carried["validity_mask"] = "deepcopy"
                continue
            if _d(val) == 'cv["validity_mask"]':
                carried["validity_mask"] = "alias"
                continue
        _bad("to_disp", f"unsupported statement {ast.unparse(st)[:70]}", st)
    if ret is None or not any(s[0] == "dataset" for s in stmts):
        _bad("to_disp", "no dataset is returned")
    try:
        src = ast.unparse(fn)
    except Exception:  # pylint: disable=broad-except
        src = ""
    return {"stmts": stmts, "carried": carried, "source": src}


# ---------------------------------------------------------------------------------------------
# printing
# ---------------------------------------------------------------------------------------------
FL = {"ninf": "Fl.ninf", "pinf": "Fl.pinf", "nan": "Fl.nan"}


def render_split(sp, name):
    return "\n".join([
        f"def {name} (ny nx nd : Nat) (disps : List Rat) (cv : Nat) (c : Store (List Fl)) (m0 : Store Val) : Store Val × Nat :=",
        "  let p1 := m0.alloc (fun _ _ => Val.num 0)",
        "  let m1 := p1.1",
        "  let disp : Nat := p1.2",
        "  -- the map is an array of ANOTHER store than the cost volume: the block loop cannot alias",
        f"  let m2 := m1.set disp (Blocks.blocked (Generated.Blocks.{sp['t8']}.plan ny nx [ny, nx, nd])",
        f"    (argKernel {'true' if sp['kernel'] == 'argmax' else 'false'} disps (c.arr cv)) (m1.arr disp))",
        "  (m2, disp)",
    ])


def render_to_disp(td, full=False):
    """`full=False`: the cost volume and the map (`toDisp`); `full=True`: the whole returned dataset with the carried fields as
    identities of the band / flag stores (`toDispDataset`)"""
    if full:
        out = ["def toDispDataset (isMax hasConf : Bool) (ny nx nd : Nat) (disps : List Rat) (invalid_disparity : Val)",
               "    (cv conf mask : Nat) (c0 : Store (List Fl)) (m0 : Store Val) (b0 : Store (List Val)) (f0 : Store Nat) : DispDataset :="]
    else:
        out = ["def toDisp (isMax : Bool) (ny nx nd : Nat) (disps : List Rat) (invalid_disparity : Val) (cv : Nat)",
               "    (c0 : Store (List Fl)) (m0 : Store Val) : Store (List Fl) × Store Val × Nat :="]
    kc, km = 0, 0
    dmap = None

    def branch(stmts, kc0):
        lines, kc_ = [], kc0
        for s in stmts:
            if s[0] == "fill3":
                lines.append(f"      let c{kc_ + 1} := c{kc_}.maskFill3 cv {s[1]} {FL[s[2]]}")
                kc_ += 1
            else:
                lines.append(f"      let p := {'argmaxSplit' if s[2] == 'max' else 'argminSplit'} ny nx nd disps cv c{kc_} m0")
        lines.append(f"      (c{kc_}, p.1, p.2)")
        return lines

    for s in td["stmts"]:
        if s[0] == "mask3":
            out.append(f"  let {s[1]} : Mask3 := mask3Of Fl.isNan (c{kc}.arr cv)")
        elif s[0] == "fill3":
            out.append(f"  let c{kc + 1} := c{kc}.maskFill3 cv {s[1]} {FL[s[2]]}")
            kc += 1
        elif s[0] == "if_max":
            out.append(f"  let q : Store (List Fl) × Store Val × Nat :=")
            out.append("    if isMax then")
            out += branch(s[1], kc)
            out.append("    else")
            out += branch(s[2], kc)
            kc += 50  # a fresh range of names after the conditional
            out.append(f"  let c{kc} := q.1")
            out.append("  let m1 := q.2.1")
            out.append(f"  let {s[3]} : Nat := q.2.2")
            km = 1
        elif s[0] == "dataset":
            out.append(f"  let disparity_map : Nat := {s[1]}   -- xr.Dataset({{\"disparity_map\": (dims, {s[1]})}}): the data is {s[1]} itself")
            dmap = "disparity_map"
        elif s[0] == "reduce3":
            out.append(f"  let {s[1]} : Mask := {s[2]}3 {s[3]}")
        elif s[0] == "mask_alias":
            out.append(f"  let {s[1]} : Mask := {s[2]}")
        elif s[0] == "fill":
            out.append(f"  let m{km + 1} := m{km}.maskFill {dmap} {s[1]} invalid_disparity")
            km += 1
        elif s[0] == "copy_out":
            out.append(f"  let pm{km + 1} := m{km}.copy {dmap}   -- cv[\"disp_indices\"]: a fresh array")
            out.append(f"  let m{km + 1} := pm{km + 1}.1")
            out.append(f"  let disp_indices : Nat := pm{km + 1}.2")
            km += 1
    if not full:
        out.append(f"  (c{kc}, m{km}, {dmap})")
        return "\n".join(out)
    car = td["carried"]
    if not any(s_[0] == "copy_out" for s_ in td["stmts"]):
        _bad("to_disp", "cv[\"disp_indices\"] is not assigned a deep copy of the map")
    if car.get("confidence_measure") == "alias":
        out.append("  -- disp_map[\"confidence_measure\"] = cv[\"confidence_measure\"]: the SAME array")
        out.append("  let b1 := b0")
        out.append("  let confidence_measure : Option Nat := if hasConf then some conf else none")
    elif car.get("confidence_measure") == "deepcopy":
        out.append("  let pb := b0.copy conf")
        out.append("  let b1 := if hasConf then pb.1 else b0")
        out.append("  let confidence_measure : Option Nat := if hasConf then some pb.2 else none")
    else:
        _bad("to_disp", "the confidence measure is not handed to the result")
    if car.get("validity_mask") == "deepcopy":
        out.append("  -- disp_map[\"validity_mask\"] = copy.deepcopy(cv[\"validity_mask\"]): a fresh array")
        out.append("  let pf := f0.copy mask")
        out.append("  let f1 := pf.1")
        out.append("  let validity_mask : Nat := pf.2")
    elif car.get("validity_mask") == "alias":
        out.append("  -- disp_map[\"validity_mask\"] = cv[\"validity_mask\"]: the SAME array")
        out.append("  let f1 := f0")
        out.append("  let validity_mask : Nat := mask")
    else:
        _bad("to_disp", "the validity mask is not handed to the result")
    out.append(f"  {{ cvs := c{kc}, maps := m{km}, bands := b1, flags := f1, disparity_map := {dmap}, disp_indices := disp_indices,")
    out.append("    confidence_measure := confidence_measure, validity_mask := validity_mask }")
    return "\n".join(out)


def render(splits, td, golden_lines) -> str:
    lines = [
        "-- GENERATED by translator/gen_kernels_wta.py (translator/pyarr.py) from pandora/disparity/disparity.py. Do not edit.",
        "import PandoraModel.Model.PyArr3",
        "import PandoraModel.Generated.Blocks",
        "set_option linter.unusedVariables false",
        "namespace Pandora.Generated.KernelsWta",
        "open Pandora Pandora.PyArr Pandora.PyLoops",
        "",
    ]
    for name, sp in splits.items():
        lines += [f"/- {REL}:{CLS}.{sp['meth']} -/", render_split(sp, name), ""]
    lines += [f"/- {REL}:{CLS}.to_disp", td["source"].replace("-/", "- /").replace("/-", "/ -"), "-/", render_to_disp(td), ""]
    lines += ["/- the same statements with the dataset fields the result carries: the confidence bands and the validity mask as",
              "   identities of their own stores (shared or fresh, as the source says), `disp_indices` as the identity of the saved map -/",
              render_to_disp(td, full=True), ""]
    lines.append("/-- dataset fields carried to the result without being modelled: how each is handed over -/")
    lines.append("def carried : List (String × String) := [" + ", ".join(f'("{k}", "{v}")' for k, v in sorted(td["carried"].items())) + "]")
    lines.append("")
    lines += golden_lines
    lines += ["", "end Pandora.Generated.KernelsWta"]
    return "\n".join(lines) + "\n"


# ---------------------------------------------------------------------------------------------
# exact evaluation
# ---------------------------------------------------------------------------------------------
def isnan(v):
    return isinstance(v, float) and math.isnan(v)


def np_arg(row, is_max):
    for i, v in enumerate(row):
        if isnan(v):
            return i
    best = 0
    for i, v in enumerate(row):
        if (v > row[best]) if is_max else (v < row[best]):
            best = i
    return best


def eval_split(sp, t8, cv, ny, nx, nd, disps):
    d = t8[sp["t8"]]
    dims = [ny, nx, nd]
    disp = [[Fraction(0)] * nx for _ in range(ny)]
    ych = pyarr.array_split(ny, pyarr.arange(d["startY"], dims[d["stopYDim"]], d["stepY"]))
    xch = pyarr.array_split(nx, pyarr.arange(d["startX"], dims[d["stopXDim"]], d["stepX"]))
    yb = d["beginY"][1]
    for ys, ylen in ych:
        xb = d["beginX"][1]
        for xs, xlen in xch:
            for i in range(ylen):
                for j in range(xlen):
                    disp[yb + i][xb + j] = disps[np_arg(cv[ys + i][xs + j], sp["kernel"] == "argmax")]
            xb += xlen
        yb += ylen
    return disp


def evaluate_to_disp(td, splits, t8, cv, ny, nx, nd, disps, is_max, invalid):
    """cv: nested lists (mutated in place, like the real array). Returns the disparity map and cv["disp_indices"]."""
    env = {}
    fillv = {"ninf": NINF, "pinf": PINF, "nan": pyarr.NAN}
    by_kind = {"max": splits["argmaxSplit"], "min": splits["argminSplit"]}

    def fill3(mask, v):
        for r in range(ny):
            for c in range(nx):
                for k in range(nd):
                    if env[mask][r][c][k]:
                        cv[r][c][k] = fillv[v]

    dmap, disp_indices = None, None
    for s in td["stmts"]:
        if s[0] == "mask3":
            env[s[1]] = [[[isnan(v) for v in row] for row in plane] for plane in cv]
        elif s[0] == "fill3":
            fill3(s[1], s[2])
        elif s[0] == "if_max":
            for b in (s[1] if is_max else s[2]):
                if b[0] == "fill3":
                    fill3(b[1], b[2])
                else:
                    env[b[1]] = eval_split(by_kind[b[2]], t8, cv, ny, nx, nd, disps)
        elif s[0] == "dataset":
            dmap = env[s[1]]
        elif s[0] == "reduce3":
            f = all if s[2] == "all" else any
            env[s[1]] = [[f(env[s[3]][r][c]) for c in range(nx)] for r in range(ny)]
        elif s[0] == "mask_alias":
            env[s[1]] = env[s[2]]
        elif s[0] == "fill":
            for r in range(ny):
                for c in range(nx):
                    if env[s[1]][r][c]:
                        dmap[r][c] = invalid
        elif s[0] == "copy_out":
            disp_indices = [list(row) for row in dmap]
    return dmap, disp_indices


# ---------------------------------------------------------------------------------------------
def functions():
    splits = {"argminSplit": read_split("argmin_split", "wtaArgmin"), "argmaxSplit": read_split("argmax_split", "wtaArgmax")}
    return splits, read_to_disp()


def fl_lean(v):
    if isnan(v):
        return "Fl.nan"
    if v == PINF:
        return "Fl.pinf"
    if v == NINF:
        return "Fl.ninf"
    return f"Fl.fin ({v.numerator} / {v.denominator})" if v.denominator != 1 else f"Fl.fin ({v.numerator})"


GOLDEN_CV = [[[3, None, 1, 1], [None, None, None, None], [2, 2, 5, None]]]
GOLDEN_DISPS = [Fraction(-1), Fraction(-1, 2), Fraction(0), Fraction(1, 2)]


def golden(splits, td):
    t8 = gen_blocks.extract()
    rows = ", ".join("[" + ", ".join("[" + ", ".join(fl_lean(pyarr.NAN if v is None else Fraction(v)) for v in px) + "]" for px in row) + "]"
                     for row in GOLDEN_CV)
    out = ["-- what the translator's own evaluator computes on one small cost volume, checked here by evaluation",
           f"def goldenCv : Arr (List Fl) := fun r c => (([{rows}] : List (List (List Fl))).getD r []).getD c []",
           "def goldenDisps : List Rat := [" + ", ".join(f"({d.numerator} / {d.denominator})" for d in GOLDEN_DISPS) + "]"]
    for is_max in (False, True):
        cv = [[[pyarr.NAN if v is None else Fraction(v) for v in px] for px in row] for row in GOLDEN_CV]
        dmap, _ = evaluate_to_disp(td, splits, t8, cv, 1, 3, 4, GOLDEN_DISPS, is_max, Fraction(-9999))
        call = (f"(toDisp {'true' if is_max else 'false'} 1 3 4 goldenDisps (Val.num (-9999)) 0 (Store.init [goldenCv] goldenCv) "
                "(Store.init [] (fun _ _ => Val.nan)))")
        for c in range(3):
            v = dmap[0][c]
            vl = f"Val.num ({v.numerator} / {v.denominator})"
            out.append(f"example : {call}.2.1.arr {call}.2.2 0 {c} = {vl} := by decide +kernel")
        out.append(f"example : {call}.1.arr 0 0 0 = [{', '.join(fl_lean(v) for v in cv[0][0])}] := by decide +kernel")
    return out


def generate():
    splits, td = functions()
    write_if_changed("KernelsWta.lean", render(splits, td, golden(splits, td)))
    return {"T15wta": {"source": [REL], "digest": digest(REL), "functions": ["argminSplit", "argmaxSplit", "toDisp"],
                       "statements": [s[0] for s in td["stmts"]], "carried": td["carried"]}}
