"""T15 (filters): the numpy glue of the median filter -> Generated/KernelsFilter.lean  (translator/pyarr.py).

`MedianFilter.median_filter` and `MedianFilter.filter_disparity` are read statement by statement (copies, aliases, the
sliding-window view, masks, masked stores, the T8 block loop as one statement, the call) and printed over the store
semantics of `Model/PyArr.lean`.  `Properties/C10Kernels.lean` proves the generated definitions equal to the hand model
`Model/Filter.lean` for every size, mask, filter size and store.
"""
from __future__ import annotations

from . import gen_blocks, pyarr
from .common import digest, write_if_changed

NAME = "KernelsFilter"

MEDIAN_REL = "pandora/filter/median.py"


def specs():
    med = pyarr.Spec(
        MEDIAN_REL, "MedianFilter", "median_filter", "medianFilter",
        arrays={"data": "data"}, nats={"self._filter_size": "filter_size"}, t8=("median", "self._filter_size"),
    )
    return med


BIL_REL = "pandora/filter/bilateral.py"
UFUNS = {"self.gauss_spatial_kernel": ("gaussSpatialKernel", "Nat → Rat → Nat → Nat → Rat"),
         "self.normalized_gaussian": ("normalizedGaussian", "Rat → Rat → Rat")}


def bilateral_functions():
    """bilateral_kernel (per window), filter_bilateral, BilateralFilter.filter_disparity; the two Gaussians are UNINTERPRETED
    functions whose argument wiring is read: `gauss_spatial_kernel(win_width, sigma_space)`, `normalized_gaussian(x, sigma_color)`"""
    wf = pyarr.read_window_function(pyarr.WinFn(
        BIL_REL, "BilateralFilter", "bilateral_kernel", "bilateralKernel",
        params=[("gauss_spatial_kernel", "table"), ("sigma_color", "rat"), ("offset", "nat")],
        ufuns={"self.normalized_gaussian": "normalizedGaussian"}))
    fb = pyarr.read_function(pyarr.Spec(
        BIL_REL, "BilateralFilter", "filter_bilateral", "filterBilateral",
        arrays={"data": "data"}, rats={"sigma_space": "sigma_space", "sigma_color": "sigma_color"}, ufuns=UFUNS,
        winfns={"self.bilateral_kernel": wf}, t8=("bilateral", "win_width"),
    ))
    fd = pyarr.read_function(pyarr.Spec(
        BIL_REL, "BilateralFilter", "filter_disparity", "filterDisparityBilateral",
        arrays={'disp["disparity_map"].data': "disparity_map"}, ints={'disp["validity_mask"].data': "validity_mask"},
        rats={"self._sigma_space": "sigma_space", "self._sigma_color": "sigma_color"}, ufuns=UFUNS,
        calls={"self.filter_bilateral": fb}, in_place="disparity_map",
    ))
    return wf, {"filterBilateral": fb, "filterDisparityBilateral": fd}


def functions():
    """the translated functions, callee first"""
    med = pyarr.read_function(specs())
    fd = pyarr.read_function(pyarr.Spec(
        MEDIAN_REL, "MedianFilter", "filter_disparity", "filterDisparityMedian",
        arrays={'disp["disparity_map"].data': "disparity_map"},
        ints={'disp["validity_mask"].data': "validity_mask"},
        nats={"self._filter_size": "filter_size"},
        calls={"self.median_filter": med}, in_place="disparity_map",
    ))
    return {"medianFilter": med, "filterDisparityMedian": fd}


def fr(v):
    from fractions import Fraction

    return pyarr.NAN if v is None else Fraction(v)


GOLDEN_IMG = [[1, 2, 3, 4], [5, None, 7, 9], [2, 8, 1, 6], [4, 3, 5, 0]]
GOLDEN_FLAGS = [[0, 0, 0, 0], [0, 0, 64, 0], [0, 0, 0, 4], [1, 0, 0, 0]]


def val_lean(v):
    if pyarr.is_nan(v):
        return "Val.nan"
    return f"Val.num ({v.numerator} / {v.denominator})" if v.denominator != 1 else f"Val.num ({v.numerator})"


def img_lean(img):
    rows = ", ".join("[" + ", ".join(val_lean(fr(v)) for v in row) + "]" for row in img)
    return f"(fun r c => (([{rows}] : List (List Val)).getD r []).getD c Val.nan)"


def golden(fns, consts):
    """what pyarr's evaluator computes on one small map, as Lean `example`s (Lean's reading of the text = the evaluator's)"""
    t8 = gen_blocks.extract()
    out = []
    ny, nx = 4, 4
    img = [[fr(v) for v in row] for row in GOLDEN_IMG]
    st = pyarr.PStore([img])
    k = pyarr.evaluate(fns["medianFilter"], st, ny, nx, {"data": 0}, nats={"filter_size": 3}, t8=t8)
    out.append(f"def goldenImg : Arr Val := {img_lean(GOLDEN_IMG)}")
    out.append("def goldenFlags : Nat → Nat → Nat := fun r c => (([" + ", ".join(
        "[" + ", ".join(str(x) for x in row) + "]" for row in GOLDEN_FLAGS) + "] : List (List Nat)).getD r []).getD c 0")
    for (r, c) in [(1, 1), (1, 2), (2, 2), (0, 3)]:
        out.append(f"example : (medianFilter 3 4 4 0 (Store.init [goldenImg] goldenImg)).1.arr "
                   f"(medianFilter 3 4 4 0 (Store.init [goldenImg] goldenImg)).2 {r} {c} = {val_lean(st.arr[k][r][c])} := by decide +kernel")
    st = pyarr.PStore([img])
    pyarr.evaluate(fns["filterDisparityMedian"], st, ny, nx, {"disparity_map": 0}, ints={"validity_mask": GOLDEN_FLAGS},
                   nats={"filter_size": 3}, consts=consts, t8=t8)
    for (r, c) in [(1, 1), (1, 2), (2, 1), (2, 2)]:
        out.append(f"example : (filterDisparityMedian 3 4 4 goldenFlags 0 (Store.init [goldenImg] goldenImg)).arr 0 {r} {c} = "
                   f"{val_lean(st.arr[0][r][c])} := by decide +kernel")
    return out


def comment(fn):
    return fn.source.replace("-/", "- /").replace("/-", "/ -")


def render(fns, consts, wf=None, bil=None) -> str:
    lines = [
        "-- GENERATED by translator/gen_kernels_filter.py (translator/pyarr.py) from pandora/filter/median.py, bilateral.py. Do not edit.",
        "import PandoraModel.Model.PyArr",
        "import PandoraModel.Generated.Blocks",
        "import PandoraModel.Generated.Constants",
        "set_option linter.unusedVariables false",
        "namespace Pandora.Generated.KernelsFilter",
        "open Pandora Pandora.PyArr",
        "",
    ]
    for name, fn in fns.items():
        lines.append(f"/- {fn.spec.where}")
        lines.append(comment(fn))
        lines.append("-/")
        lines.append(pyarr.render_lean(fn))
        lines.append("")
    if wf is not None:
        lines.append(f"/- {wf.where}   (per-window function of the block kernel)")
        lines.append(wf.source.replace("-/", "- /").replace("/-", "/ -"))
        lines.append("-/")
        lines.append(pyarr.render_winfn(wf))
        lines.append("")
        for name, fn in bil.items():
            lines.append(f"/- {fn.spec.where}")
            lines.append(comment(fn))
            lines.append("-/")
            lines.append(pyarr.render_lean(fn))
            lines.append("")
    lines.append("-- what translator/pyarr.py's own evaluator computes on one small map, checked here by evaluation")
    lines += golden(fns, consts)
    lines.append("")
    lines.append("def translated : List String := [" + ", ".join(f'"{n}"' for n in list(fns) + ([wf.lean_name] + list(bil) if wf else [])) + "]")
    lines.append("")
    lines.append("end Pandora.Generated.KernelsFilter")
    return "\n".join(lines) + "\n"


def generate():
    from . import gen_constants

    fns = functions()
    wf, bil = bilateral_functions()
    consts = {k: v for k, v in gen_constants.extract().items() if isinstance(v, int)}
    write_if_changed("KernelsFilter.lean", render(fns, consts, wf, bil))
    srcs = [MEDIAN_REL, BIL_REL]
    allf = dict(fns, **bil)
    return {"T15": {"source": srcs, "digest": digest(*srcs), "functions": sorted(allf) + [wf.lean_name],
                    "statements": {n: [s[0] for s in f.stmts] for n, f in allf.items()}}}
