"""C02: arithmetic that can be read off the source of the matching-cost classes -> Generated/MatchingCostConsts.lean

* `Census.popcount32b` — the straight-line bit-trick program (assignments / augmented assignments over one
  variable with `>>`, `&`, `+`, `-` and integer literals) as a Lean function on `Nat`;
* the `type_measure` literal each `compute_cost_volume` stores (sad/ssd, census, zncc);
* the `cmax` expression of each class (`int`, `max`, `abs`, `**`, `*`, `-` over the band extrema and
  `self._window_size`) as Lean functions over `Rat`.

Python `ast` only.  Anything outside this small grammar raises `Unsupported`.
"""
from __future__ import annotations

import ast

from .common import Unsupported, digest, find_class, find_method, parse, write_if_changed

NAME = "MatchingCostConsts"
SRC_CENSUS = "pandora/matching_cost/census.py"
SRC_SADSSD = "pandora/matching_cost/sad_ssd.py"
SRC_ZNCC = "pandora/matching_cost/zncc.py"

BINOPS = {ast.RShift: ">>", ast.BitAnd: "&", ast.Add: "+", ast.Sub: "-"}


# ------------------------------------------------------------------------------------------------
# popcount32b
# ------------------------------------------------------------------------------------------------
def _bit_expr(node, var):
    if isinstance(node, ast.Name) and node.id == var:
        return ["var"]
    if isinstance(node, ast.Constant) and isinstance(node.value, int) and not isinstance(node.value, bool):
        return ["lit", node.value]
    if isinstance(node, ast.BinOp) and type(node.op) in BINOPS:
        return [BINOPS[type(node.op)], _bit_expr(node.left, var), _bit_expr(node.right, var)]
    raise Unsupported(f"popcount32b: unsupported expression {ast.dump(node)[:100]}")


def extract_popcount():
    fn = find_method(find_class(parse(SRC_CENSUS), "Census"), "popcount32b")
    args = [a.arg for a in fn.args.args]
    if len(args) != 1:
        raise Unsupported("popcount32b: expected exactly one parameter")
    var = args[0]
    prog = []
    body = [s for s in fn.body if not (isinstance(s, ast.Expr) and isinstance(s.value, ast.Constant))]  # docstring
    for stmt in body:
        if isinstance(stmt, ast.AugAssign) and isinstance(stmt.target, ast.Name) and stmt.target.id == var and type(stmt.op) in BINOPS:
            prog.append(["set", [BINOPS[type(stmt.op)], ["var"], _bit_expr(stmt.value, var)]])
        elif isinstance(stmt, ast.Assign) and len(stmt.targets) == 1 and isinstance(stmt.targets[0], ast.Name) and stmt.targets[0].id == var:
            prog.append(["set", _bit_expr(stmt.value, var)])
        elif isinstance(stmt, ast.Return) and stmt.value is not None:
            prog.append(["ret", _bit_expr(stmt.value, var)])
        else:
            raise Unsupported(f"popcount32b: unsupported statement {ast.dump(stmt)[:100]}")
    if not prog or prog[-1][0] != "ret" or any(p[0] == "ret" for p in prog[:-1]):
        raise Unsupported("popcount32b: expected a straight-line program ending with one return")
    return prog


def _lean_bit(e):
    if e[0] == "var":
        return "row"
    if e[0] == "lit":
        return str(e[1])
    op = {">>": ">>>", "&": "&&&", "+": "+", "-": "-"}[e[0]]
    return f"({_lean_bit(e[1])} {op} {_lean_bit(e[2])})"


def interpret(prog, xs):
    """run the extracted program on a numpy uint64 array with uint32 wrap-around (translator cross-check)"""
    import numpy as np

    mask = np.uint64(0xFFFFFFFF)

    def ev(e, row):
        if e[0] == "var":
            return row
        if e[0] == "lit":
            return np.uint64(e[1])
        a, b = ev(e[1], row), ev(e[2], row)
        if e[0] == ">>":
            return a >> b
        if e[0] == "&":
            return a & b
        if e[0] == "+":
            return (a + b) & mask
        return (a - b) & mask

    row = xs.astype(np.uint64)
    for kind, e in prog:
        if kind == "set":
            row = ev(e, row)
        else:
            return ev(e, row)
    raise Unsupported("no return")


# ------------------------------------------------------------------------------------------------
# attributes written by compute_cost_volume
# ------------------------------------------------------------------------------------------------
def _attrs_update(fn):
    """the dict literal of `cost_volume.attrs.update({...})`"""
    for node in ast.walk(fn):
        if (isinstance(node, ast.Call) and isinstance(node.func, ast.Attribute) and node.func.attr == "update"
                and isinstance(node.func.value, ast.Attribute) and node.func.value.attr == "attrs"
                and len(node.args) == 1 and isinstance(node.args[0], ast.Dict)):
            d = {}
            for k, v in zip(node.args[0].keys, node.args[0].values):
                if not (isinstance(k, ast.Constant) and isinstance(k.value, str)):
                    raise Unsupported("attrs.update: non-literal key")
                d[k.value] = v
            if "type_measure" in d and "cmax" in d:
                return d
    raise Unsupported(f"{fn.name}: attrs.update with type_measure and cmax not found")


NAMES = {"max_left": "maxL", "min_left": "minL", "max_right": "maxR", "min_right": "minR"}


def _arith(node):
    """cmax expressions -> Lean term over Rat (maxL minL maxR minR : Rat) (w : Nat)"""
    if isinstance(node, ast.Constant) and isinstance(node.value, int) and not isinstance(node.value, bool):
        return f"({node.value} : Rat)"
    if isinstance(node, ast.Name) and node.id in NAMES:
        return NAMES[node.id]
    if isinstance(node, ast.Attribute) and isinstance(node.value, ast.Name) and node.value.id == "self" and node.attr == "_window_size":
        return "((w : Nat) : Rat)"
    if isinstance(node, ast.BinOp):
        if isinstance(node.op, ast.Pow):
            if isinstance(node.right, ast.Constant) and node.right.value == 2:
                a = _arith(node.left)
                return f"({a} * {a})"
            raise Unsupported("cmax: only ** 2 is supported")
        if isinstance(node.op, ast.Mult):
            return f"({_arith(node.left)} * {_arith(node.right)})"
        if isinstance(node.op, ast.Sub):
            return f"({_arith(node.left)} - {_arith(node.right)})"
    if isinstance(node, ast.Call) and isinstance(node.func, ast.Name) and not node.keywords:
        if node.func.id == "max" and len(node.args) == 2:
            return f"(Pandora.MC.ratMax {_arith(node.args[0])} {_arith(node.args[1])})"
        if node.func.id == "abs" and len(node.args) == 1:
            return f"(Pandora.MC.ratAbs {_arith(node.args[0])})"
    raise Unsupported(f"cmax: unsupported expression {ast.dump(node)[:120]}")


def _int_of(node):
    """`int(X)` -> ("floor", X) ; `int(np.ceil(X))` / `int(ceil(X))` -> ("ceil", X) ; integer literal -> ("lit", n)"""
    if isinstance(node, ast.Call) and isinstance(node.func, ast.Name) and node.func.id == "int" and len(node.args) == 1 and not node.keywords:
        inner = node.args[0]
        if isinstance(inner, ast.Call) and len(inner.args) == 1 and not inner.keywords and (
            (isinstance(inner.func, ast.Attribute) and inner.func.attr == "ceil" and isinstance(inner.func.value, ast.Name)
             and inner.func.value.id in ("np", "numpy", "math"))
            or (isinstance(inner.func, ast.Name) and inner.func.id == "ceil")
        ):
            return ("ceil", _arith(inner.args[0]))
        return ("floor", _arith(inner))
    if isinstance(node, ast.Constant) and isinstance(node.value, int) and not isinstance(node.value, bool):
        return ("lit", node.value)
    raise Unsupported(f"cmax: expected int(...) or an integer literal, got {ast.dump(node)[:100]}")


def _lean_round(r):
    kind, body = r
    if kind == "lit":
        return f"({body} : Int)"
    return f"Pandora.MC.roundCmax {'true' if kind == 'ceil' else 'false'} {body}"


def extract_attrs():
    out = {}
    # --- sad / ssd: cmax assigned under `if self._method == "sad"` / `"ssd"`
    fn = find_method(find_class(parse(SRC_SADSSD), "SadSsd"), "compute_cost_volume")
    d = _attrs_update(fn)
    tm = d["type_measure"]
    if not (isinstance(tm, ast.Constant) and isinstance(tm.value, str)):
        raise Unsupported("SadSsd: type_measure is not a string literal")
    if not (isinstance(d["cmax"], ast.Name) and d["cmax"].id == "cmax"):
        raise Unsupported("SadSsd: cmax is not the variable cmax")
    cm = {}
    for node in ast.walk(fn):
        if (isinstance(node, ast.If) and isinstance(node.test, ast.Compare) and len(node.test.ops) == 1
                and isinstance(node.test.ops[0], ast.Eq) and isinstance(node.test.left, ast.Attribute)
                and node.test.left.attr == "_method" and isinstance(node.test.comparators[0], ast.Constant)):
            meth = node.test.comparators[0].value
            for s in node.body:
                if isinstance(s, ast.Assign) and isinstance(s.targets[0], ast.Name) and s.targets[0].id == "cmax":
                    cm[meth] = _int_of(s.value)
    if set(cm) != {"sad", "ssd"}:
        raise Unsupported(f"SadSsd: cmax assignments found for {sorted(cm)}")
    # the four extrema must be np.amin / np.amax of the selected bands
    want = {"min_left": ("amin", "selected_band_left"), "max_left": ("amax", "selected_band_left"),
            "min_right": ("amin", "selected_band_right"), "max_right": ("amax", "selected_band_right")}
    seen = {}
    for node in ast.walk(fn):
        if isinstance(node, ast.Assign) and isinstance(node.targets[0], ast.Name) and node.targets[0].id in want:
            v = node.value
            if (isinstance(v, ast.Call) and isinstance(v.func, ast.Attribute) and len(v.args) == 1 and isinstance(v.args[0], ast.Name)):
                seen[node.targets[0].id] = (v.func.attr, v.args[0].id)
    if seen != want:
        raise Unsupported(f"SadSsd: band extrema are not np.amin/np.amax of the selected bands: {seen}")
    out["sad"] = {"type_measure": tm.value, "cmax": cm["sad"]}
    out["ssd"] = {"type_measure": tm.value, "cmax": cm["ssd"]}
    # --- census
    fn = find_method(find_class(parse(SRC_CENSUS), "Census"), "compute_cost_volume")
    d = _attrs_update(fn)
    cexpr = None
    for node in ast.walk(fn):
        if isinstance(node, ast.Assign) and isinstance(node.targets[0], ast.Name) and node.targets[0].id == "cmax":
            cexpr = _int_of(node.value)
    if cexpr is None or not (isinstance(d["cmax"], ast.Name) and d["cmax"].id == "cmax"):
        raise Unsupported("Census: cmax assignment not found")
    if not isinstance(d["type_measure"], ast.Constant):
        raise Unsupported("Census: type_measure is not a literal")
    out["census"] = {"type_measure": d["type_measure"].value, "cmax": cexpr}
    # --- zncc
    fn = find_method(find_class(parse(SRC_ZNCC), "Zncc"), "compute_cost_volume")
    d = _attrs_update(fn)
    if not isinstance(d["type_measure"], ast.Constant):
        raise Unsupported("Zncc: type_measure is not a literal")
    out["zncc"] = {"type_measure": d["type_measure"].value, "cmax": _int_of(d["cmax"])}
    return out


def extract():
    attrs = extract_attrs()
    kinds = {attrs["sad"]["cmax"][0], attrs["ssd"]["cmax"][0]}
    if len(kinds) != 1 or not kinds <= {"floor", "ceil"}:
        raise Unsupported(f"SadSsd: sad and ssd round cmax differently: {kinds}")
    if attrs["census"]["cmax"][0] != "floor":
        raise Unsupported("Census: cmax is not int(...)")
    return {
        "popcount": extract_popcount(),
        "attrs": {k: v["type_measure"] for k, v in attrs.items()},
        "cmax": {k: _lean_round(v["cmax"]) for k, v in attrs.items()},
        "cmax_rounds_up": kinds == {"ceil"},
    }


def render(data) -> str:
    lines = [
        "-- GENERATED by translator/gen_matching_cost_consts.py from pandora/matching_cost/{census,sad_ssd,zncc}.py. Do not edit.",
        "import PandoraModel.Model.MatchingCost",
        "",
        "namespace Pandora.Generated.MatchingCostConsts",
        "",
        "/-- `Census.popcount32b` as written in the source -/",
        "def popcount32b (row : Nat) : Nat :=",
    ]
    for kind, e in data["popcount"]:
        if kind == "set":
            lines.append(f"  let row := {_lean_bit(e)}")
        else:
            lines.append(f"  {_lean_bit(e)}")
    lines.append("")
    lines.append("/-- the `type_measure` attribute each class stores -/")
    lines.append("def typeMeasure : Pandora.MC.Measure → String")
    for m in ("sad", "ssd", "census", "zncc"):
        lines.append(f'  | .{m} => "{data["attrs"][m]}"')
    lines.append("")
    lines.append("/-- does the sad/ssd `cmax` round up (`int(np.ceil(..))`) or truncate (`int(..)`)? -/")
    lines.append(f"def cmaxRoundsUp : Bool := {'true' if data['cmax_rounds_up'] else 'false'}")
    lines.append("")
    lines.append("/-- the `cmax` attribute each class stores, from the extrema of the selected bands and the window size -/")
    lines.append("def cmax (m : Pandora.MC.Measure) (maxL minL maxR minR : Rat) (w : Nat) : Int :=")
    lines.append("  match m with")
    for m in ("sad", "ssd", "census", "zncc"):
        lines.append(f"  | .{m} => {data['cmax'][m]}")
    lines.append("")
    lines.append("end Pandora.Generated.MatchingCostConsts")
    return "\n".join(lines) + "\n"


def generate():
    data = extract()
    write_if_changed("MatchingCostConsts.lean", render(data))
    return {"T-C02": {"sources": [SRC_CENSUS, SRC_SADSSD, SRC_ZNCC], "digest": digest(SRC_CENSUS, SRC_SADSSD, SRC_ZNCC),
                      "popcount_statements": len(data["popcount"]), "type_measure": data["attrs"],
                      "cmax_rounds_up": data["cmax_rounds_up"]}}
