"""T3/T4/T5 entry point (see t4_schemas.py): writes Generated/Schemas.lean."""
from . import common, t4_schemas

NAME = "Schemas"


def generate():
    data = t4_schemas.extract()
    common.write_if_changed("Schemas.lean", t4_schemas.render(data))
    n_classes = sum(len(k["classes"]) for k in data["kinds"])
    n_keys = sum(len(c["schema"]) for k in data["kinds"] for c in k["classes"])
    return {"T4": {"sources": data["sources"], "digest": common.digest(*data["sources"]),
                   "classes": n_classes, "schema_keys": n_keys}}
