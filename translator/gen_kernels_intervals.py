"""T15 (median_for_intervals): the glue of `MedianForIntervalsFilter.filter_disparity` -> Generated/KernelsIntervals.lean.

A dedicated strict reader (anything else raises Unsupported).  The confidence-measure array is read band by band: the
three indicator names (`confidence_from_interval_bounds_inf / _sup`, `confidence_from_ambiguity`, with the optional
`"." + suffix`) name three DISTINCT 2-D arrays of the map store; the validity mask is an array of a flag store.

    <ind> = ("<prefix>" if self._<x>_indicator == "" else "<prefix>." + self._<x>_indicator)          indicator names
    cfg_median = {"filter_size": self._filter_size, "filter_method": "median"};  med_filter = MedianFilter(cfg=cfg_median)
    for v in [<ind>, <ind>]:                                                       unrolled, in the order of the list
        t = disp["confidence_measure"].sel({"indicator": v}).copy(deep=True).data      fresh array (or `.data`: the band itself)
        m = med_filter.median_filter(t)                                            call of the translated median_filter
        disp["confidence_measure"].loc[{"indicator": v}] = m                       the band's content becomes m's
    if self._regularization:
        a, b, k = interval_regularization(<band copy>, <band copy>, <band>.data, self._ambiguity_threshold,
                                          self._ambiguity_kernel_size, self._vertical_depth, self._quantile_regularization)
        c = disp["confidence_measure"].data;  … ;  disp["confidence_measure"] = xr.DataArray(data=c, coords=…, dims=…)   (same array)
        disp["validity_mask"].data[k] |= PANDORA_MSK_PIXEL_INTERVAL_REGULARIZED        (`+=` is read too)
        if disp.attrs.get("offset_row_col", 0) > 0: mask_border(disp)
        i = np.argwhere(disp.coords["indicator"].data == <ind>)[0, 0];   c[:, :, i] = a | b

`interval_regularization` is an UNINTERPRETED function of the three band contents (its scalar arguments are pinned to the four
configuration attributes in their order); `Properties/C10Kernels.lean` instantiates it with C12's model.  `mask_border` is the
named library function `FilterIntervals.maskBorder`.
"""
from __future__ import annotations

import ast

from . import gen_blocks
from .common import Unsupported, digest, find_class, find_method, parse, write_if_changed

NAME = "KernelsIntervals"
REL = "pandora/filter/median_for_intervals.py"
CLS, METH = "MedianForIntervalsFilter", "filter_disparity"
PREFIX = {"confidence_from_interval_bounds_inf": "inf", "confidence_from_interval_bounds_sup": "sup",
          "confidence_from_ambiguity": "amb"}
REG_ARGS = ["self._ambiguity_threshold", "self._ambiguity_kernel_size", "self._vertical_depth", "self._quantile_regularization"]


def _d(node):
    return gen_blocks._dotted(node)  # pylint: disable=protected-access


def _bad(msg, node=None):
    line = f" (line {node.lineno})" if node is not None and hasattr(node, "lineno") else ""
    raise Unsupported(f"{REL}:{CLS}.{METH}: {msg}{line}")


def _indicator(val):
    """("<p>" if self._x == "" else "<p>." + self._x) -> band role"""
    if not isinstance(val, ast.IfExp):
        return None
    t = val.test
    if not (isinstance(t, ast.Compare) and len(t.ops) == 1 and isinstance(t.ops[0], ast.Eq) and _d(t.left).startswith("self._")
            and isinstance(t.comparators[0], ast.Constant) and t.comparators[0].value == ""):
        return None
    if not (isinstance(val.body, ast.Constant) and val.body.value in PREFIX):
        return None
    e = val.orelse
    if not (isinstance(e, ast.BinOp) and isinstance(e.op, ast.Add) and isinstance(e.left, ast.Constant)
            and e.left.value == val.body.value + "." and _d(e.right) == _d(t.left)):
        return None
    return PREFIX[val.body.value]


def _band(node, inds, want_copy=None):
    """disp["confidence_measure"].sel|loc(...indicator: v...)[.copy(deep=True)].data -> (role, copied)"""
    if not (isinstance(node, ast.Attribute) and node.attr == "data"):
        return None
    inner, copied = node.value, False
    if isinstance(inner, ast.Call) and isinstance(inner.func, ast.Attribute) and inner.func.attr == "copy":
        if inner.args or [(k.arg, getattr(k.value, "value", None)) for k in inner.keywords] != [("deep", True)]:
            return None
        inner, copied = inner.func.value, True
    role = _band_ref(inner, inds)
    return None if role is None else (role, copied)


def _band_ref(node, inds):
    """disp["confidence_measure"].sel({"indicator": v}) | .loc[{"indicator": v}] -> role"""
    d = None
    if isinstance(node, ast.Call) and _d(node.func) == 'disp["confidence_measure"].sel' and len(node.args) == 1 and not node.keywords:
        d = node.args[0]
    elif isinstance(node, ast.Subscript) and _d(node.value) == 'disp["confidence_measure"].loc':
        d = node.slice
    if not (isinstance(d, ast.Dict) and len(d.keys) == 1 and getattr(d.keys[0], "value", None) == "indicator"
            and isinstance(d.values[0], ast.Name) and d.values[0].id in inds):
        return None
    return inds[d.values[0].id]


def read():
    fn = find_method(find_class(parse(REL), CLS), METH)
    inds, stmts = {}, []
    state = {"median": None, "cfg": None}

    def loop(st):
        if not (isinstance(st.target, ast.Name) and isinstance(st.iter, (ast.List, ast.Tuple)) and not st.orelse
                and all(isinstance(e, ast.Name) and e.id in inds for e in st.iter.elts) and len(st.body) == 3):
            _bad("unsupported loop", st)
        v = st.target.id
        for e in st.iter.elts:
            local = dict(inds)
            local[v] = inds[e.id]
            a, b, c = st.body
            ok = all(isinstance(x, ast.Assign) and len(x.targets) == 1 for x in (a, b, c))
            band = ok and isinstance(a.targets[0], ast.Name) and _band(a.value, {v: local[v]})
            if not band:
                _bad("first statement of the band loop is not `t = <band>[.copy(deep=True)].data`", a)
            call = (isinstance(b.targets[0], ast.Name) and isinstance(b.value, ast.Call) and _d(b.value.func) == f"{state['median']}.median_filter"
                    and len(b.value.args) == 1 and not b.value.keywords and _d(b.value.args[0]) == a.targets[0].id)
            if not call:
                _bad("second statement of the band loop is not `m = <MedianFilter>.median_filter(t)`", b)
            store = _band_ref(c.targets[0], {v: local[v]}) == local[v] and _d(c.value) == b.targets[0].id
            if not store:
                _bad("third statement of the band loop is not `<band> = m`", c)
            stmts.append(("median_band", local[v], band[1]))

    def regular(body):
        res, idx, conf = None, {}, None
        for st in body:
            if isinstance(st, ast.Assign) and len(st.targets) == 1:
                tgt, val = st.targets[0], st.value
                if isinstance(tgt, ast.Name) and _indicator(val):
                    inds[tgt.id] = _indicator(val)
                    continue
                if (isinstance(tgt, ast.Tuple) and len(tgt.elts) == 3 and all(isinstance(e, ast.Name) for e in tgt.elts)
                        and isinstance(val, ast.Call) and _d(val.func) == "interval_regularization" and len(val.args) == 7 and not val.keywords):
                    bands = [_band(a, inds) for a in val.args[:3]]
                    if None in bands or [_d(a) for a in val.args[3:]] != REG_ARGS:
                        _bad("unsupported arguments of interval_regularization", st)
                    res = [e.id for e in tgt.elts]
                    stmts.append(("regularize", [b[0] for b in bands], [b[1] for b in bands]))
                    continue
                if isinstance(tgt, ast.Name) and _d(val) == 'disp["confidence_measure"].data':
                    conf = tgt.id
                    continue
                if (isinstance(tgt, ast.Name) and isinstance(val, ast.Subscript) and isinstance(val.value, ast.Call)
                        and _d(val.value.func) == "np.argwhere" and len(val.value.args) == 1
                        and isinstance(val.value.args[0], ast.Compare) and _d(val.value.args[0].left) == 'disp.coords["indicator"].data'
                        and isinstance(val.value.args[0].ops[0], ast.Eq) and isinstance(val.value.args[0].comparators[0], ast.Name)
                        and val.value.args[0].comparators[0].id in inds
                        and isinstance(val.slice, ast.Tuple) and [getattr(e, "value", None) for e in val.slice.elts] == [0, 0]):
                    idx[tgt.id] = inds[val.value.args[0].comparators[0].id]
                    continue
                if (isinstance(tgt, ast.Subscript) and conf and _d(tgt.value) == conf and isinstance(tgt.slice, ast.Tuple)
                        and len(tgt.slice.elts) == 3 and all(isinstance(e, ast.Slice) and e.lower is None and e.upper is None for e in tgt.slice.elts[:2])
                        and isinstance(tgt.slice.elts[2], ast.Name) and tgt.slice.elts[2].id in idx
                        and res and isinstance(val, ast.Name) and val.id in res[:2]):
                    stmts.append(("band_from_result", idx[tgt.slice.elts[2].id], res.index(val.id)))
                    continue
            if (isinstance(st, ast.Assign) and len(st.targets) == 1 and isinstance(st.targets[0], ast.Name) and isinstance(st.value, ast.List)
                    and all(_d(e).startswith("disp.coords[") for e in st.value.elts)):
                continue  # coordinates of the rebuilt DataArray
            if (isinstance(st, ast.Assign) and len(st.targets) == 1 and _d(st.targets[0]) == 'disp["confidence_measure"]'
                    and isinstance(st.value, ast.Call) and _d(st.value.func) == "xr.DataArray" and not st.value.args and conf
                    and {k.arg for k in st.value.keywords} == {"data", "coords", "dims"}
                    and _d([k.value for k in st.value.keywords if k.arg == "data"][0]) == conf):
                continue  # the DataArray is rebuilt around the SAME numpy array (no copy): the bands keep their identity
            if (isinstance(st, ast.AugAssign) and isinstance(st.op, (ast.BitOr, ast.Add)) and isinstance(st.target, ast.Subscript)
                    and _d(st.target.value) == 'disp["validity_mask"].data' and res and _d(st.target.slice) == res[2]
                    and _d(st.value) == "PANDORA_MSK_PIXEL_INTERVAL_REGULARIZED"):
                stmts.append(("flag", "or" if isinstance(st.op, ast.BitOr) else "add"))
                continue
            if (isinstance(st, ast.If) and not st.orelse and len(st.body) == 1 and isinstance(st.body[0], ast.Expr)
                    and ast.unparse(st.test).replace("'", '"') == 'disp.attrs.get("offset_row_col", 0) > 0'
                    and ast.unparse(st.body[0]) == "mask_border(disp)"):
                stmts.append(("mask_border",))
                continue
            _bad(f"unsupported statement in the regularisation branch: {ast.unparse(st)[:70]}", st)

    for st in fn.body:
        if isinstance(st, ast.Expr) and isinstance(st.value, ast.Constant) and isinstance(st.value.value, str):
            continue
        if isinstance(st, ast.Assign) and len(st.targets) == 1 and isinstance(st.targets[0], ast.Name):
            n, val = st.targets[0].id, st.value
            if _indicator(val):
                inds[n] = _indicator(val)
                continue
            if isinstance(val, ast.Dict) and {getattr(k, "value", None): _d(v) if not isinstance(v, ast.Constant) else v.value
                                              for k, v in zip(val.keys, val.values)} == {"filter_size": "self._filter_size", "filter_method": "median"}:
                state["cfg"] = n
                continue
            if (isinstance(val, ast.Call) and _d(val.func) == "MedianFilter" and not val.args
                    and [(k.arg, _d(k.value)) for k in val.keywords] == [("cfg", state["cfg"])]):
                state["median"] = n
                continue
        if isinstance(st, ast.For):
            loop(st)
            continue
        if isinstance(st, ast.If) and _d(st.test) == "self._regularization" and not st.orelse:
            stmts.append(("if_regularization",))
            regular(st.body)
            continue
        _bad(f"unsupported statement {ast.unparse(st)[:70]}", st)
    try:
        src = ast.unparse(fn)
    except Exception:  # pylint: disable=broad-except
        src = ""
    return {"stmts": stmts, "source": src}


def render(td) -> str:
    out = ["def medianForIntervals (intervalRegularization : Arr Val → Arr Val → Arr Val → Arr Val × Arr Val × Mask)",
           "    (filter_size : Nat) (regularization : Bool) (off ny nx : Nat) (inf sup amb mask : Nat)",
           "    (s0 : Store Val) (f0 : Store Nat) : Store Val × Store Nat :="]
    k = 0
    head, tail = [], None
    cur = head
    ind = "  "
    fk = 0
    for st in td["stmts"]:
        if st[0] == "median_band":
            b = st[1]
            if st[2]:
                cur += [f"{ind}let pc{k + 1} := s{k}.copy {b}", f"{ind}let s{k + 1} := pc{k + 1}.1", f"{ind}let masked_data_{b} : Nat := pc{k + 1}.2"]
                k += 1
            else:
                cur += [f"{ind}let masked_data_{b} : Nat := {b}"]
            cur += [f"{ind}let pm{k + 1} := Generated.KernelsFilter.medianFilter filter_size ny nx masked_data_{b} s{k}",
                    f"{ind}let s{k + 1} := pm{k + 1}.1", f"{ind}let disp_median_{b} : Nat := pm{k + 1}.2"]
            k += 1
            cur += [f"{ind}let s{k + 1} := s{k}.set {b} (s{k}.arr disp_median_{b})   -- the band's content becomes the filtered one"]
            k += 1
        elif st[0] == "if_regularization":
            head.append("  if regularization then")
            tail = f"  else (s{k}, f0)"
            ind = "    "
        elif st[0] == "regularize":
            args = []
            for j, (b, copied) in enumerate(zip(st[1], st[2])):
                if copied:
                    cur += [f"{ind}let pr{k + 1} := s{k}.copy {b}", f"{ind}let s{k + 1} := pr{k + 1}.1", f"{ind}let arg{j} : Nat := pr{k + 1}.2"]
                    k += 1
                else:
                    cur += [f"{ind}let arg{j} : Nat := {b}"]
                args.append(f"arg{j}")
            cur += [f"{ind}let res := intervalRegularization " + " ".join(f"(s{k}.arr {a})" for a in args)]
        elif st[0] == "flag":
            op = "maskOr" if st[1] == "or" else "maskAdd"
            cur += [f"{ind}let f{fk + 1} := f{fk}.{op} mask res.2.2 Generated.Constants.PANDORA_MSK_PIXEL_INTERVAL_REGULARIZED"]
            fk += 1
        elif st[0] == "mask_border":
            cur += [f"{ind}let f{fk + 1} := if off > 0 then f{fk}.set mask (FilterIntervals.maskBorder off ny nx (f{fk}.arr mask)) else f{fk}"]
            fk += 1
        elif st[0] == "band_from_result":
            cur += [f"{ind}let s{k + 1} := s{k}.set {st[1]} res.{'1' if st[2] == 0 else '2.1'}"]
            k += 1
    if tail is None:
        head.append(f"  (s{k}, f0)")
    else:
        head.append(f"    (s{k}, f{fk})")
        head.append(tail)
    return "\n".join(out + head)


def render_file(td) -> str:
    return "\n".join([
        "-- GENERATED by translator/gen_kernels_intervals.py from pandora/filter/median_for_intervals.py. Do not edit.",
        "import PandoraModel.Model.PyArr",
        "import PandoraModel.Model.FilterIntervals",
        "import PandoraModel.Generated.KernelsFilter",
        "set_option linter.unusedVariables false",
        "namespace Pandora.Generated.KernelsIntervals",
        "open Pandora Pandora.PyArr",
        "",
        f"/- {REL}:{CLS}.{METH}",
        td["source"].replace("-/", "- /").replace("/-", "/ -"),
        "-/",
        render(td),
        "",
        "end Pandora.Generated.KernelsIntervals",
    ]) + "\n"


def generate():
    td = read()
    write_if_changed("KernelsIntervals.lean", render_file(td))
    return {"T15intervals": {"source": [REL], "digest": digest(REL), "statements": [s[0] for s in td["stmts"]]}}
