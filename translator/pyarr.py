"""T15: statement-level translation of straight-line numpy "array programs" with explicit aliasing.

The numpy glue around the block loops of the filters and of winner-takes-all (`MedianFilter.filter_disparity`,
`median_filter`, `BilateralFilter.filter_disparity`, `filter_bilateral`, `WinnerTakesAll.to_disp`, `argmin_split`,
`argmax_split`) is read with `ast` into ONE typed statement list, from which

  * the Lean text is printed (`render_lean`): definitions over the store semantics of `Model/PyArr.lean`, where a Python
    name bound to an array is an array IDENTITY (`b = a` shares it, `np.copy(a)` makes a fresh one, `sliding_window(a, …)`
    is a view that reads the content `a` has when it is used), and
  * the same list is evaluated exactly (`evaluate`: Fractions, NaN, ±inf; block statements in block order, every block
    reading the current content of the view's base) for the run-time comparison with the real functions.

Accepted statements (everything else raises `Unsupported`):

    t = np.copy(a) | a.copy() | <atom>.copy(deep=True).data | copy.deepcopy(a)      fresh array
    t = a                                                                          alias (a an array name / atom)
    t = sliding_window(a, (n, n))                                                  view of a
    t = <mask>              np.isnan(a) | np.isfinite(a) | ~m | np.logical_not(m) | m == False | m == True |
                            (ints & cst.NAME) != 0 | == 0 | a mask name
    a[<mask>] = np.nan | <scalar>      a[np.where(<mask>)] = …                      masked store of a constant
    a[<mask>] = b[<mask>]              (the same mask expression on both sides)     masked copy
    n1, n2 = a.shape                                                               shape names
    the block loops read by T8 (`gen_blocks.extract_one`) with ONE write `dst[block] = <reduction>(chunk, …)` in the
    inner loop, dst an array name, the split array a view (or a 3-D array)          one `blocks` statement
    t = self.<translated function>(a, …)                                           call (arrays are passed by identity)
    return a;   del …;   <ds>.attrs[...] = "literal";   docstrings;   `with warnings.catch_warnings():`;
    `warnings.filterwarnings(...)`;  integer bookkeeping locals of the block loops (`chunk_size = 100`,
    `radius = int(size / 2)`, `x = np.array_split(...)`, `*_begin = …`) — their meaning is T8's.

Bilateral extension: `w = min(<dims>, int(K1 * sigma_space + K2))` (T8's window formula), `o = int(<nat> / K)` (a natural),
`t = self.<uninterpreted>(<nat>, <float>)` (a table of an uninterpreted function), float parameters passed positionally at
calls, and block kernels that are calls of a per-window function (`WinFn`, `read_window_function`: see its docstring).

Trusted: that all 2-D arrays of one program have the shape `ny × nx` handed to it (they are copies of each other), the
reading of `np.array_split` (ported from `Model/Blocks.lean`), and the named reductions (`np.nanmedian`, `np.argmin`)
whose meaning is the hand model's.  Validated on every run of C10 / C03 against the real functions, including the
content of the INPUT arrays after the call.
"""
from __future__ import annotations

import ast
import math
from fractions import Fraction

from . import gen_blocks
from .common import Unsupported, find_class, find_method, parse

NAN = float("nan")


def is_nan(v):
    return isinstance(v, float) and math.isnan(v)


def _dotted(node):
    return gen_blocks._dotted(node)  # pylint: disable=protected-access


def _is_np(node, name):
    return gen_blocks._is_np(node, name)  # pylint: disable=protected-access


class Spec:
    """how one function is read: which source expressions are arrays / integer arrays / naturals / callable kernels"""

    def __init__(self, rel, cls, meth, lean_name, arrays=None, ints=None, nats=None, calls=None, t8=None, scalars=None,
                 in_place=None, reductions=None, rats=None, ufuns=None, winfns=None):
        self.rel, self.cls, self.meth, self.lean_name = rel, cls, meth, lean_name
        self.arrays = dict(arrays or {})  # source text -> lean name (array identities, parameters of the Lean def)
        self.ints = dict(ints or {})  # source text -> lean name (integer arrays, read only)
        self.nats = dict(nats or {})  # source text -> lean name (natural-number parameters)
        self.scalars = dict(scalars or {})  # source text -> lean name (cell-valued parameters)
        self.calls = dict(calls or {})  # source text of the callee -> Fn
        self.t8 = t8  # (name in Generated/Blocks.lean, size text) of the block loop, or None
        self.in_place = in_place  # lean name of the array the function updates when it returns nothing
        self.reductions = dict(reductions or {"nanmedian": "Filter.nanmedian"})
        self.rats = dict(rats or {})  # source text -> lean name (float parameters read as exact rationals: the sigmas)
        self.ufuns = dict(ufuns or {})  # source text of an UNINTERPRETED function -> (lean name, lean type)
        self.winfns = dict(winfns or {})  # source text of a per-window kernel -> WinFn (block kernels)

    @property
    def where(self):
        return f"{self.rel}:{self.cls}.{self.meth}"


class Fn:
    def __init__(self, spec, stmts, ret, source):
        self.spec, self.stmts, self.ret, self.source = spec, stmts, ret, source
        self.lean_name = spec.lean_name


# ---------------------------------------------------------------------------------------------
# reading
# ---------------------------------------------------------------------------------------------
class _Reader:
    def __init__(self, spec):
        self.spec = spec
        self.kinds = {}  # local name -> 'arr' | 'view' | 'mask' | 'nat' | 'book' | 'dimy' | 'dimx'
        for text, lean in spec.arrays.items():
            if text.isidentifier():
                self.kinds[text] = "arr"
        for text in spec.nats:
            if text.isidentifier():
                self.kinds[text] = "nat"
        self.stmts = []
        self.ret = None
        self.returned = False

    def bad(self, msg, node=None):
        line = f" (line {node.lineno})" if node is not None and hasattr(node, "lineno") else ""
        raise Unsupported(f"{self.spec.where}: {msg}{line}")

    # -- expressions --------------------------------------------------------------------------
    def arr(self, node):
        """an expression naming an array identity -> its lean name, else None"""
        text = _dotted(node)
        if isinstance(node, ast.Name):
            return node.id if self.kinds.get(node.id) == "arr" else None
        if text in self.spec.arrays:
            return self.spec.arrays[text]
        return None

    def ints(self, node):
        text = _dotted(node)
        return self.spec.ints.get(text)

    def nat(self, node):
        text = _dotted(node)
        if text in self.spec.nats:
            return self.spec.nats[text]
        if isinstance(node, ast.Name) and self.kinds.get(node.id) == "nat":
            return node.id
        return None

    def rat(self, node):
        return self.spec.rats.get(_dotted(node))

    def table(self, node):
        return node.id if isinstance(node, ast.Name) and self.kinds.get(node.id) == "table" else None

    def fresh_copy(self, node):
        """np.copy(a) | a.copy() | a.copy(deep=True) | <atom>.copy(deep=True).data | copy.deepcopy(a) -> source array"""
        if isinstance(node, ast.Call) and _is_np(node.func, "copy") and len(node.args) == 1 and not node.keywords:
            return self.arr(node.args[0])
        if (isinstance(node, ast.Call) and isinstance(node.func, ast.Attribute) and node.func.attr == "deepcopy"
                and isinstance(node.func.value, ast.Name) and node.func.value.id == "copy" and len(node.args) == 1
                and not node.keywords):
            return self.arr(node.args[0])
        if isinstance(node, ast.Call) and isinstance(node.func, ast.Attribute) and node.func.attr == "copy" and not node.args:
            kws = {k.arg: k.value for k in node.keywords}
            if set(kws) - {"deep"}:
                return None
            if "deep" in kws and not (isinstance(kws["deep"], ast.Constant) and kws["deep"].value is True):
                return None  # a shallow xarray copy shares its data
            return self.arr(node.func.value)
        if isinstance(node, ast.Attribute) and node.attr == "data":
            # <ds["x"]>.copy(deep=True).data : the data of the copy is the copy of the data
            inner = node.value
            if isinstance(inner, ast.Call) and isinstance(inner.func, ast.Attribute) and inner.func.attr == "copy":
                kws = {k.arg: k.value for k in inner.keywords}
                if inner.args or set(kws) != {"deep"} or not (isinstance(kws["deep"], ast.Constant) and kws["deep"].value is True):
                    return None
                text = _dotted(inner.func.value) + ".data"
                return self.spec.arrays.get(text)
        return None

    def mask(self, node, index=False):
        """mask expression -> tree; `index=True` also accepts np.where(<mask>)"""
        if index and isinstance(node, ast.Call) and _is_np(node.func, "where") and len(node.args) == 1 and not node.keywords:
            return self.mask(node.args[0])
        if isinstance(node, ast.Name):
            if self.kinds.get(node.id) == "mask":
                return ("ref", node.id)
            return None
        if isinstance(node, ast.Call) and not node.keywords and len(node.args) == 1:
            for fn, pred in (("isnan", "isnan"), ("isfinite", "isfinite")):
                if _is_np(node.func, fn):
                    a = self.arr(node.args[0])
                    if a is None:
                        self.bad(f"np.{fn} of something that is not an array name", node)
                    return ("pred", pred, a)
            if _is_np(node.func, "logical_not") or _is_np(node.func, "invert"):
                m = self.mask(node.args[0])
                return None if m is None else ("not", m)
        if isinstance(node, ast.UnaryOp) and isinstance(node.op, ast.Invert):
            m = self.mask(node.operand)
            return None if m is None else ("not", m)
        if isinstance(node, ast.Compare) and len(node.ops) == 1 and len(node.comparators) == 1:
            left, op, right = node.left, node.ops[0], node.comparators[0]
            if isinstance(right, ast.Constant) and isinstance(right.value, bool) and isinstance(op, (ast.Eq, ast.NotEq)):
                m = self.mask(left)
                if m is None:
                    return None
                same = (right.value is True) == isinstance(op, ast.Eq)
                return m if same else ("not", m)
            if (isinstance(right, ast.Constant) and right.value == 0 and not isinstance(right.value, bool)
                    and isinstance(op, (ast.Eq, ast.NotEq)) and isinstance(left, ast.BinOp) and isinstance(left.op, ast.BitAnd)):
                f = self.ints(left.left)
                c = left.right
                if f is not None and isinstance(c, ast.Attribute) and isinstance(c.value, ast.Name) and c.value.id == "cst":
                    return ("flag", f, c.attr, isinstance(op, ast.NotEq))
        return None

    # -- statements ---------------------------------------------------------------------------
    def bind(self, name, kind, node):
        if name in self.kinds and self.kinds[name] != kind:
            self.bad(f"name {name} rebound from {self.kinds[name]} to {kind}", node)
        if name in self.spec.arrays or name in self.spec.nats:
            self.bad(f"parameter {name} rebound", node)
        self.kinds[name] = kind

    def assign_name(self, st, name, val):
        src = self.fresh_copy(val)
        if src is not None:
            self.bind(name, "arr", st)
            self.stmts.append(("copy", name, src))
            return
        a = self.arr(val)
        if a is not None:
            self.bind(name, "arr", st)
            self.stmts.append(("alias", name, a))
            return
        if (isinstance(val, ast.Call) and isinstance(val.func, ast.Name) and val.func.id == "sliding_window"
                and len(val.args) == 2 and not val.keywords and isinstance(val.args[1], ast.Tuple) and len(val.args[1].elts) == 2):
            base = self.arr(val.args[0])
            n1, n2 = (self.nat(e) for e in val.args[1].elts)
            if base is None or n1 is None or n1 != n2:
                self.bad("sliding_window(<array>, (<n>, <n>)) expected", st)
            self.bind(name, "view", st)
            self.stmts.append(("view", name, base, n1))
            return
        m = self.mask(val)
        if m is not None:
            self.bind(name, "mask", st)
            self.stmts.append(("mask", name, m))
            return
        if isinstance(val, ast.Call) and _dotted(val.func) in self.spec.calls and not val.keywords:
            fn = self.spec.calls[_dotted(val.func)]
            arrs, explicit, rats = [], [], []
            for a_ in val.args:
                if self.arr(a_) is not None:
                    arrs.append(self.arr(a_))
                elif self.nat(a_) is not None:
                    explicit.append(self.nat(a_))
                elif self.rat(a_) is not None:
                    rats.append(self.rat(a_))  # positional: the callee's float parameters in the order of its signature
                else:
                    self.bad(f"unsupported argument of {_dotted(val.func)}", st)
            nats = []  # aligned with the callee's natural parameters: `self.<attr>` is the caller's own, others positional
            for text in fn.spec.nats:
                if text.startswith("self."):
                    if text not in self.spec.nats:
                        self.bad(f"{_dotted(val.func)} reads {text}, unknown to the caller", st)
                    nats.append(self.spec.nats[text])
                elif explicit:
                    nats.append(explicit.pop(0))
                else:
                    self.bad(f"missing argument of {_dotted(val.func)}", st)
            if explicit or len(arrs) != len(fn.spec.arrays) or len(rats) != len(fn.spec.rats) or fn.ret is None:
                self.bad(f"call of {_dotted(val.func)} with unexpected arguments", st)
            for text, (ln, _) in fn.spec.ufuns.items():
                if self.spec.ufuns.get(text, (None,))[0] != ln:
                    self.bad(f"{_dotted(val.func)} uses {text}, unknown to the caller", st)
            self.bind(name, "arr", st)
            self.stmts.append(("call", name, fn, arrs, nats, rats))
            return
        # win_width = min(<dims>, int(K1 * sigma_space + K2)): the formula T8 reads (Generated.Blocks.<name>WinWidth)
        if isinstance(val, ast.Call) and isinstance(val.func, ast.Name) and val.func.id == "min" and self.spec.t8 is not None:
            info = gen_blocks.LoopInfo(self.spec.where)
            info.dims = {n: (0 if k == "dimy" else 1) for n, k in self.kinds.items() if k in ("dimy", "dimx")}
            w = gen_blocks._window(val, info)  # pylint: disable=protected-access
            sig = self.spec.rats.get("sigma_space")
            if w is None or w[0] != [0, 1] or sig is None:
                self.bad("unsupported window formula", st)
            self.bind(name, "nat", st)
            self.stmts.append(("winwidth", name, self.spec.t8[0], sig, w[1], w[2]))
            return
        # a natural derived from a natural: offset = int(win_width / 2)
        h = gen_blocks._half(val)  # pylint: disable=protected-access
        if h:
            size = self.spec.nats.get(h[0]) or (h[0] if self.kinds.get(h[0]) == "nat" else None)
            if size is not None:
                self.bind(name, "nat", st)
                self.stmts.append(("nathalf", name, size, h[1], h[2] if len(h) > 2 else 0))
                return
        # a table of an uninterpreted function: gauss_spatial_kernel = self.gauss_spatial_kernel(win_width, sigma_space)
        if isinstance(val, ast.Call) and _dotted(val.func) in self.spec.ufuns and not val.keywords and len(val.args) == 2:
            n_, r_ = self.nat(val.args[0]), self.rat(val.args[1])
            if n_ is None or r_ is None:
                self.bad(f"unsupported arguments of {_dotted(val.func)}", st)
            self.bind(name, "table", st)
            self.stmts.append(("table", name, self.spec.ufuns[_dotted(val.func)][0], n_, r_))
            return
        # integer bookkeeping of the block loops: meaning given by T8 (gen_blocks), which refuses what it cannot read
        if gen_blocks._int(val) or gen_blocks._half(val) or (  # pylint: disable=protected-access
            isinstance(val, ast.Call) and _is_np(val.func, "array_split")
        ) or (isinstance(val, ast.Name) and self.kinds.get(val.id) in ("book", "nat")):
            if self.spec.t8 is None:
                self.bad(f"integer local {name} outside a block loop", st)
            self.bind(name, "book", st)
            return
        self.bad(f"unsupported right-hand side for {name}: {ast.unparse(val)[:70]}", st)

    def assign_sub(self, st, tgt, val):
        if (isinstance(tgt.value, ast.Attribute) and tgt.value.attr == "attrs" and isinstance(tgt.value.value, ast.Name)
                and isinstance(val, ast.Constant) and isinstance(val.value, str)):
            return  # <ds>.attrs["k"] = "literal"
        a = self.arr(tgt.value)
        if a is None:
            self.bad(f"store into something that is not an array: {ast.unparse(tgt)[:60]}", st)
        m = self.mask(tgt.slice, index=True)
        if m is None:
            self.bad(f"unsupported index {ast.unparse(tgt.slice)[:60]}", st)
        if isinstance(val, ast.Attribute) and _is_np(val, "nan"):
            self.stmts.append(("fill", a, m, ("nan",)))
            return
        sc = self.spec.scalars.get(_dotted(val))
        if sc is not None:
            self.stmts.append(("fill", a, m, ("scalar", sc)))
            return
        if isinstance(val, ast.Subscript):
            b = self.arr(val.value)
            m2 = self.mask(val.slice, index=True)
            if b is not None and m2 is not None and m2 == m:
                self.stmts.append(("mcopy", a, m, b))
                return
        self.bad(f"unsupported masked store {ast.unparse(st)[:80]}", st)

    def shape_unpack(self, st, tgt, val):
        if not (isinstance(val, ast.Attribute) and val.attr == "shape" and self.arr(val.value) is not None):
            self.bad("tuple assignment that is not `<n1>, <n2> = <array>.shape`", st)
        if len(tgt.elts) != 2 or not all(isinstance(e, ast.Name) for e in tgt.elts):
            self.bad("shape of a 2-D array unpacked into other than two names", st)
        self.bind(tgt.elts[0].id, "dimy", st)
        self.bind(tgt.elts[1].id, "dimx", st)

    def block_loop(self, loop):
        spec = self.spec
        if spec.t8 is None:
            self.bad("loop in a function without a T8 block description", loop)
        t8name, size_text = spec.t8
        gen_blocks.extract_one(spec.rel, spec.cls, spec.meth, size_text)  # structural reading (raises Unsupported)
        # strict shape of the two loop bodies: nothing but bookkeeping and ONE block write
        inner = [s for s in loop.body if isinstance(s, ast.For)]
        if len(inner) != 1:
            self.bad("expected one inner block loop", loop)
        inner = inner[0]
        for s in loop.body:
            if s is inner:
                continue
            ok = (isinstance(s, ast.Assign) and len(s.targets) == 1 and isinstance(s.targets[0], ast.Name)) or (
                isinstance(s, ast.AugAssign) and isinstance(s.target, ast.Name) and s.target.id.endswith("_begin"))
            if not ok:
                self.bad(f"unsupported statement in the outer block loop: {ast.unparse(s)[:60]}", s)
            if isinstance(s, ast.Assign):
                v = s.value
                if not (gen_blocks._int(v) or gen_blocks._half(v) or isinstance(v, ast.Name)  # pylint: disable=protected-access
                        or (isinstance(v, ast.Call) and _is_np(v.func, "array_split"))):
                    self.bad(f"unsupported statement in the outer block loop: {ast.unparse(s)[:60]}", s)
        writes = []
        for s in inner.body:
            if isinstance(s, ast.Assign) and len(s.targets) == 1 and isinstance(s.targets[0], ast.Name) and s.targets[0].id.endswith("_end"):
                continue
            if isinstance(s, ast.AugAssign) and isinstance(s.target, ast.Name) and s.target.id.endswith("_begin"):
                continue
            if isinstance(s, ast.Assign) and len(s.targets) == 1 and isinstance(s.targets[0], ast.Subscript):
                writes.append(s)
                continue
            self.bad(f"unsupported statement in the inner block loop: {ast.unparse(s)[:60]}", s)
        if len(writes) != 1:
            self.bad(f"{len(writes)} block writes in the inner loop", inner)
        w = writes[0]
        dst = self.arr(w.targets[0].value)
        if dst is None:
            self.bad("the block is written into something that is not an array name", w)
        chunk, _ = gen_blocks._loop_var_and_iter(inner, gen_blocks.LoopInfo(spec.where))  # pylint: disable=protected-access
        # which array is split: np.array_split(<view>, …) feeding the outer loop
        _, ychunks = gen_blocks._loop_var_and_iter(loop, gen_blocks.LoopInfo(spec.where))  # pylint: disable=protected-access
        fn = find_method(find_class(parse(spec.rel), spec.cls), spec.meth)
        split_src = None
        for s in ast.walk(fn):
            if (isinstance(s, ast.Assign) and len(s.targets) == 1 and isinstance(s.targets[0], ast.Name)
                    and s.targets[0].id == ychunks and isinstance(s.value, ast.Call) and _is_np(s.value.func, "array_split")):
                split_src = s.value.args[0]
        if not (isinstance(split_src, ast.Name) and self.kinds.get(split_src.id) == "view"):
            self.bad("the array split by the outer loop is not a sliding_window view", loop)
        view = split_src.id
        kern = self.kernel(w.value, chunk, w)
        vw = [s for s in self.stmts if s[0] == "view" and s[1] == view][0]
        if _dotted_of_nat(self.spec, vw[3]) != size_text:
            self.bad(f"view of size {vw[3]}, T8 offsets derive from {size_text}", loop)
        self.stmts.append(("blocks", dst, view, kern, t8name, vw[3]))

    def kernel(self, val, chunk, node):
        """<reduction>(chunk, …) of the block write"""
        if isinstance(val, ast.Call) and _is_np(val.func, "nanmedian") and len(val.args) == 1 and chunk.matches(val.args[0]):
            kws = {k.arg: k.value for k in val.keywords}
            ax = kws.get("axis")
            if set(kws) == {"axis"} and isinstance(ax, ast.Tuple) and [getattr(e, "value", None) for e in ax.elts] == [2, 3]:
                return ("reduce", "nanmedian")
        if isinstance(val, ast.Call) and _dotted(val.func) in self.spec.winfns and not val.keywords and val.args \
                and chunk.matches(val.args[0]):
            wf = self.spec.winfns[_dotted(val.func)]
            if len(val.args) - 1 != len(wf.params):
                self.bad(f"{_dotted(val.func)} called with {len(val.args) - 1} arguments after the windows", node)
            args = []
            for a_, (pname, kind) in zip(val.args[1:], wf.params):
                got = {"table": self.table, "rat": self.rat, "nat": self.nat}[kind](a_)
                if got is None:
                    self.bad(f"argument {pname} of {_dotted(val.func)} is not a {kind}", node)
                args.append(got)
            for text, ln in wf.ufuns.items():
                if self.spec.ufuns.get(text, (None,))[0] != ln:
                    self.bad(f"{_dotted(val.func)} uses {text}, unknown to the caller", node)
            return ("winfn", wf, args)
        self.bad(f"unsupported block kernel {ast.unparse(val)[:70]}", node)
        return None

    def walk(self, stmts, top=True):
        for i, st in enumerate(stmts):
            if self.returned:
                self.bad("statement after return", st)
            if isinstance(st, ast.Expr):
                v = st.value
                if isinstance(v, ast.Constant) and isinstance(v.value, str):
                    continue
                if isinstance(v, ast.Call) and _dotted(v.func) == "warnings.filterwarnings":
                    continue
                self.bad(f"unsupported expression statement {ast.unparse(st)[:60]}", st)
            elif isinstance(st, ast.Delete):
                for t in st.targets:
                    for e in (t.elts if isinstance(t, ast.Tuple) else [t]):
                        if not isinstance(e, ast.Name):
                            self.bad("del of something that is not a local name", st)
            elif isinstance(st, ast.With):
                ok = all(isinstance(it.context_expr, ast.Call) and _dotted(it.context_expr.func) == "warnings.catch_warnings"
                         and it.optional_vars is None for it in st.items)
                if not ok:
                    self.bad("unsupported with statement", st)
                self.walk(st.body, top=False)
            elif isinstance(st, ast.For):
                self.block_loop(st)
            elif isinstance(st, ast.Return):
                if not top or st.value is None or self.arr(st.value) is None:
                    self.bad("unsupported return", st)
                self.ret = self.arr(st.value)
                self.returned = True
            elif isinstance(st, ast.Assign) and len(st.targets) == 1:
                tgt = st.targets[0]
                if isinstance(tgt, ast.Name):
                    self.assign_name(st, tgt.id, st.value)
                elif isinstance(tgt, ast.Subscript):
                    self.assign_sub(st, tgt, st.value)
                elif isinstance(tgt, ast.Tuple):
                    self.shape_unpack(st, tgt, st.value)
                else:
                    self.bad(f"unsupported assignment target {ast.unparse(tgt)[:40]}", st)
            else:
                self.bad(f"unsupported statement {type(st).__name__}: {ast.unparse(st)[:60]}", st)


def _dotted_of_nat(spec, lean):
    for text, l in spec.nats.items():
        if l == lean:
            return text
    return lean


def read_function(spec, fn_node=None) -> Fn:
    fn = fn_node if fn_node is not None else find_method(find_class(parse(spec.rel), spec.cls), spec.meth)
    if any(isinstance(n, (ast.If, ast.While, ast.Try, ast.Lambda, ast.ListComp, ast.Global, ast.Nonlocal,
                          ast.FunctionDef, ast.AsyncFunctionDef, ast.Yield, ast.Raise))
           for n in ast.walk(fn) if n is not fn):
        bad = [type(n).__name__ for n in ast.walk(fn) if n is not fn and isinstance(
            n, (ast.If, ast.While, ast.Try, ast.Lambda, ast.ListComp, ast.Global, ast.Nonlocal, ast.FunctionDef,
                ast.AsyncFunctionDef, ast.Yield, ast.Raise))]
        raise Unsupported(f"{spec.where}: unsupported construct {bad[0]}")
    r = _Reader(spec)
    r.walk(fn.body)
    if r.ret is None and spec.in_place is None:
        raise Unsupported(f"{spec.where}: no array is returned")
    try:
        src = ast.unparse(fn)
    except Exception:  # pylint: disable=broad-except
        src = ""
    return Fn(spec, r.stmts, r.ret, src)


# ---------------------------------------------------------------------------------------------
# printing
# ---------------------------------------------------------------------------------------------
LEAN_KEYWORDS = {"at", "from", "have", "show", "end", "open", "in", "fun", "let", "do", "then", "else", "if", "by", "with",
                 "match", "where", "instance", "def", "theorem", "local", "section", "namespace", "variable", "universe"}


def lname(n):
    return n + "'" if n in LEAN_KEYWORDS else n


def mask_lean(m, s):
    if m[0] == "ref":
        return lname(m[1])
    if m[0] == "pred":
        p = {"isnan": "Val.isNan", "isfinite": "isfinite"}[m[1]]
        return f"(maskOf {p} ({s}.arr {lname(m[2])}))"
    if m[0] == "not":
        return f"(maskNot {mask_lean(m[1], s)})"
    if m[0] == "flag":
        return f"(flagMask {'true' if m[3] else 'false'} {lname(m[1])} Generated.Constants.{m[2]})"
    raise AssertionError(m)


def render_lean(fn: Fn) -> str:
    sp = fn.spec
    params = [f"({ln} : {ty})" for ln, ty in sp.ufuns.values()]
    params += [f"({lname(n)} : Nat)" for n in sp.nats.values()] + [f"({lname(n)} : Rat)" for n in sp.rats.values()] + ["(ny nx : Nat)"]
    params += [f"({lname(n)} : Nat → Nat → Nat)" for n in sp.ints.values()]
    params += [f"({lname(n)} : Val)" for n in sp.scalars.values()]
    params += [f"({lname(n)} : Nat)" for n in sp.arrays.values()]
    rty = "Store Val × Nat" if fn.ret is not None else "Store Val"
    out = [f"def {fn.lean_name} {' '.join(params)} (s0 : Store Val) : {rty} :="]
    k = 0
    for st in fn.stmts:
        s = f"s{k}"
        if st[0] == "copy":
            out.append(f"  let p{k + 1} := {s}.copy {lname(st[2])}")
            out.append(f"  let s{k + 1} := p{k + 1}.1")
            out.append(f"  let {lname(st[1])} : Nat := p{k + 1}.2")
            k += 1
        elif st[0] == "alias":
            out.append(f"  let {lname(st[1])} : Nat := {lname(st[2])}")
        elif st[0] == "view":
            out.append(f"  let {lname(st[1])} : View := ⟨{lname(st[2])}, {lname(st[3])}⟩")
        elif st[0] == "mask":
            out.append(f"  let {lname(st[1])} : Mask := {mask_lean(st[2], s)}")
        elif st[0] == "fill":
            v = "Val.nan" if st[3][0] == "nan" else lname(st[3][1])
            out.append(f"  let s{k + 1} := {s}.maskFill {lname(st[1])} {mask_lean(st[2], s)} {v}")
            k += 1
        elif st[0] == "mcopy":
            out.append(f"  let s{k + 1} := {s}.maskCopy {lname(st[1])} {mask_lean(st[2], s)} {lname(st[3])}")
            k += 1
        elif st[0] == "blocks":
            _, dst, view, kern, t8name, size = st
            v = lname(view)
            if kern[0] == "reduce":
                kl = f"(windowKernel {sp.reductions[kern[1]]} {v}.w)"
            else:
                wf = kern[1]
                kl = ("(windowFnKernel (" + " ".join([wf.lean_name] + list(wf.ufuns.values()) + [f"{v}.w"] + [lname(a) for a in kern[2]]) + "))")
            out.append(f"  let s{k + 1} := blockedSt ((Generated.Blocks.{t8name} {lname(size)}).plan ({v}.rows ny) ({v}.cols nx) [ny, nx])")
            out.append(f"    {kl} {lname(dst)} {v}.base {s}")
            k += 1
        elif st[0] == "winwidth":
            out.append(f"  let {lname(st[1])} : Nat := Generated.Blocks.{st[2]}WinWidth [ny, nx] {lname(st[3])}")
        elif st[0] == "nathalf":
            num = lname(st[2]) if st[4] == 0 else f"({lname(st[2])} - {st[4]})"
            out.append(f"  let {lname(st[1])} : Nat := {num} / {st[3]}")
        elif st[0] == "table":
            out.append(f"  let {lname(st[1])} : Nat → Nat → Rat := {st[2]} {lname(st[3])} {lname(st[4])}")
        elif st[0] == "call":
            _, tgt, callee, arrs, nats = st[:5]
            rats = st[5] if len(st) > 5 else []
            args = " ".join([ln for ln, _ in callee.spec.ufuns.values()] + [lname(n) for n in nats] + [lname(r) for r in rats]
                            + ["ny nx"] + [lname(a) for a in arrs])
            out.append(f"  let p{k + 1} := {callee.lean_name} {args} {s}")
            out.append(f"  let s{k + 1} := p{k + 1}.1")
            out.append(f"  let {lname(tgt)} : Nat := p{k + 1}.2")
            k += 1
        else:
            raise AssertionError(st)
    out.append(f"  (s{k}, {lname(fn.ret)})" if fn.ret is not None else f"  s{k}")
    return "\n".join(out)


# ---------------------------------------------------------------------------------------------
# exact evaluation of the same statement list
# ---------------------------------------------------------------------------------------------
def arange(start, stop, step):
    return list(range(start, stop, step))


def array_split(length, pts):
    """np.array_split(a, pts) for len(a) = length: (first source index, length) of every chunk (Model/Blocks.lean)"""
    out, st = [], 0
    for p in list(pts) + [length]:
        lo, hi = min(st, length), min(p, length)
        out.append((lo, max(hi - lo, 0)))
        st = p
    return out


def nanmedian(vals):
    xs = sorted(v for v in vals if not is_nan(v))
    if not xs:
        return NAN
    n = len(xs)
    return xs[n // 2] if n % 2 == 1 else (xs[n // 2 - 1] + xs[n // 2]) / 2


REDUCTIONS = {"nanmedian": nanmedian}


class PStore:
    """array identities -> 2-D lists (Fractions / float nan / float ±inf)"""

    def __init__(self, arrays):
        self.arr = {i: [list(r) for r in a] for i, a in enumerate(arrays)}
        self.next = len(arrays)

    def alloc(self, content):
        k = self.next
        self.arr[k] = [list(r) for r in content]
        self.next += 1
        return k


def mask_eval(m, env, store, ny, nx, consts):
    if m[0] == "ref":
        return env[m[1]]
    if m[0] == "pred":
        a = store.arr[env[m[2]]]
        if m[1] == "isnan":
            return [[is_nan(v) for v in row] for row in a]
        return [[not (isinstance(v, float) and (math.isnan(v) or math.isinf(v))) for v in row] for row in a]
    if m[0] == "not":
        return [[not b for b in row] for row in mask_eval(m[1], env, store, ny, nx, consts)]
    if m[0] == "flag":
        f = env[m[1]]
        c = consts[m[2]]
        return [[((int(f[r][c_]) & c) != 0) == m[3] for c_ in range(nx)] for r in range(ny)]
    raise AssertionError(m)


def split_of(t8, size):
    """the literals of one T8 entry for a given window size"""
    def begin(b):
        if b[0] == "lit":
            return b[1]
        if b[0] == "halfm":
            return (size - b[3]) // b[2]
        return size // b[2]
    return {k: t8[k] for k in ("startY", "stepY", "stopYDim", "startX", "stepX", "stopXDim")} | {
        "beginY": begin(t8["beginY"]), "beginX": begin(t8["beginX"])}


def evaluate(fn: Fn, store: PStore, ny, nx, arrays, ints=None, nats=None, scalars=None, consts=None, t8=None, rats=None,
             ufuns=None):
    """run the statement list; `arrays`: lean name -> identity. Returns the identity of the returned array (or None).
    `ufuns`: lean name -> Python callable standing for an uninterpreted function; `rats`: lean name -> number."""
    env = dict(arrays)
    env.update(rats or {})
    ufuns = ufuns or {}
    env.update(ints or {})
    env.update(nats or {})
    env.update(scalars or {})
    consts = consts or {}
    for st in fn.stmts:
        if st[0] == "copy":
            env[st[1]] = store.alloc(store.arr[env[st[2]]])
        elif st[0] == "alias":
            env[st[1]] = env[st[2]]
        elif st[0] == "view":
            env[st[1]] = ("view", env[st[2]], env[st[3]])
        elif st[0] == "mask":
            env[st[1]] = mask_eval(st[2], env, store, ny, nx, consts)
        elif st[0] == "fill":
            m = mask_eval(st[2], env, store, ny, nx, consts)
            v = NAN if st[3][0] == "nan" else env[st[3][1]]
            a = store.arr[env[st[1]]]
            for r in range(ny):
                for c in range(nx):
                    if m[r][c]:
                        a[r][c] = v
        elif st[0] == "mcopy":
            m = mask_eval(st[2], env, store, ny, nx, consts)
            a, b = store.arr[env[st[1]]], store.arr[env[st[3]]]
            vals = [[b[r][c] for c in range(nx)] for r in range(ny)]  # b[mask] is materialised before the store
            for r in range(ny):
                for c in range(nx):
                    if m[r][c]:
                        a[r][c] = vals[r][c]
        elif st[0] == "blocks":
            _, dst, view, kern, t8name, size = st
            _, base, w = env[view]
            sp = split_of(t8[t8name], env[size])
            dims = [ny, nx]
            ly, lx = ny - w + 1, nx - w + 1
            if ly <= 0 or lx <= 0:
                raise ValueError("window larger than the array")
            ychunks = array_split(ly, arange(sp["startY"], dims[sp["stopYDim"]], sp["stepY"]))
            xchunks = array_split(lx, arange(sp["startX"], dims[sp["stopXDim"]], sp["stepX"]))
            d = store.arr[env[dst]]
            yb = sp["beginY"]
            for ys, ylen in ychunks:
                xb = sp["beginX"]
                for xs, xlen in xchunks:
                    b = store.arr[base]  # the view reads what its base holds NOW
                    if kern[0] == "reduce":
                        block = [[REDUCTIONS[kern[1]]([b[ys + i + p][xs + j + q] for p in range(w) for q in range(w)])
                                  for j in range(xlen)] for i in range(ylen)]
                    else:
                        wf, wargs = kern[1], [env[a] for a in kern[2]]
                        block = [[eval_winfn(wf, [[b[ys + i + p][xs + j + q] for q in range(w)] for p in range(w)], w, wargs, ufuns)
                                  for j in range(xlen)] for i in range(ylen)]
                    for i in range(ylen):
                        for j in range(xlen):
                            d[yb + i][xb + j] = block[i][j]
                    xb += xlen
                yb += ylen
        elif st[0] == "winwidth":
            env[st[1]] = min(ny, nx, int(st[4] * env[st[3]] + st[5]))
        elif st[0] == "nathalf":
            env[st[1]] = (env[st[2]] - st[4]) // st[3]
        elif st[0] == "table":
            env[st[1]] = ufuns[st[2]](env[st[3]], env[st[4]])
        elif st[0] == "call":
            _, tgt, callee, arrs, nats_ = st[:5]
            rats_ = st[5] if len(st) > 5 else []
            sub_arrays = dict(zip(callee.spec.arrays.values(), [env[a] for a in arrs]))
            sub_nats = dict(zip(callee.spec.nats.values(), [env[n] for n in nats_]))
            sub_rats = dict(zip(callee.spec.rats.values(), [env[r] for r in rats_]))
            env[tgt] = evaluate(callee, store, ny, nx, sub_arrays, nats=sub_nats, consts=consts, t8=t8, rats=sub_rats, ufuns=ufuns)
        else:
            raise AssertionError(st)
    return env[fn.ret] if fn.ret is not None else None


# ---------------------------------------------------------------------------------------------
# per-window kernels (block kernels written as vectorised numpy over a batch of windows)
# ---------------------------------------------------------------------------------------------
class WinFn:
    """`bilateral_kernel(windows, <params…>)`: a function of ONE w x w window, read from expressions over the 4-D batch

        E ::= windows | <local>
            | np.transpose(np.transpose(E) - np.transpose(windows[:, :, i, j]))      the window minus its cell (i, j)
            | self.<uninterpreted>(E, <rat>)                                         element-wise, NaN-propagating
            | np.multiply(<table>, E) | np.multiply(E, <table>) | <table> * E        (w, w) table broadcast over the batch
            | np.multiply(E, E) | E * E
        return np.nansum(E, axis=(2, 3)) / np.nansum(E, axis=(2, 3))
    """

    def __init__(self, rel, cls, meth, lean_name, params, ufuns):
        self.rel, self.cls, self.meth, self.lean_name = rel, cls, meth, lean_name
        self.params = list(params)  # [(python name, 'table' | 'rat' | 'nat')] after the windows parameter
        self.ufuns = dict(ufuns)  # source text -> lean name
        self.locals, self.ret, self.source, self.win = [], None, "", None

    @property
    def where(self):
        return f"{self.rel}:{self.cls}.{self.meth}"


def read_window_function(wf: WinFn, fn_node=None) -> WinFn:
    fn = fn_node if fn_node is not None else find_method(find_class(parse(wf.rel), wf.cls), wf.meth)
    names = [a.arg for a in fn.args.args if a.arg != "self"]
    if not names or names[1:] != [p for p, _ in wf.params]:
        raise Unsupported(f"{wf.where}: parameters {names}, expected the windows then {[p for p, _ in wf.params]}")
    wf.win = names[0]
    kinds = dict(wf.params)
    bound = set()

    def bad(msg, node=None):
        line = f" (line {node.lineno})" if node is not None and hasattr(node, "lineno") else ""
        raise Unsupported(f"{wf.where}: {msg}{line}")

    def is_t(node, inner):
        return isinstance(node, ast.Call) and _is_np(node.func, "transpose") and len(node.args) == 1 and not node.keywords and inner(node.args[0])

    def expr(node):
        if isinstance(node, ast.Name):
            if node.id == wf.win or node.id in bound:
                return ("var", node.id)
            bad(f"unknown array {node.id}", node)
        if isinstance(node, ast.Call) and _is_np(node.func, "transpose") and len(node.args) == 1 and not node.keywords:
            d = node.args[0]
            if isinstance(d, ast.BinOp) and isinstance(d.op, ast.Sub) and is_t(d.left, lambda _: True) and is_t(d.right, lambda _: True):
                e = expr(d.left.args[0])
                c = d.right.args[0]
                if (isinstance(c, ast.Subscript) and isinstance(c.value, ast.Name) and c.value.id == wf.win and isinstance(c.slice, ast.Tuple)
                        and len(c.slice.elts) == 4 and all(isinstance(x, ast.Slice) and x.lower is None and x.upper is None and x.step is None
                                                            for x in c.slice.elts[:2])
                        and all(isinstance(x, ast.Name) and kinds.get(x.id) == "nat" for x in c.slice.elts[2:])):
                    return ("subc", e, c.slice.elts[2].id, c.slice.elts[3].id)
            bad("unsupported transpose expression", node)
        if isinstance(node, ast.Call) and _dotted(node.func) in wf.ufuns and len(node.args) == 2 and not node.keywords:
            if not (isinstance(node.args[1], ast.Name) and kinds.get(node.args[1].id) == "rat"):
                bad(f"second argument of {_dotted(node.func)} is not a float parameter", node)
            return ("ufun", wf.ufuns[_dotted(node.func)], expr(node.args[0]), node.args[1].id)
        pair = None
        if isinstance(node, ast.Call) and _is_np(node.func, "multiply") and len(node.args) == 2 and not node.keywords:
            pair = node.args
        elif isinstance(node, ast.BinOp) and isinstance(node.op, ast.Mult):
            pair = [node.left, node.right]
        if pair:
            tabs = [isinstance(x, ast.Name) and kinds.get(x.id) == "table" for x in pair]
            if tabs == [True, False]:
                return ("mulk", pair[0].id, expr(pair[1]))
            if tabs == [False, True]:
                return ("mulk", pair[1].id, expr(pair[0]))
            if tabs == [False, False]:
                return ("mul", expr(pair[0]), expr(pair[1]))
        bad(f"unsupported expression {ast.unparse(node)[:60]}", node)
        return None

    def nansum(node):
        if isinstance(node, ast.Call) and _is_np(node.func, "nansum") and len(node.args) == 1:
            kws = {k.arg: k.value for k in node.keywords}
            ax = kws.get("axis")
            if set(kws) == {"axis"} and isinstance(ax, ast.Tuple) and [getattr(e, "value", None) for e in ax.elts] == [2, 3]:
                return expr(node.args[0])
        bad(f"expected np.nansum(<E>, axis=(2, 3)), got {ast.unparse(node)[:50]}", node)
        return None

    for st in fn.body:
        if wf.ret is not None:
            bad("statement after return", st)
        if isinstance(st, ast.Expr) and isinstance(st.value, ast.Constant) and isinstance(st.value.value, str):
            continue
        if isinstance(st, ast.Expr) and isinstance(st.value, ast.Call) and _dotted(st.value.func) == "warnings.filterwarnings":
            continue
        if isinstance(st, ast.Delete):
            continue  # the names are not used afterwards (a use would be an unknown array: refused)
        if isinstance(st, ast.Assign) and len(st.targets) == 1 and isinstance(st.targets[0], ast.Name):
            n = st.targets[0].id
            if n in bound or n in kinds or n == wf.win:
                bad(f"{n} rebound", st)
            wf.locals.append((n, expr(st.value)))
            bound.add(n)
            continue
        if isinstance(st, ast.Return) and isinstance(st.value, ast.BinOp) and isinstance(st.value.op, ast.Div):
            wf.ret = (nansum(st.value.left), nansum(st.value.right))
            continue
        bad(f"unsupported statement {ast.unparse(st)[:60]}", st)
    if wf.ret is None:
        bad("no return")
    try:
        wf.source = ast.unparse(fn)
    except Exception:  # pylint: disable=broad-except
        wf.source = ""
    return wf


def _wl(e):
    if e[0] == "var":
        return f"{lname(e[1])} a b"
    if e[0] == "subc":
        return f"({_wl(e[1])} - WIN {lname(e[2])} {lname(e[3])})"
    if e[0] == "ufun":
        return f"({_wl(e[2])}).map (fun d => {e[1]} d {lname(e[3])})"
    if e[0] == "mulk":
        return f"(Val.num ({lname(e[1])} a b) * ({_wl(e[2])}))"
    if e[0] == "mul":
        return f"(({_wl(e[1])}) * ({_wl(e[2])}))"
    raise AssertionError(e)


def render_winfn(wf: WinFn) -> str:
    ty = {"table": "Nat → Nat → Rat", "rat": "Rat", "nat": "Nat"}
    params = [f"({ln} : Rat → Rat → Rat)" for ln in wf.ufuns.values()] + ["(w : Nat)"]
    params += [f"({lname(p)} : {ty[k]})" for p, k in wf.params] + [f"({lname(wf.win)} : Nat → Nat → Val)"]
    out = [f"def {wf.lean_name} {' '.join(params)} : Val :="]
    for n, e in wf.locals:
        out.append(f"  let {lname(n)} : Nat → Nat → Val := fun a b => {_wl(e).replace('WIN', lname(wf.win))}")
    num, den = wf.ret
    out.append(f"  nandiv (nansumW w (fun a b => {_wl(num).replace('WIN', lname(wf.win))})) "
               f"(nansumW w (fun a b => {_wl(den).replace('WIN', lname(wf.win))}))")
    return "\n".join(out)


def eval_winfn(wf: WinFn, win, w, args, ufuns):
    """one window (w x w nested list of floats / nan) -> the kernel's value, in float64 like numpy"""
    env = dict(zip([p for p, _ in wf.params], args))
    arrays = {wf.win: win}

    def cell(e, a, b):
        if e[0] == "var":
            return arrays[e[1]][a][b]
        if e[0] == "subc":
            return cell(e[1], a, b) - win[env[e[2]]][env[e[3]]]
        if e[0] == "ufun":
            v = cell(e[2], a, b)
            return v if is_nan(v) else ufuns[e[1]](v, env[e[3]])
        if e[0] == "mulk":
            return env[e[1]][a][b] * cell(e[2], a, b)
        return cell(e[1], a, b) * cell(e[2], a, b)

    for n, e in wf.locals:
        arrays[n] = [[cell(e, a, b) for b in range(w)] for a in range(w)]

    def nansum(e):
        return math.fsum(v for a in range(w) for b in range(w) for v in [cell(e, a, b)] if not is_nan(v))

    num, den = nansum(wf.ret[0]), nansum(wf.ret[1])
    if den == 0:
        return NAN if num == 0 else math.copysign(math.inf, num)
    return num / den
