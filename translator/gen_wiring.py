"""T7: the data-flow wiring of the run callbacks of PandoraMachine -> Generated/Wiring.lean

For `matching_cost_prepare`, every `<step>_run` and `run_multiscale`, the ordered list of effects
(assignments and in-place method calls on machine attributes), split into
  * `left`  : the unconditional part,
  * `right` : the part guarded by `if self.right_disp_map == "cross_checking_accurate":`
              (nested `if "interpolated_disparity" in cfg[...]` blocks are flattened and marked optional),
  * `after` : statements following the guarded block.
An effect is `{targets, fn, args}`: `targets` are the machine attributes written (assignment targets, or
the argument a method mutates in place according to MUTATES below), `fn` names the operation and `args`
the machine attributes read.  Step objects (`aggregation_ = aggregation.AbstractAggregation(**cfg...)`)
are configuration-only values: their construction is recorded in `ctors` with the image attributes it
receives, and they do not appear among `args`.

Anything else (an unknown statement form, a call on an unknown object, a write to an attribute from an
unexpected place) raises Unsupported.
"""
from __future__ import annotations

import ast

from .common import Unsupported, digest, find_class, find_method, lean_list, lean_str, parse, write_if_changed

NAME = "Wiring"
SRC = "pandora/state_machine.py"
RUN_SRC = "pandora/__init__.py"

CALLBACKS = [
    "matching_cost_prepare", "matching_cost_run", "aggregation_run", "semantic_segmentation_run",
    "optimization_run", "disparity_run", "filter_run", "refinement_run", "validation_run",
    "run_multiscale", "cost_volume_confidence_run",
]

# methods that return nothing and modify one of their arguments in place: method -> index of that argument
MUTATES = {
    "cost_volume_aggregation": 2,
    "cv_masked": 2,
    "filter_disparity": 0,
    "subpixel_refinement": 1,
    "interpolated_disparity": 0,
}
GUARD = "self.right_disp_map == 'cross_checking_accurate'"


def self_attrs(node: ast.AST):
    """machine attributes read in an expression, in source order (left to right)"""
    out = []

    def visit(n):
        if isinstance(n, ast.Attribute) and isinstance(n.value, ast.Name) and n.value.id == "self":
            out.append(n.attr)
            return
        for ch in ast.iter_child_nodes(n):
            visit(ch)

    visit(node)
    return out


class CallbackTranslator:
    def __init__(self, fn: ast.FunctionDef):
        self.fn = fn
        self.locals = {}  # local step objects: name -> (class expr, image attrs given to the constructor)
        self.ctors = []

    def effect(self, stmt: ast.stmt, optional=False):
        """translate one statement into an effect dict, or None when it has no effect on the data flow"""
        src = ast.unparse(stmt)
        if isinstance(stmt, ast.Expr) and isinstance(stmt.value, ast.Constant):
            return None  # docstring
        if isinstance(stmt, ast.Expr) and isinstance(stmt.value, ast.Call) and src.startswith("logging."):
            return None
        if isinstance(stmt, ast.Assign) and len(stmt.targets) == 1:
            tgt, val = stmt.targets[0], stmt.value
            # cfg["pipeline"][input_step]["indicator"] = ...   (configuration bookkeeping, side-neutral)
            if isinstance(tgt, ast.Subscript) and ast.unparse(tgt).startswith("cfg["):
                if self_attrs(val):
                    raise Unsupported(f"{self.fn.name}: configuration written from machine data: {src}")
                return None
            # local step object
            if isinstance(tgt, ast.Name):
                if isinstance(val, ast.Call) and ".Abstract" in ast.unparse(val.func):
                    self.locals[tgt.id] = ast.unparse(val.func)
                    self.ctors.append((tgt.id, ast.unparse(val.func), self_attrs(val)))
                    return None
                raise Unsupported(f"{self.fn.name}: unsupported local assignment {src}")
            targets = []
            if isinstance(tgt, ast.Tuple):
                for e in tgt.elts:
                    if not (isinstance(e, ast.Attribute) and ast.unparse(e.value) == "self"):
                        raise Unsupported(f"{self.fn.name}: unsupported target {src}")
                    targets.append(e.attr)
            elif isinstance(tgt, ast.Attribute) and ast.unparse(tgt.value) == "self":
                targets.append(tgt.attr)
            else:
                raise Unsupported(f"{self.fn.name}: unsupported target {src}")
            return self.value_effect(targets, val, src, optional)
        if isinstance(stmt, ast.Expr) and isinstance(stmt.value, ast.Call):
            call = stmt.value
            meth = call.func.attr if isinstance(call.func, ast.Attribute) else None
            if meth in MUTATES:
                self.check_receiver(call, src)
                args = [a for a in call.args]
                idx = MUTATES[meth]
                if idx >= len(args):
                    raise Unsupported(f"{self.fn.name}: {src}: mutated argument missing")
                t = args[idx]
                if not (isinstance(t, ast.Attribute) and ast.unparse(t.value) == "self"):
                    raise Unsupported(f"{self.fn.name}: {src}: mutated argument is not a machine attribute")
                reads = []
                for a in call.args:
                    reads += self_attrs(a)
                return {"targets": [t.attr], "fn": meth, "args": reads, "optional": optional}
            raise Unsupported(f"{self.fn.name}: unsupported call statement {src}")
        raise Unsupported(f"{self.fn.name}: unsupported statement {src[:100]}")

    def check_receiver(self, call: ast.Call, src: str):
        f = call.func
        if isinstance(f, ast.Attribute):
            recv = ast.unparse(f.value)
            if recv in self.locals or recv == "self.matching_cost_":
                return
            if recv.startswith("self.") and f.attr == "pop":
                return
        elif isinstance(f, ast.Name) and f.id in ("validity_mask",):
            return
        raise Unsupported(f"{self.fn.name}: call on an unknown receiver: {src}")

    def value_effect(self, targets, val, src, optional):
        if isinstance(val, ast.Constant) and val.value is None:
            return {"targets": targets, "fn": "None", "args": [], "optional": optional}
        if isinstance(val, ast.Call):
            self.check_receiver(val, src)
            f = val.func
            if isinstance(f, ast.Attribute) and f.attr == "pop":
                src_attr = self_attrs(f.value)
                if len(src_attr) != 1 or ast.unparse(val.args[0]) != "0":
                    raise Unsupported(f"{self.fn.name}: unsupported pop {src}")
                # pop(0) returns the head and removes it from the list attribute
                return {"targets": targets + src_attr, "fn": "pop0", "args": src_attr, "optional": optional}
            if isinstance(f, ast.Attribute) and ast.unparse(f.value) == "matching_cost.AbstractMatchingCost":
                pass
            name = f.attr if isinstance(f, ast.Attribute) else f.id
            reads = []
            for a in val.args:
                reads += self_attrs(a)
            for k in val.keywords:
                reads += self_attrs(k.value)
            return {"targets": targets, "fn": name, "args": reads, "optional": optional}
        if isinstance(val, ast.BinOp):
            ops = {ast.Mult: "mul", ast.Sub: "sub", ast.Add: "add", ast.Div: "div"}
            for k, nm in ops.items():
                if isinstance(val.op, k):
                    consts = [ast.unparse(x) for x in (val.left, val.right) if not self_attrs(x)]
                    return {"targets": targets, "fn": nm + ("(" + ",".join(consts) + ")" if consts else ""),
                            "args": self_attrs(val), "optional": optional}
        raise Unsupported(f"{self.fn.name}: unsupported value {src}")

    def translate(self):
        left, right, after = [], [], []
        seen_guard = False
        for stmt in self.fn.body:
            if isinstance(stmt, ast.If) and ast.unparse(stmt.test) == GUARD:
                if seen_guard or stmt.orelse:
                    raise Unsupported(f"{self.fn.name}: unexpected guard structure")
                seen_guard = True
                for sub in stmt.body:
                    if isinstance(sub, ast.If):
                        test = ast.unparse(sub.test)
                        if not test.startswith("'interpolated_disparity' in cfg[") or sub.orelse:
                            raise Unsupported(f"{self.fn.name}: unsupported nested condition {test}")
                        for s2 in sub.body:
                            e = self.effect(s2, optional=True)
                            if e:
                                right.append(e)
                    else:
                        e = self.effect(sub)
                        if e:
                            right.append(e)
                continue
            if isinstance(stmt, ast.If):
                # a condition on the configuration only, whose body only does configuration bookkeeping
                if not self_attrs(stmt.test) and not stmt.orelse and all(self.effect(s2) is None for s2 in stmt.body):
                    continue
                raise Unsupported(f"{self.fn.name}: unsupported condition {ast.unparse(stmt.test)}")
            # self.matching_cost_ = matching_cost.AbstractMatchingCost(**cfg[...]) : configuration-only object
            if ast.unparse(stmt).startswith("self.matching_cost_ = matching_cost.AbstractMatchingCost("):
                self.ctors.append(("self.matching_cost_", "matching_cost.AbstractMatchingCost", self_attrs(stmt.value)))
                continue
            e = self.effect(stmt)
            if e:
                (after if seen_guard else left).append(e)
        return {"name": self.fn.name, "left": left, "right": right, "after": after, "ctors": self.ctors}


def run_prepare_intervals(cls):
    """how run_prepare derives the right interval when it is not given: must be (-max, -min)"""
    fn = find_method(cls, "run_prepare")
    stmts = {ast.unparse(s) for s in ast.walk(fn) if isinstance(s, ast.Assign)}
    single = ("self.right_disp_min = -left_img['disparity'].sel(band_disp='max').data" in stmts
              and "self.right_disp_max = -left_img['disparity'].sel(band_disp='min').data" in stmts)
    multi = ("self.right_disp_min = -self.disp_max" in stmts and "self.right_disp_max = -self.disp_min" in stmts)
    user = ("self.dmin_user_right = self.right_disp_min" in stmts and "self.dmax_user_right = self.right_disp_max" in stmts
            and "self.dmin_user = self.disp_min" in stmts and "self.dmax_user = self.disp_max" in stmts)
    # the downscaling must commute with negation (true division does, floor division does not)
    down = ("self.disp_min = left_img['disparity'].sel(band_disp='min') / self.scale_factor ** self.num_scales" in stmts
            and "self.disp_max = left_img['disparity'].sel(band_disp='max') / self.scale_factor ** self.num_scales" in stmts
            and "self.disp_min = left_img['disparity'].sel(band_disp='min').data" in stmts
            and "self.disp_max = left_img['disparity'].sel(band_disp='max').data" in stmts)
    return {"single_scale_negated_swapped": single, "multi_scale_negated_swapped": multi, "user_copies": user and down}


def extract():
    mod = parse(SRC)
    cls = find_class(mod, "PandoraMachine")
    cbs = [CallbackTranslator(find_method(cls, name)).translate() for name in CALLBACKS]
    return {"callbacks": cbs, "prepare": run_prepare_intervals(cls)}


def lean_effect(e) -> str:
    return "{ targets := %s, fn := %s, args := %s, optional := %s }" % (
        lean_list(map(lean_str, e["targets"])), lean_str(e["fn"]), lean_list(map(lean_str, e["args"])),
        "true" if e["optional"] else "false")


def render(data) -> str:
    out = [
        "-- GENERATED by translator/gen_wiring.py from pandora/state_machine.py. Do not edit.",
        "import PandoraModel.Model.Wiring",
        "",
        "namespace Pandora.Generated.Wiring",
        "open Pandora.Wiring",
        "",
        "def callbacks : List Callback := [",
    ]
    rows = []
    for cb in data["callbacks"]:
        rows.append(
            "  { name := %s,\n    left := %s,\n    right := %s,\n    after := %s,\n    ctorImages := %s }"
            % (lean_str(cb["name"]),
               lean_list(lean_effect(e) for e in cb["left"]),
               lean_list(lean_effect(e) for e in cb["right"]),
               lean_list(lean_effect(e) for e in cb["after"]),
               lean_list(lean_list(map(lean_str, c[2])) for c in cb["ctors"])))
    out.append(",\n".join(rows))
    out.append("]")
    out.append("")
    p = data["prepare"]
    out.append("/-- run_prepare: the right interval, when not given, is (-max, -min) of the left one -/")
    out.append("def prepareRightIntervalNegatedSwapped : Bool := %s" % ("true" if p["single_scale_negated_swapped"] and p["multi_scale_negated_swapped"] and p["user_copies"] else "false"))
    out.append("")
    out.append("end Pandora.Generated.Wiring")
    return "\n".join(out) + "\n"


def generate():
    data = extract()
    write_if_changed("Wiring.lean", render(data))
    return {"T7": {"source": SRC, "digest": digest(SRC), "callbacks": len(data["callbacks"])}}
