"""T12 + T15 (glue of cbca): the numpy glue AROUND the numba kernels of pandora/aggregation/cbca.py, read statement by
statement on every run -> Generated/KernelsCbcaGlue.lean.

    CrossBasedCostAggregation.cost_volume_aggregation   (symbolic execution of the method body)
        scalar decisions, through translator/pyexpr.py (glue mode with `%` and `&`):
          iRight       the index of the shifted right cross support          `int((disparity_range[dsp] % 1) * subpixel)`
          facingMask   the test `np.where` is applied to, per column          `(range_col_right >= 0) & (… < cross_right[i].shape[1])`
          leftCol      the element of `range_col[valid_index]`
          facingCol    the element of `range_col_right[valid_index].astype(int)`
          cvCrop* / writeBack*   test and slice bounds of the `offset` crop of the cost volume and of the final store
          cmaxUpdate   the new `cmax`
        dataflow of one iteration of the disparity loop (which arrays feed cbca_step_1..4, `sum4 += 1`, `+=` and `/=` on
        `agg[dsp]`, every shape agreement tested) -> `aggPlane`; the initial content of `agg` -> `aggInit`
    CrossBasedCostAggregation.computes_cross_supports
          prepLeft / prepRight   the ORDER and PRESENCE of the preparation statements of the image handed to `cross_support`
                                 (copy, mask -> NaN, shifted mask, 3x3 median, NaN -> inf), each statement pinned by its text
          leftCrop* / rightCrop* test and slice bounds of the crop applied to the left / to EVERY shifted right image

`Properties/C11KernelsGlue.lean` proves these equal, for all inputs, to what `Model/Cbca.lean` says.  The same readings are
evaluated exactly (`evaluate_plane`, `evaluate_crop`, pyexpr's evaluator) against the real functions by harness/props/C11.py.
Anything outside the forms read here raises `Unsupported` (the obligation cannot be regenerated: DESIGN.md §6).
"""
from __future__ import annotations

import ast
import copy
from fractions import Fraction

from . import pyexpr, pyloops, pyscan
from .common import Unsupported, digest, find_class, find_method, parse, read_source, write_if_changed
from .gen_kernels import lean_value, module_aliases
from .pyexpr import BOOL, INT, RAT

NAME = "KernelsCbcaGlue"
SRC = "pandora/aggregation/cbca.py"
CLS = "CrossBasedCostAggregation"
NAN = pyloops.FNAN

# atoms of the scalar kernels: (source text, Lean parameter, type)
A_X = ("__x", "x", INT)            # one element of `np.arange(0, n)`
A_D = ("__d", "d", RAT)            # disparity_range[dsp]  (a float that is not NaN)
A_SUBPIX = ("__subpix", "subpix", INT)  # cv.attrs["subpixel"]
A_WR = ("__wr", "wr", INT)         # cross_right[i].shape[1]
A_OFFSET = ("__offset", "offset", INT)  # int(cv.attrs["offset_row_col"])
A_CMAX = ("__cmax", "cmax", RAT)   # cv.attrs["cmax"]
A_DIST = ("__dist", "dist", INT)   # self._cbca_distance
A_SHIFT = ("__shift", "shift", INT)  # index of the shifted right image


def u(node) -> str:
    return ast.unparse(node)


def name(s: str) -> ast.Name:
    return ast.Name(id=s, ctx=ast.Load())


class Sub(ast.NodeTransformer):
    """replace sub-expressions by their unparsed text"""

    def __init__(self, table):
        self.table = table

    def visit(self, node):
        if isinstance(node, ast.expr):
            key = u(node)
            if key in self.table:
                return copy.deepcopy(self.table[key])
        return super().generic_visit(node)


def subst(node, table):
    return Sub(table).visit(copy.deepcopy(node))


def scalar_kernel(node, lean_name, atoms, what):
    try:
        k = pyexpr.translate_expression(node, lean_name, atoms, source_text=None, py_name=what, modulo=True)
    except Unsupported as exc:
        raise Unsupported(f"{SRC}: {what}: `{u(node)}`: {exc}") from exc
    if k.partial:
        raise Unsupported(f"{SRC}: {what}: `{u(node)}` divides")
    k.origin = what
    return k


# ------------------------------------------------------------------------------------------------
# crop sites:  `if <test(offset)>: T(X[lo:hi, lo:hi]) else: T(X)`   or the unconditional forms
# ------------------------------------------------------------------------------------------------
class Crop:
    """test (None = unconditional), and the four slice bounds (None = the whole array in every case)"""

    def __init__(self, site, test, bounds, atoms):
        self.site, self.test, self.bounds, self.atoms = site, test, bounds, atoms

    def kernels(self):
        out = {}
        t = self.test if self.test is not None else ast.Constant(value=True)
        if self.bounds is None:
            t = ast.Compare(left=ast.Constant(value=0), ops=[ast.Eq()], comparators=[ast.Constant(value=1)])
        out[f"{self.site}Test"] = scalar_kernel(t if not isinstance(t, ast.Constant) else
                                                ast.Compare(left=ast.Constant(value=0), ops=[ast.Eq()], comparators=[ast.Constant(value=0)]),
                                                f"{self.site}Test", self.atoms, f"{self.site}: test of the crop")
        for nm, b, default in zip(("RowLo", "RowHi", "ColLo", "ColHi"), self.bounds or [None] * 4, (0, None, 0, None)):
            if b is None:
                # an omitted bound: `[:hi]` starts at 0; `[lo:]` ends at the extent — rendered as a huge literal is wrong,
                # so omitted upper bounds are refused below (never used by the source)
                if default is None and self.bounds is not None:
                    raise Unsupported(f"{SRC}: {self.site}: a slice without upper bound")
                b = ast.Constant(value=0)
            k = scalar_kernel(b, f"{self.site}{nm}", self.atoms, f"{self.site}: slice bound")
            if k.ret_types != [INT]:
                raise Unsupported(f"{SRC}: {self.site}: slice bound `{u(b)}` is not an integer")
            out[f"{self.site}{nm}"] = k
        if out[f"{self.site}Test"].ret_types != [BOOL]:
            raise Unsupported(f"{SRC}: {self.site}: the test of the crop is not a boolean")
        return out


def slice2(sub: ast.Subscript, site):
    """`X[a:b, c:d]` -> (X, [a, b, c, d])"""
    sl = sub.slice
    if not (isinstance(sl, ast.Tuple) and len(sl.elts) == 2 and all(isinstance(e, ast.Slice) for e in sl.elts)):
        raise Unsupported(f"{SRC}: {site}: `{u(sub)}` is not a 2-D slice `X[a:b, c:d]`")
    bounds = []
    for e in sl.elts:
        if e.step is not None or e.lower is None or e.upper is None:
            raise Unsupported(f"{SRC}: {site}: slice `{u(sub)}` has a step or an omitted bound")
        bounds += [e.lower, e.upper]
    return sub.value, bounds


def read_crop(site, stmt, unwrap, table, atoms):
    """`stmt` is an `if` with one statement per branch, or a single statement.  `unwrap(statement)` returns the expression
    that is the (possibly sliced) array, or raises.  Returns (Crop, text of the array variable)."""
    def one(st):
        e = unwrap(st)
        if isinstance(e, ast.Subscript):
            base, bounds = slice2(e, site)
            return u(base), [subst(b, table) for b in bounds]
        return u(e), None

    if isinstance(stmt, ast.If):
        if len(stmt.body) != 1 or len(stmt.orelse) != 1:
            raise Unsupported(f"{SRC}: {site}: the branches of `if {u(stmt.test)}` hold more than one statement")
        (b1, s1), (b2, s2) = one(stmt.body[0]), one(stmt.orelse[0])
        if b1 != b2:
            raise Unsupported(f"{SRC}: {site}: the two branches use different arrays `{b1}` / `{b2}`")
        test = subst(stmt.test, table)
        if s1 is not None and s2 is None:
            return Crop(site, test, s1, atoms), b1
        if s1 is None and s2 is not None:
            return Crop(site, ast.UnaryOp(op=ast.Not(), operand=test), s2, atoms), b1
        raise Unsupported(f"{SRC}: {site}: expected one sliced and one whole-array branch")
    b, s = one(stmt)
    return Crop(site, None, s, atoms), b


# ------------------------------------------------------------------------------------------------
# cost_volume_aggregation: symbolic execution
# ------------------------------------------------------------------------------------------------
class V:
    def __init__(self, kind, **kw):
        self.kind = kind
        self.__dict__.update(kw)


class Plane:
    """the dataflow of one iteration of the disparity loop: Lean lines + the same statements for the evaluator"""

    def __init__(self):
        self.lines = []   # Lean text of the body of `aggPlane` (after the fixed prologue)
        self.prog = []    # evaluator statements
        self.n = 0

    def fresh(self, base):
        self.n += 1
        return f"{pyexpr.lean_ident(base)}_{self.n}"


STEP_ARGS = {"cbca_step_1": ["plane"], "cbca_step_2": ["plane", "arms", "armsel", "cols", "cols"], "cbca_step_3": ["plane"],
             "cbca_step_4": ["plane", "plane", "arms", "armsel", "cols", "cols"]}
STEP_LEAN = {"cbca_step_1": "cbcaStep1", "cbca_step_2": "cbcaStep2", "cbca_step_3": "cbcaStep3", "cbca_step_4": "cbcaStep4"}
STEP_NRET = {"cbca_step_1": 1, "cbca_step_2": 2, "cbca_step_3": 1, "cbca_step_4": 2}


class Aggregation:
    """reads `cost_volume_aggregation`"""

    def __init__(self, fn, numpy_names):
        self.fn, self.np = fn, set(numpy_names)
        self.env = {}
        self.scal = {}          # scalar locals: name -> AST over atoms
        self.kernels = {}
        self.plane = Plane()
        self.roles = {}
        self.init_ops = []      # pointwise statements on `agg` before the loop
        self.cv_crop = self.write_back = None
        self.loop_seen = False
        self.after = []

    # ---- helpers
    def bad(self, st, why=""):
        raise Unsupported(f"{SRC}: cost_volume_aggregation: statement `{u(st).splitlines()[0]}` is outside the subset{': ' + why if why else ''}")

    def is_np(self, node, attr):
        return isinstance(node, ast.Attribute) and isinstance(node.value, ast.Name) and node.value.id in self.np and node.attr == attr

    def table(self, extra=None):
        t = {"int(cv.attrs['offset_row_col'])": name("__offset"), "cv.attrs['subpixel']": name("__subpix"),
             "cv.attrs['cmax']": name("__cmax"), "self._cbca_distance": name("__dist")}
        for k, v in self.scal.items():
            t[k] = v
        t.update(extra or {})
        return t

    def scalar(self, node, extra=None):
        """inline the scalar locals and the declared atoms"""
        out = node
        for _ in range(8):  # locals defined from locals
            new = subst(out, self.table(extra))
            if u(new) == u(out):
                break
            out = new
        return out

    # ---- the method
    def run(self):
        a = self.fn.args
        if [x.arg for x in a.args] != ["self", "img_left", "img_right", "cv"] or a.vararg or a.kwonlyargs or a.defaults:
            raise Unsupported(f"{SRC}: cost_volume_aggregation: unexpected parameters")
        body = [s for s in self.fn.body if not (isinstance(s, ast.Expr) and isinstance(s.value, ast.Constant))]
        for st in body:
            if self.loop_seen:
                self.post(st)
            else:
                self.pre(st)
        if not self.loop_seen:
            raise Unsupported(f"{SRC}: cost_volume_aggregation: no loop over the disparities")
        if self.write_back is None:
            raise Unsupported(f"{SRC}: cost_volume_aggregation: the aggregated volume is not stored into the cost volume")
        return self

    def pre(self, st):  # noqa: C901
        env = self.env
        if isinstance(st, ast.Assign) and len(st.targets) == 1:
            tgt, val = st.targets[0], st.value
            if isinstance(tgt, ast.Tuple) and u(val) == "self.computes_cross_supports(img_left, img_right, cv)" \
                    and len(tgt.elts) == 2 and all(isinstance(e, ast.Name) for e in tgt.elts):
                env[tgt.elts[0].id] = V("arms")
                env[tgt.elts[1].id] = V("armslist")
                return
            if isinstance(tgt, ast.Tuple) and isinstance(val, ast.Attribute) and val.attr == "shape" and isinstance(val.value, ast.Name) \
                    and env.get(val.value.id, V("")).kind == "vol" and len(tgt.elts) == 3 and all(isinstance(e, ast.Name) for e in tgt.elts):
                for i, e in enumerate(tgt.elts):
                    env[e.id] = V("dim", of=val.value.id, axis=i, perm=env[val.value.id].perm)
                return
            if isinstance(tgt, ast.Name):
                if u(val) == "cv.coords['disp'].data":
                    env[tgt.id] = V("disps")
                    return
                if isinstance(val, ast.Call) and self.is_np(val.func, "arange") and len(val.args) == 2 and not val.keywords \
                        and u(val.args[0]) == "0" and isinstance(val.args[1], ast.Name) and env.get(val.args[1].id, V("")).kind == "dim":
                    env[tgt.id] = V("vec", node=name("__x"), n=env[val.args[1].id])
                    return
                if isinstance(val, ast.Call) and self.is_np(val.func, "zeros") and val.args and isinstance(val.args[0], ast.Tuple) \
                        and len(val.args[0].elts) == 3 and [k.arg for k in val.keywords] in ([], ["dtype"]) \
                        and (not val.keywords or u(val.keywords[0].value) in [f"{n}.float32" for n in self.np]):
                    dims = []
                    for e in val.args[0].elts:
                        if not (isinstance(e, ast.Name) and env.get(e.id, V("")).kind == "dim"):
                            self.bad(st, "extents that are not dimensions of the cost volume")
                        dims.append(env[e.id])
                    if hasattr(self, "agg_name") and self.agg_name != tgt.id:
                        self.bad(st, "a second zero-initialised volume")
                    env[tgt.id] = V("agg", dims=dims)
                    self.agg_name = tgt.id
                    self.init_ops = []  # a fresh array of zeros: whatever was accumulated before is gone
                    return
                # a scalar local
                try:
                    node = self.scalar(val)
                    pyexpr.translate_expression(node, "probe", [A_OFFSET, A_SUBPIX, A_CMAX, A_DIST], py_name="scalar", modulo=True)
                    self.scal[tgt.id] = node
                    env[tgt.id] = V("scalar")
                    return
                except Unsupported:
                    pass
            self.bad(st)
        if isinstance(st, ast.If):  # cv_data = cv["cost_volume"].data[...]  |  cv["cost_volume"].data
            def unwrap(s):
                if isinstance(s, ast.Assign) and len(s.targets) == 1 and isinstance(s.targets[0], ast.Name):
                    self._cvd = s.targets[0].id
                    return s.value
                self.bad(s)
            crop, base = read_crop("cvCrop", st, unwrap, self.table(), [A_OFFSET])
            if base != "cv['cost_volume'].data":
                self.bad(st, f"the cropped array is `{base}`")
            self.cv_crop = crop
            env[self._cvd] = V("vol", perm=(0, 1, 2))
            self.cvd_name = self._cvd
            return
        if isinstance(st, ast.AugAssign) and isinstance(st.target, ast.Name) and env.get(st.target.id, V("")).kind == "agg":
            op = {ast.Add: "add", ast.Mult: "mul"}.get(type(st.op))
            if op is None:
                self.bad(st)
            v = st.value
            if isinstance(v, ast.Constant) and isinstance(v.value, (int, float)) and not isinstance(v.value, bool):
                self.init_ops.append((op, "lit", Fraction(v.value)))
                return
            if isinstance(v, ast.Call) and self.is_np(v.func, "swapaxes") and len(v.args) == 3 and isinstance(v.args[0], ast.Name) \
                    and env.get(v.args[0].id, V("")).kind == "vol" and sorted(u(x) for x in v.args[1:]) == ["0", "2"]:
                dims = env[st.target.id].dims
                # shape agreement: agg is (d0, d1, d2), swapaxes(cv_data, 0, 2) is (cv_n2, cv_n1, cv_n0)
                if [d.axis for d in dims] != [2, 1, 0]:
                    self.bad(st, "the shapes of the two volumes differ")
                self.init_ops.append((op, "cvT", None))
                return
            self.bad(st)
        if isinstance(st, ast.For):
            self.loop(st)
            self.loop_seen = True
            return
        self.bad(st)

    # ---- the disparity loop: one iteration
    def loop(self, st):  # noqa: C901
        if st.orelse or not (isinstance(st.target, ast.Name) and isinstance(st.iter, ast.Call) and u(st.iter.func) == "range"
                             and len(st.iter.args) == 1 and isinstance(st.iter.args[0], ast.Name)):
            self.bad(st)
        nd = self.env.get(st.iter.args[0].id, V(""))
        if not (nd.kind == "dim" and nd.axis == 2):
            self.bad(st, "the loop does not run over the disparity axis of the cost volume")
        if not hasattr(self, "agg_name") or [d.axis for d in self.env[self.agg_name].dims] != [2, 1, 0]:
            self.bad(st, "`agg` is not the (disp, col, row) volume")
        self.dsp = st.target.id
        P = self.plane
        env = self.env
        # what may be read in the loop: loop-invariant names bound before it, and names assigned EARLIER in the same iteration
        assigned = set()
        for s in st.body:
            for n in ast.walk(s):
                if isinstance(n, ast.Name) and isinstance(n.ctx, ast.Store):
                    if n.id == self.dsp or n.id in env:
                        self.bad(s, f"`{n.id}` is rebound inside the loop")
                    assigned.add(n.id)
        self.local = {}
        for s in st.body:
            self.body_stmt(s)
        if "rc" not in self.roles or not P.prog or P.prog[-1][0] not in ("aggop",):
            self.bad(st, "the iteration does not end with an update of `agg[dsp, :, :]`")

    def expr_value(self, node):  # noqa: C901
        """array-valued / scalar-valued expressions of the loop body"""
        env, loc = self.env, self.local
        if isinstance(node, ast.Name):
            if node.id in loc:
                return loc[node.id]
            if node.id in env:
                return env[node.id]
            raise Unsupported(f"{SRC}: cost_volume_aggregation: `{node.id}` is read before it is assigned")
        if isinstance(node, ast.Subscript):
            base = self.expr_value(node.value)
            sl = node.slice
            if base.kind == "vol" and u(sl) == f"(slice(None, None, None), slice(None, None, None), {self.dsp})".replace("slice(None, None, None)", ":"):
                return V("plane", lean="cvp", n0="cvp_n0", n1="cvp_n1", key="cvp")
            if base.kind == "vol" and isinstance(sl, ast.Tuple) and len(sl.elts) == 3 and u(sl.elts[2]) == self.dsp \
                    and all(isinstance(e, ast.Slice) and e.lower is None and e.upper is None and e.step is None for e in sl.elts[:2]):
                return V("plane", lean="cvp", n0="cvp_n0", n1="cvp_n1", key="cvp")
            if base.kind == "disps" and u(sl) == self.dsp:
                return V("rat", node=name("__d"))
            if base.kind == "armslist":
                return V("armsel", index=self.value_scalar(sl))
            if base.kind == "vec" and isinstance(sl, ast.Name):
                idx = self.expr_value(sl)
                if idx.kind != "where":
                    raise Unsupported(f"{SRC}: cost_volume_aggregation: `{u(node)}`: indexed by something that is not the result of np.where")
                return V("cols", node=base.node, mask=idx.mask, n=idx.n)
            raise Unsupported(f"{SRC}: cost_volume_aggregation: subscript `{u(node)}` is outside the subset")
        if isinstance(node, ast.Call):
            if isinstance(node.func, ast.Attribute) and node.func.attr == "astype" and len(node.args) == 1 and u(node.args[0]) == "int" and not node.keywords:
                b = self.expr_value(node.func.value)
                if b.kind != "cols":
                    raise Unsupported(f"{SRC}: cost_volume_aggregation: `{u(node)}`")
                return V("cols", node=ast.Call(func=name("int"), args=[b.node], keywords=[]), mask=b.mask, n=b.n)
            if self.is_np(node.func, "where") and len(node.args) == 1 and not node.keywords:
                m = self.expr_value(node.args[0])
                if m.kind != "vec":
                    raise Unsupported(f"{SRC}: cost_volume_aggregation: `{u(node)}`: np.where of something that is not a 1-D mask")
                return V("where", mask=m.node, n=m.n)
            if self.is_np(node.func, "swapaxes") and len(node.args) == 3 and sorted(u(x) for x in node.args[1:]) == ["0", "1"]:
                b = self.expr_value(node.args[0])
                if b.kind != "plane":
                    raise Unsupported(f"{SRC}: cost_volume_aggregation: `{u(node)}`")
                return V("planeT", of=b)
        if isinstance(node, (ast.BinOp, ast.Compare)):
            # elementwise over `np.arange`: operands are vectors (same length) or scalars
            n = [None]

            def conv(e):
                if isinstance(e, ast.BinOp):
                    return ast.BinOp(left=conv(e.left), op=e.op, right=conv(e.right))
                if isinstance(e, ast.Compare):
                    return ast.Compare(left=conv(e.left), ops=e.ops, comparators=[conv(c) for c in e.comparators])
                if isinstance(e, ast.Constant):
                    return e
                if isinstance(e, ast.Attribute) and e.attr == "shape":
                    raise Unsupported("shape")
                if isinstance(e, ast.Subscript) and isinstance(e.value, ast.Attribute) and e.value.attr == "shape":
                    b = self.expr_value(e.value.value)
                    if b.kind == "armsel" and u(e.slice) == "1":
                        if "iRight" in self.roles and u(self.roles["iRight"]) != u(b.index):
                            raise Unsupported("two different shifted right supports in one iteration")
                        self.roles.setdefault("iRight", b.index)
                        return name("__wr")
                    raise Unsupported(f"`{u(e)}`")
                v = self.expr_value(e)
                if v.kind == "vec":
                    if n[0] is not None and n[0] is not v.n:
                        raise Unsupported("vectors of different lengths")
                    n[0] = v.n
                    return v.node
                if v.kind in ("rat", "int"):
                    return v.node
                if v.kind == "scalar":
                    return self.scalar(e)
                raise Unsupported(f"`{u(e)}` is a {v.kind}")
            try:
                out = conv(node)
            except Unsupported as exc:
                raise Unsupported(f"{SRC}: cost_volume_aggregation: `{u(node)}`: {exc}") from exc
            if n[0] is None:
                return V("rat", node=out)
            return V("vec", node=out, n=n[0])
        raise Unsupported(f"{SRC}: cost_volume_aggregation: expression `{u(node)}` is outside the subset")

    def value_scalar(self, node):
        """a scalar expression of the loop body as an AST over the atoms"""
        def conv(e):
            if isinstance(e, ast.Name) and e.id in self.local and self.local[e.id].kind in ("rat", "int"):
                return self.local[e.id].node
            if isinstance(e, ast.Subscript) and isinstance(e.value, ast.Name) and self.env.get(e.value.id, V("")).kind == "disps" and u(e.slice) == self.dsp:
                return name("__d")
            if isinstance(e, ast.BinOp):
                return ast.BinOp(left=conv(e.left), op=e.op, right=conv(e.right))
            if isinstance(e, ast.Call) and isinstance(e.func, ast.Name) and e.func.id in ("int", "abs") and len(e.args) == 1 and not e.keywords:
                return ast.Call(func=e.func, args=[conv(e.args[0])], keywords=[])
            if isinstance(e, ast.UnaryOp):
                return ast.UnaryOp(op=e.op, operand=conv(e.operand))
            return self.scalar(e)
        return conv(node)

    def body_stmt(self, st):  # noqa: C901
        P, loc = self.plane, self.local
        if isinstance(st, ast.Expr) and isinstance(st.value, ast.Constant):
            return
        # agg[dsp, :, :] op= swapaxes(plane, 0, 1)
        if isinstance(st, ast.AugAssign) and isinstance(st.target, ast.Subscript) and isinstance(st.target.value, ast.Name) \
                and st.target.value.id == self.agg_name:
            if u(st.target.slice) != f"({self.dsp}, :, :)".replace(":", "slice(None, None, None)") and \
                    u(st.target) != f"{self.agg_name}[{self.dsp}, :, :]":
                self.bad(st, "a store into another plane of `agg`")
            op = {ast.Add: "add", ast.Div: "div"}.get(type(st.op))
            v = self.expr_value(st.value)
            if op is None or v.kind != "planeT":
                self.bad(st)
            src = v.of
            new = P.fresh("aggp")
            P.lines.append(f"if (decide ({src.n1} = {self.aggp[1]}) && decide ({src.n0} = {self.aggp[2]})) = false then PyLoops.Res.outOfBounds else")
            fn = "PyExpr.vadd" if op == "add" else "fdivV"
            P.lines.append(f"let {new} : Int → Int → Val := fun i j => {fn} ({self.aggp[0]} i j) ({src.lean} j i)")
            P.prog.append(("aggop", op, src.key))
            self.aggp = (new, self.aggp[1], self.aggp[2])
            return
        if isinstance(st, ast.AugAssign) and isinstance(st.target, ast.Name) and st.target.id in loc and loc[st.target.id].kind == "plane" \
                and isinstance(st.op, ast.Add) and isinstance(st.value, ast.Constant) and isinstance(st.value.value, int) and not isinstance(st.value.value, bool):
            self.plane_add(st.target.id, loc[st.target.id], st.value.value)
            return
        if isinstance(st, ast.Assign) and len(st.targets) == 1:
            tgt, val = st.targets[0], st.value
            if isinstance(val, ast.Call) and isinstance(val.func, ast.Name) and val.func.id in STEP_ARGS and not val.keywords:
                self.step_call(st, tgt, val)
                return
            if isinstance(tgt, ast.Name):
                # plane + literal
                if isinstance(val, ast.BinOp) and isinstance(val.op, ast.Add):
                    for a, b in ((val.left, val.right), (val.right, val.left)):
                        if isinstance(a, ast.Name) and a.id in loc and loc[a.id].kind == "plane" and isinstance(b, ast.Constant) \
                                and isinstance(b.value, int) and not isinstance(b.value, bool):
                            self.plane_add(tgt.id, loc[a.id], b.value)
                            return
                try:
                    v = self.expr_value(val)
                except Unsupported:
                    v = None
                if v is not None and v.kind in ("vec", "where", "cols", "rat"):
                    loc[tgt.id] = v
                    return
                node = self.value_scalar(val)
                k = scalar_kernel(node, "probe", [A_D, A_SUBPIX, A_OFFSET], f"local `{tgt.id}`")
                loc[tgt.id] = V("int" if k.ret_types == [INT] else "rat", node=node)
                return
        self.bad(st)

    def plane_add(self, target, src, lit):
        P = self.plane
        new = P.fresh(target)
        P.lines.append(f"let {new} : PyArrays.Arr2 Val := ⟨fun i j => PyExpr.vadd ({src.lean} i j) (Val.num ({lit} : Rat)), {src.n0}, {src.n1}⟩")
        P.prog.append(("addlit", new, src.key, lit))
        self.local[target] = V("plane", lean=f"{new}.get", n0=f"{new}.n0", n1=f"{new}.n1", key=new)

    def step_call(self, st, tgt, call):  # noqa: C901
        P = self.plane
        fname = call.func.id
        kinds = STEP_ARGS[fname]
        if len(call.args) != len(kinds):
            self.bad(st, "number of arguments")
        lean_args, prog_args = [], []
        cols = []
        for a, kind in zip(call.args, kinds):
            v = self.expr_value(a)
            if v.kind != kind:
                self.bad(st, f"argument `{u(a)}` is a {v.kind}, expected a {kind}")
            if kind == "plane":
                lean_args.append(f"{v.lean} {v.n0} {v.n1}")
                prog_args.append(("plane", v.key))
            elif kind == "arms":
                lean_args.append("cross_left cl_n0 cl_n1 cl_n2")
                prog_args.append(("arms",))
            elif kind == "armsel":
                if "iRight" in self.roles and u(self.roles["iRight"]) != u(v.index):
                    self.bad(st, "two different shifted right supports in one iteration")
                self.roles.setdefault("iRight", v.index)
                lean_args.append("(cross_right sel) (cr_n0 sel) (cr_n1 sel) (cr_n2 sel)")
                prog_args.append(("armsel",))
            else:
                cols.append(v)
        if cols:
            rc, rcr = cols
            sig = (u(rc.node), u(rcr.node), u(rc.mask), u(rcr.mask))
            if rc.n is not rcr.n or u(rc.mask) != u(rcr.mask):
                self.bad(st, "the two column lists are selected by different masks")
            if "rc" in self.roles and self.roles["sig"] != sig:
                self.bad(st, "cbca_step_2 and cbca_step_4 are given different column lists")
            if not (rc.n.kind == "dim" and rc.n.axis == 1):
                self.bad(st, "the column list does not run over the columns of the cost volume")
            self.roles.update({"rc": rc.node, "rcr": rcr.node, "mask": rc.mask, "sig": sig})
            lean_args.append("rc n rcr n")
            prog_args.append(("cols",))
        nret = STEP_NRET[fname]
        names = [tgt] if nret == 1 else (tgt.elts if isinstance(tgt, ast.Tuple) and len(tgt.elts) == 2 else None)
        if names is None or not all(isinstance(x, ast.Name) for x in names):
            self.bad(st, "targets")
        r = P.fresh("r")
        P.lines.append(f"match {STEP_LEAN[fname]} {' '.join(lean_args)} with")
        P.lines.append("| PyLoops.Res.outOfBounds => PyLoops.Res.outOfBounds")
        P.lines.append(f"| PyLoops.Res.ok {r} =>")
        keys = []
        for i, nm in enumerate(names):
            acc = r if nret == 1 else f"{r}.{i + 1}"
            key = f"{r}_{i}"
            keys.append(key)
            self.local[nm.id] = V("plane", lean=f"{acc}.get", n0=f"{acc}.n0", n1=f"{acc}.n1", key=key)
        P.prog.append(("step", STEP_LEAN[fname], prog_args, keys))

    # ---- after the loop
    def post(self, st):
        text = u(st)
        env = self.env
        if isinstance(st, ast.Assign) and len(st.targets) == 1 and isinstance(st.targets[0], ast.Name) and isinstance(st.value, ast.Call) \
                and self.is_np(st.value.func, "swapaxes") and len(st.value.args) == 3 and u(st.value.args[0]) == self.agg_name \
                and sorted(u(x) for x in st.value.args[1:]) == ["0", "2"]:
            env[st.targets[0].id] = V("result")
            return
        if isinstance(st, ast.If) or (isinstance(st, ast.Assign) and u(st.targets[0]).startswith("cv['cost_volume'].data")):
            def unwrap(s):
                if isinstance(s, ast.Assign) and len(s.targets) == 1 and isinstance(s.value, ast.Name) and env.get(s.value.id, V("")).kind == "result":
                    return s.targets[0]
                self.bad(s)
            crop, base = read_crop("writeBack", st, unwrap, self.table(), [A_OFFSET])
            if base != "cv['cost_volume'].data":
                self.bad(st, f"the stored array is `{base}`")
            self.write_back = crop
            return
        if text == "cv.attrs['aggregation'] = 'cbca'":
            return
        if isinstance(st, ast.Assign) and len(st.targets) == 1:
            tgt = st.targets[0]
            if isinstance(tgt, ast.Name):
                self.scal[tgt.id] = self.scalar(st.value)
                return
            if u(tgt) == "cv.attrs['cmax']":
                self.kernels["cmaxUpdate"] = scalar_kernel(self.scalar(st.value), "cmaxUpdate", [A_CMAX, A_DIST], "cv.attrs['cmax'] after the aggregation")
                return
        self.bad(st)


def aggregation(mod=None):
    mod = parse(SRC) if mod is None else mod
    numpy_names, _ = module_aliases(mod, SRC)
    fn = find_method(find_class(mod, CLS), "cost_volume_aggregation")
    if fn.decorator_list:
        raise Unsupported(f"{SRC}: cost_volume_aggregation is decorated")
    ag = Aggregation(fn, numpy_names)
    ag.aggp = ("aggp", "aggp_n0", "aggp_n1")
    ag.run()
    r = ag.roles
    ag.kernels["iRight"] = scalar_kernel(r["iRight"], "iRight", [A_D, A_SUBPIX], "index of the shifted right cross support")
    ag.kernels["facingMask"] = scalar_kernel(r["mask"], "facingMask", [A_X, A_D, A_WR], "test of np.where, per column")
    ag.kernels["leftCol"] = scalar_kernel(r["rc"], "leftCol", [A_X, A_D], "element of the first column list")
    ag.kernels["facingCol"] = scalar_kernel(r["rcr"], "facingCol", [A_X, A_D], "element of the second column list")
    for nm, ty in (("iRight", INT), ("facingMask", BOOL), ("leftCol", INT), ("facingCol", INT)):
        if ag.kernels[nm].ret_types != [ty]:
            raise Unsupported(f"{SRC}: cost_volume_aggregation: {nm} is a {ag.kernels[nm].ret_types}, expected {ty}")
    ag.kernels.update(ag.cv_crop.kernels())
    ag.kernels.update(ag.write_back.kernels())
    if "cmaxUpdate" not in ag.kernels:
        raise Unsupported(f"{SRC}: cost_volume_aggregation: cmax is not updated")
    return ag


# ------------------------------------------------------------------------------------------------
# computes_cross_supports
# ------------------------------------------------------------------------------------------------
# preparation statements, by their normalised text ({v} = the image variable, {s} = the loop variable over the shifts)
# ---- preparation statements, read structurally ({v} = the image variable)
A_M = ("__m", "m", INT)               # one cell of <dataset>["msk"].data
A_VALID = ("__valid", "valid", INT)   # <dataset>.attrs["valid_pixels"]
A_NODATA = ("__nodata", "nodata", INT)  # <dataset>.attrs["no_data_mask"]
A_HASMSK = ("__hasmsk", "hasMsk", BOOL)  # "msk" in <dataset>.data_vars
PINNED = ["subpix = cv.attrs['subpixel']", "offset = int(cv.attrs['offset_row_col'])", "img_right_shift = shift_right_img(img_right, subpix)"]


def ds_table(ds, shift_var=None):
    t = {f"{ds}['msk'].data": name("__m"), f"{ds}.attrs['valid_pixels']": name("__valid"), f"{ds}.attrs['no_data_mask']": name("__nodata"),
         f"'msk' in {ds}.data_vars": name("__hasmsk")}
    if shift_var:
        t[shift_var] = name("__shift")
    return t


def mask_store(st, var):
    """`var[np.where(T)] = np.nan` | `var[T] = np.nan`  ->  T (None when `st` is not such a store)"""
    if isinstance(st, ast.Assign) and len(st.targets) == 1 and isinstance(st.targets[0], ast.Subscript) \
            and u(st.targets[0].value) == var and u(st.value) == "np.nan":
        sl = st.targets[0].slice
        if isinstance(sl, ast.Call) and u(sl.func) == "np.where" and len(sl.args) == 1 and not sl.keywords:
            return sl.args[0]
        if isinstance(sl, (ast.Compare, ast.BoolOp, ast.UnaryOp)):
            return sl
    return None


def read_filter(st):
    """`filter_ = AbstractFilter(cfg={'filter_method': 'median', 'filter_size': K})` -> (name, K)"""
    if isinstance(st, ast.Assign) and len(st.targets) == 1 and isinstance(st.targets[0], ast.Name) and isinstance(st.value, ast.Call) \
            and u(st.value.func) == "AbstractFilter" and not st.value.args and [k.arg for k in st.value.keywords] == ["cfg"] \
            and isinstance(st.value.keywords[0].value, ast.Dict):
        d = st.value.keywords[0].value
        keys = [u(k) for k in d.keys]
        if sorted(keys) != ["'filter_method'", "'filter_size'"]:
            raise Unsupported(f"{SRC}: computes_cross_supports: `{u(st)}`: unexpected configuration of the pre-filter")
        cfg = dict(zip(keys, d.values))
        if u(cfg["'filter_method'"]) != "'median'":
            raise Unsupported(f"{SRC}: computes_cross_supports: the pre-filter is `{u(cfg[chr(39) + 'filter_method' + chr(39)])}`, not the median")
        k = cfg["'filter_size'"]
        if not (isinstance(k, ast.Constant) and isinstance(k.value, int) and not isinstance(k.value, bool)):
            raise Unsupported(f"{SRC}: computes_cross_supports: the size of the pre-filter is not an integer literal")
        return st.targets[0].id, k.value
    return None


def read_nan_to_num(st, var):
    """`np.nan_to_num(var, copy=False, nan=np.inf)` -> (in place?, replacement) ; None when not a nan_to_num statement"""
    if isinstance(st, ast.Expr) and isinstance(st.value, ast.Call) and u(st.value.func) == "np.nan_to_num":
        c = st.value
        if len(c.args) != 1 or u(c.args[0]) != var:
            raise Unsupported(f"{SRC}: computes_cross_supports: `{u(st)}` is not applied to `{var}`")
        kw = {k.arg: u(k.value) for k in c.keywords}
        if set(kw) - {"copy", "nan"}:
            raise Unsupported(f"{SRC}: computes_cross_supports: `{u(st)}`: keywords outside (copy, nan)")
        inplace = kw.get("copy", "True") == "False"
        rep = {"np.inf": "pinf", "-np.inf": "ninf", "np.nan": "nan"}.get(kw.get("nan", "0.0"))
        if rep is None:
            raise Unsupported(f"{SRC}: computes_cross_supports: `{u(st)}`: NaN is replaced by a finite number (not modelled)")
        return inplace, rep
    return None


def read_shift_block(body, var, ds, test_atoms, table):
    """the body of the sub-pixel mask block -> (test kernel node, window offsets [(dy, dx)], width delta)"""
    w = "computes_cross_supports: shifted right mask"
    if len(body) != 8:
        raise Unsupported(f"{SRC}: {w}: {len(body)} statements, expected 8")
    s0, s1, s2, s3, s4, s5, s6, s7 = body
    if not (isinstance(s0, ast.Assign) and isinstance(s0.targets[0], ast.Name) and u(s0.value) == f"np.zeros({ds}['msk'].data.shape)"):
        raise Unsupported(f"{SRC}: {w}: `{u(s0)}` is not a zero array of the shape of the mask")
    sm = s0.targets[0].id
    test = mask_store(s1, sm)
    if test is None:
        raise Unsupported(f"{SRC}: {w}: `{u(s1)}` does not store NaN at the invalid pixels")
    if not (isinstance(s2, ast.Assign) and isinstance(s2.targets[0], ast.Tuple) and len(s2.targets[0].elts) == 2
            and all(isinstance(e, ast.Name) for e in s2.targets[0].elts) and u(s2.value) == f"{sm}.strides"):
        raise Unsupported(f"{SRC}: {w}: `{u(s2)}`")
    srow, scol = [e.id for e in s2.targets[0].elts]
    if not (isinstance(s3, ast.Assign) and isinstance(s3.targets[0], ast.Name) and isinstance(s3.value, ast.Tuple) and len(s3.value.elts) == 3):
        raise Unsupported(f"{SRC}: {w}: `{u(s3)}`")
    shp = s3.value.elts
    K = shp[2].value if isinstance(shp[2], ast.Constant) and isinstance(shp[2].value, int) else None
    if u(shp[0]) != f"{sm}.shape[0]" or K is None or K < 1:
        raise Unsupported(f"{SRC}: {w}: window shape `{u(s3.value)}`")
    if u(shp[1]) == f"{sm}.shape[1]":
        c = 0
    elif isinstance(shp[1], ast.BinOp) and isinstance(shp[1].op, ast.Sub) and u(shp[1].left) == f"{sm}.shape[1]" \
            and isinstance(shp[1].right, ast.Constant) and isinstance(shp[1].right.value, int):
        c = shp[1].right.value
    else:
        raise Unsupported(f"{SRC}: {w}: window shape `{u(s3.value)}`")
    if not (isinstance(s4, ast.Assign) and isinstance(s4.targets[0], ast.Name) and isinstance(s4.value, ast.Tuple)
            and [u(e) for e in s4.value.elts[:2]] == [srow, scol] and len(s4.value.elts) == 3 and u(s4.value.elts[2]) in (srow, scol)):
        raise Unsupported(f"{SRC}: {w}: strides `{u(s4)}`")
    along_col = u(s4.value.elts[2]) == scol
    if (along_col and c != K - 1) or (not along_col):
        # a window that leaves the array (as_strided does not check) or runs down the rows: not the model's two columns
        if not along_col or c < K - 1:
            raise Unsupported(f"{SRC}: {w}: the sliding window reads outside the mask or runs along the rows")
    if u(s5.value if isinstance(s5, ast.Assign) else s5) != f"np.lib.stride_tricks.as_strided({sm}, {s3.targets[0].id}, {s4.targets[0].id}, writeable=False)" \
            or not isinstance(s5.targets[0], ast.Name):
        raise Unsupported(f"{SRC}: {w}: `{u(s5)}`")
    if not (isinstance(s6, ast.Assign) and isinstance(s6.targets[0], ast.Name) and u(s6.value) == f"np.sum({s5.targets[0].id}, 2)"):
        raise Unsupported(f"{SRC}: {w}: `{u(s6)}` is not the sum of the window")
    if u(s7) != f"{var} += {s6.targets[0].id}":
        raise Unsupported(f"{SRC}: {w}: `{u(s7)}` does not add the shifted mask to the image")
    return subst(test, table), [(0, t) for t in range(K)], -c


def strip_doc(body):
    return [s for s in body if not (isinstance(s, ast.Expr) and isinstance(s.value, ast.Constant))]


def cross_call(e, site):
    """`cross_support(X, self._cbca_distance, self._cbca_intensity)` -> X"""
    if not (isinstance(e, ast.Call) and u(e.func) == "cross_support" and len(e.args) == 3 and not e.keywords
            and u(e.args[1]) == "self._cbca_distance" and u(e.args[2]) == "self._cbca_intensity"):
        raise Unsupported(f"{SRC}: {site}: `{u(e)}` is not `cross_support(<image>, self._cbca_distance, self._cbca_intensity)`")
    return e.args[0]


def classify(st, var, side, ds, out, shift_var=None, img_var=None):
    """one preparation statement of the image `var` -> its PrepOp; the meaning it carries (mask test and guard, window of the
    shifted mask, size of the median, NaN replacement) is recorded in `out["meaning"]` / `out["kernels"]`"""
    w = f"{SRC}: computes_cross_supports ({side} image)"
    src_img = f"{ds}['im'].data" if side == "left" else f"{img_var}['im'].data"
    if u(st) == f"{var} = np.copy({src_img})":
        return "copy"
    g_atoms = [A_HASMSK] + ([A_SHIFT] if side == "right" else [])
    t_atoms = [A_M, A_VALID, A_NODATA]
    if isinstance(st, ast.If) and not st.orelse:
        table = ds_table(ds, shift_var)
        guard = subst(st.test, table)
        if len(st.body) == 1 and mask_store(st.body[0], var) is not None:
            op = "maskInvalid" if side == "left" else "maskInvalidPixel"
            test = subst(mask_store(st.body[0], var), table)
            prefix = "left" if side == "left" else "right"
        else:
            op = "maskInvalidShifted"
            if side == "left":
                raise Unsupported(f"{w}: a sub-pixel mask block on the left image")
            test, offsets, delta = read_shift_block(strip_doc(st.body), var, ds, t_atoms, table)
            out["meaning"]["shiftMaskOffsets"] = offsets
            out["meaning"]["shiftMaskWidthDelta"] = delta
            prefix = "shift"
        out["kernels"][f"{prefix}MaskGuard"] = scalar_kernel(guard, f"{prefix}MaskGuard", g_atoms, f"{side} image: guard of the mask statement")
        out["kernels"][f"{prefix}MaskTest"] = scalar_kernel(test, f"{prefix}MaskTest", t_atoms, f"{side} image: which mask cells become NaN")
        for nm in (f"{prefix}MaskGuard", f"{prefix}MaskTest"):
            if out["kernels"][nm].ret_types != [BOOL]:
                raise Unsupported(f"{w}: {nm} is not a boolean")
        return op
    if u(st) == f"{var} = {out['filter']}.median_filter({var})":
        return "median3"
    r = read_nan_to_num(st, var)
    if r is not None:
        inplace, rep = r
        if not inplace:
            raise Unsupported(f"{w}: `{u(st)}` works on a copy that is thrown away")
        prev = out["meaning"].setdefault("nanReplacement", rep)
        if prev != rep:
            raise Unsupported(f"{w}: the two images replace NaN differently")
        return "nanToInf"
    raise Unsupported(f"{w}: statement `{u(st).splitlines()[0]}` is not recognised")


def supports(mod=None):
    """-> {"prepLeft": [ops], "prepRight": [ops], "leftCrop": Crop, "rightCrop": Crop, "kernels": …, "meaning": …}"""
    mod = parse(SRC) if mod is None else mod
    fn = find_method(find_class(mod, CLS), "computes_cross_supports")
    if fn.decorator_list or [x.arg for x in fn.args.args] != ["self", "img_left", "img_right", "cv"]:
        raise Unsupported(f"{SRC}: computes_cross_supports: unexpected signature")
    body = strip_doc(fn.body)
    table = {"offset": name("__offset"), "int(cv.attrs['offset_row_col'])": name("__offset")}
    out = {"prepLeft": [], "prepRight": [], "kernels": {}, "meaning": {}, "filter": None}
    pinned = set()
    lv = None
    i = 0
    where = "computes_cross_supports"

    def is_cross_site(st, test):
        for n in ast.walk(st):
            if isinstance(n, ast.Call) and u(n.func) == "cross_support":
                return True
        return False

    right_list = None
    while i < len(body):
        st = body[i]
        i += 1
        text = u(st)
        if text in PINNED:
            pinned.add(text)
            continue
        f = read_filter(st)
        if f is not None:
            out["filter"], out["meaning"]["prefilterSize"] = f
            continue
        if isinstance(st, ast.Assign) and u(st.value) == "[]" and isinstance(st.targets[0], ast.Name):
            right_list = st.targets[0].id
            continue
        if isinstance(st, ast.Return):
            if right_list is None or "leftCrop" not in out or "rightCrop" not in out or u(st.value) != f"({out['leftTarget']}, {right_list})":
                raise Unsupported(f"{SRC}: {where}: `{text}` does not return (left cross support, list of right cross supports)")
            continue
        if isinstance(st, ast.For):
            if not (u(st.iter) == "enumerate(img_right_shift)" and isinstance(st.target, ast.Tuple) and len(st.target.elts) == 2
                    and all(isinstance(e, ast.Name) for e in st.target.elts)) or st.orelse or right_list is None:
                raise Unsupported(f"{SRC}: {where}: loop `for {u(st.target)} in {u(st.iter)}` is not the loop over the shifted right images")
            sv, iv = st.target.elts[0].id, st.target.elts[1].id
            rv = None
            for s in strip_doc(st.body):
                if is_cross_site(s, None):
                    def unwrap(x):
                        if isinstance(x, ast.Expr) and isinstance(x.value, ast.Call) and u(x.value.func) == f"{right_list}.append" and len(x.value.args) == 1:
                            return cross_call(x.value.args[0], "right cross support")
                        raise Unsupported(f"{SRC}: {where}: `{u(x).splitlines()[0]}` does not append a cross support to `{right_list}`")
                    t2 = dict(table)
                    t2[sv] = name("__shift")
                    crop, base = read_crop("rightCrop", s, unwrap, t2, [A_OFFSET, A_SHIFT])
                    if base != rv:
                        raise Unsupported(f"{SRC}: {where}: the right cross support is computed on `{base}`, the prepared image is `{rv}`")
                    out["rightCrop"] = crop
                    continue
                if rv is None and isinstance(s, ast.Assign) and isinstance(s.targets[0], ast.Name):
                    rv = s.targets[0].id
                out["prepRight"].append(classify(s, rv, "right", "img_right", out, shift_var=sv, img_var=iv))
            if "rightCrop" not in out:
                raise Unsupported(f"{SRC}: {where}: no right cross support is computed in the loop")
            continue
        if is_cross_site(st, None):
            def unwrap_l(x):
                if isinstance(x, ast.Assign) and len(x.targets) == 1 and isinstance(x.targets[0], ast.Name):
                    out["leftTarget"] = x.targets[0].id
                    return cross_call(x.value, "left cross support")
                raise Unsupported(f"{SRC}: {where}: `{u(x).splitlines()[0]}`")
            crop, base = read_crop("leftCrop", st, unwrap_l, table, [A_OFFSET])
            if base != lv:
                raise Unsupported(f"{SRC}: {where}: the left cross support is computed on `{base}`, the prepared image is `{lv}`")
            out["leftCrop"] = crop
            continue
        if lv is None and isinstance(st, ast.Assign) and isinstance(st.targets[0], ast.Name):
            lv = st.targets[0].id
        if "leftCrop" in out:
            raise Unsupported(f"{SRC}: {where}: statement `{text.splitlines()[0]}` is not recognised")
        out["prepLeft"].append(classify(st, lv, "left", "img_left", out))
    missing = [p for p in PINNED if p not in pinned]
    if missing:
        raise Unsupported(f"{SRC}: {where}: `{missing[0]}` not found")
    if "leftCrop" not in out or "rightCrop" not in out:
        raise Unsupported(f"{SRC}: {where}: a cross support is missing")
    for need in ("prefilterSize", "nanReplacement"):
        if need not in out["meaning"]:
            raise Unsupported(f"{SRC}: {where}: {need}: the statement that fixes it was not found")
    return out


# ------------------------------------------------------------------------------------------------
# exact evaluation of the same readings (harness: against the real functions)
# ------------------------------------------------------------------------------------------------
def ev_scalar(k, *args):
    res, vals = pyexpr.evaluate(k, *args)
    if res != "ok":
        raise RuntimeError(res)
    return vals[0]


def py_slice_bound(n, i):
    k = i + n if i < 0 else i
    return 0 if k < 0 else n if k > n else k


def evaluate_crop(kernels, site, n0, n1, *atoms):
    """-> (row0, col0, rows, cols): the sub-array `[row0:row0+rows, col0:col0+cols]` the site selects from an (n0, n1) array"""
    if not ev_scalar(kernels[f"{site}Test"], *atoms):
        return 0, 0, n0, n1
    b = [ev_scalar(kernels[f"{site}{nm}"], *atoms) for nm in ("RowLo", "RowHi", "ColLo", "ColHi")]
    r0, r1 = py_slice_bound(n0, b[0]), py_slice_bound(n0, b[1])
    c0, c1 = py_slice_bound(n1, b[2]), py_slice_bound(n1, b[3])
    return r0, c0, max(r1 - r0, 0), max(c1 - c0, 0)


def vop(op, a, b):
    if a == NAN or b == NAN:
        return NAN
    if op == "add":
        return a + b
    if op == "mul":
        return a * b
    return NAN if b == 0 else Fraction(a) / Fraction(b)


def evaluate_plane(ag, steps, cvp, aggp, cross_left, cross_right, d, subpix):
    """one iteration of the disparity loop, exactly.  cvp: rows of the plane `cv_data[:, :, dsp]` (Fractions / "nan");
    aggp: rows of `agg[dsp, :, :]` before the iteration; cross_left: (H, W, 4) ints; cross_right: list of (H, Wk, 4);
    -> ("ok", rows of agg[dsp, :, :] afterwards) | (error tag, None)"""
    K = ag.kernels
    n0, n1 = len(cvp), (len(cvp[0]) if cvp else 0)
    sel = ev_scalar(K["iRight"], Fraction(d), int(subpix))
    if not 0 <= sel < len(cross_right):  # (a negative index would wrap in Python: not in the subset of valid inputs)
        return "indexError", None
    cr = cross_right[sel]
    wr = len(cr[0]) if cr else 0
    idx = [x for x in range(n1) if ev_scalar(K["facingMask"], x, Fraction(d), wr)]
    rc = [ev_scalar(K["leftCol"], x, Fraction(d)) for x in idx]
    rcr = [ev_scalar(K["facingCol"], x, Fraction(d)) for x in idx]
    vals = {"cvp": (cvp, (n0, n1))}
    a0, a1 = len(aggp), (len(aggp[0]) if aggp else 0)
    cur = [list(r) for r in aggp]

    def arms(a):
        h = len(a)
        w = len(a[0]) if a else 0
        return pyloops.Arr(a, (h, w, 4))

    for st in ag.plane.prog:
        if st[0] == "step":
            _, lean, pargs, keys = st
            args = []
            for p in pargs:
                if p[0] == "plane":
                    data, shape = vals[p[1]]
                    args.append(pyloops.Arr(data, shape))
                elif p[0] == "arms":
                    args.append(arms(cross_left))
                elif p[0] == "armsel":
                    args.append(arms(cr))
                else:
                    args += [pyloops.Arr(rc, (len(rc),)), pyloops.Arr(rcr, (len(rcr),))]
            res, outs = pyscan.evaluate(steps[lean], args)
            if res != "ok":
                return res, None
            for key, (data, shape) in zip(keys, outs):
                vals[key] = ([[NAN if v in (None, NAN) else Fraction(v) for v in r] for r in data], shape)
        elif st[0] == "addlit":
            _, new, src, lit = st
            data, shape = vals[src]
            vals[new] = ([[vop("add", v, Fraction(lit)) for v in r] for r in data], shape)
        elif st[0] == "aggop":
            _, op, src = st
            data, shape = vals[src]
            if (shape[1], shape[0]) != (a0, a1):
                return "shapeError", None
            cur = [[vop(op, cur[i][j], data[j][i]) for j in range(a1)] for i in range(a0)]
    return "ok", cur


def evaluate_init(ag, cell):
    """the content of a cell of `agg` before the loop, from the cell of the (swapped) cost volume"""
    v = Fraction(0)
    for op, what, lit in ag.init_ops:
        v = vop(op, v, cell if what == "cvT" else lit)
    return v


# ------------------------------------------------------------------------------------------------
# rendering
# ------------------------------------------------------------------------------------------------
HEADER = """-- GENERATED by translator/gen_kernels_cbca_glue.py (translator/pyexpr.py + a statement reader) from the Python source. Do not edit.
import PandoraModel.Model.PyArrays
import PandoraModel.Generated.KernelsCbcaSteps
set_option linter.unusedVariables false
namespace Pandora.Generated.KernelsCbcaGlue
open Pandora Pandora.Generated.KernelsCbcaSteps

/-! ## fixed text: how the numpy primitives of the glue are read -/

/-- `np.where(m)` of a 1-D boolean array of length `n`: the indices where it holds, increasing -/
def whereIdx (m : Int → Bool) (n : Int) : List Int :=
  ((List.range n.toNat).filter (fun (i : Nat) => m (i : Int))).map (fun (i : Nat) => (i : Int))

/-- float division of two cells: NaN propagates; `x / 0` is not a number (±inf or NaN; `Val` has one non-number) -/
def fdivV : Val → Val → Val
  | .num a, .num b => if b = 0 then .nan else .num (a / b)
  | _, _ => .nan

/-- a returned 3-D array: its cells and its shape -/
structure Arr3 (α : Type) where
  get : Int → Int → Int → α
  n0 : Int
  n1 : Int
  n2 : Int

/-- `for dsp in range(n)` with the whole state threaded: the body for 0, 1, …, n-1 in this order, stopping at the first
    failure -/
def forPlanes {σ : Type} (body : Int → σ → PyLoops.Res σ) : Nat → σ → PyLoops.Res σ
  | 0, s => PyLoops.Res.ok s
  | n + 1, s =>
    match forPlanes body n s with
    | PyLoops.Res.ok s' => body (n : Int) s'
    | PyLoops.Res.outOfBounds => PyLoops.Res.outOfBounds

/-- a preparation statement of the image handed to `cross_support` (pinned by its text in the translator) -/
inductive PrepOp where
  | copy | maskInvalid | maskInvalidPixel | maskInvalidShifted | median3 | nanToInf
  deriving DecidableEq, Repr

/-- `X[r0:r1, c0:c1]` of an `(n0, n1)` array: first row, first column, number of rows, number of columns (Python slice
    bounds: negative counts from the end, then clamped) -/
def sliceBox (n0 n1 r0 r1 c0 c1 : Int) : Int × Int × Int × Int :=
  let rl := PyArrays.sliceBound n0 r0
  let rh := PyArrays.sliceBound n0 r1
  let cl := PyArrays.sliceBound n1 c0
  let ch := PyArrays.sliceBound n1 c1
  (rl, cl, (if rh < rl then 0 else rh - rl), (if ch < cl then 0 else ch - cl))
"""


WHOLE = '''/-! ## cost_volume_aggregation: the whole method on the whole volume

The disparity loop is a REAL sequential loop here (`forPlanes`, the volume `agg` is the loop-carried state): that iteration
`dsp` writes plane `dsp` only and reads plane `dsp` only is PROVED (`Properties/C11KernelsGlue.lean`: `aggLoopBody_frame`,
`aggLoopBody_reads`), not assumed.  `np.swapaxes(a, 0, 2)[i, j, k] = a[k, j, i]`; `agg` has shape `(nb_disp, n_row_, n_col_)`
(the reader checked the extents of `np.zeros` against `cv_data.shape`). -/

/-- the body of the disparity loop: `cvd` = `cv_data` of shape `(cvd_n0, cvd_n1, _)`, `agg` of shape `(_, agg_n1, agg_n2)` -/
def aggLoopBody (cvd : Int → Int → Int → Val) (cvd_n0 cvd_n1 : Int) (agg_n1 agg_n2 : Int)
    (cross_left : Int → Int → Int → Int) (cl_n0 cl_n1 cl_n2 : Int)
    (cross_right : Int → Int → Int → Int → Int) (cr_n0 cr_n1 cr_n2 : Int → Int) (disp : Int → Rat) (subpix : Int)
    (dsp : Int) (agg : Int → Int → Int → Val) : PyLoops.Res (Int → Int → Int → Val) :=
  match aggPlane (fun i j => cvd i j dsp) cvd_n0 cvd_n1 (fun i j => agg dsp i j) agg_n1 agg_n2
      cross_left cl_n0 cl_n1 cl_n2 cross_right cr_n0 cr_n1 cr_n2 (disp dsp) subpix with
  | PyLoops.Res.outOfBounds => PyLoops.Res.outOfBounds
  | PyLoops.Res.ok r => PyLoops.Res.ok (fun k i j => if k = dsp then r.get i j else agg k i j)

/-- `cost_volume_aggregation`: the cost volume `cv["cost_volume"].data` afterwards -/
def costVolumeAggregation (cv : Int → Int → Int → Val) (cv_n0 cv_n1 cv_n2 : Int) (offset : Int)
    (cross_left : Int → Int → Int → Int) (cl_n0 cl_n1 cl_n2 : Int)
    (cross_right : Int → Int → Int → Int → Int) (cr_n0 cr_n1 cr_n2 : Int → Int) (disp : Int → Rat) (subpix : Int) :
    PyLoops.Res (Arr3 Val) :=
  let box := cvCropBox cv_n0 cv_n1 offset
  let cvd : Int → Int → Int → Val := fun i j k => cv (box.1 + i) (box.2.1 + j) k
  let n_col_ : Int := box.2.2.1
  let n_row_ : Int := box.2.2.2
  let nb_disp : Int := cv_n2
  let agg0 : Int → Int → Int → Val := fun k i j => aggInit (cvd j i k)
  match forPlanes (aggLoopBody cvd n_col_ n_row_ n_row_ n_col_ cross_left cl_n0 cl_n1 cl_n2 cross_right cr_n0 cr_n1 cr_n2 disp subpix)
      nb_disp.toNat agg0 with
  | PyLoops.Res.outOfBounds => PyLoops.Res.outOfBounds
  | PyLoops.Res.ok agg =>
    let res : Int → Int → Int → Val := fun i j k => agg k j i
    let wb := writeBackBox cv_n0 cv_n1 offset
    if writeBackTest offset then
      if (decide (wb.2.2.1 = n_col_) && decide (wb.2.2.2 = n_row_)) = false then PyLoops.Res.outOfBounds else
      PyLoops.Res.ok ⟨fun y x k =>
        if decide (wb.1 ≤ y) && decide (y < wb.1 + wb.2.2.1) && decide (wb.2.1 ≤ x) && decide (x < wb.2.1 + wb.2.2.2)
        then res (y - wb.1) (x - wb.2.1) k else cv y x k, cv_n0, cv_n1, cv_n2⟩
    else PyLoops.Res.ok ⟨res, n_col_, n_row_, nb_disp⟩
'''


def render_scalar(k) -> list:
    lines = [f"/- {SRC}: {k.origin}", k.source.replace("-/", "- /").replace("__", ""), "-/", pyexpr.render_lean(k, always_partial=False)]
    return lines


def golden_scalar(k, cases) -> list:
    out = []
    for args in cases:
        v = ev_scalar(k, *args)
        actual = " ".join(f"({lean_value(a, ty)})" for a, (_, ty) in zip(args, k.lean_params))
        out.append(f"example : {k.lean_name} {actual} = {lean_value(v, k.ret_types[0])} := by decide +kernel")
    return out


GOLDEN = {
    "iRight": [(Fraction(0), 1), (Fraction(-3, 2), 2), (Fraction(5, 4), 4), (Fraction(-1, 4), 4), (Fraction(-2), 4), (Fraction(7, 4), 4)],
    "facingMask": [(0, Fraction(-1), 5), (1, Fraction(-1), 5), (4, Fraction(1, 2), 4), (3, Fraction(1, 2), 4), (0, Fraction(-1, 2), 4)],
    "leftCol": [(3, Fraction(-1, 2))],
    "facingCol": [(3, Fraction(-1, 2)), (1, Fraction(-1, 2)), (2, Fraction(5, 4)), (0, Fraction(0))],
    "cmaxUpdate": [(Fraction(10), 5), (Fraction(3, 2), 1)],
}


def crop_def(site, atoms) -> list:
    ps = " ".join(f"({a[1]} : Int)" for a in atoms)
    args = " ".join(a[1] for a in atoms)
    return [
        f"/-- the sub-array the site `{site}` selects from an `(n0, n1)` array: (first row, first column, rows, columns) -/",
        f"def {site}Box (n0 n1 : Int) {ps} : Int × Int × Int × Int :=",
        f"  if {site}Test {args} then sliceBox n0 n1 ({site}RowLo {args}) ({site}RowHi {args}) ({site}ColLo {args}) ({site}ColHi {args})",
        "  else (0, 0, n0, n1)",
        "",
    ]


def render(ag, sup) -> str:
    lines = [HEADER]
    lines.append("/-! ## cost_volume_aggregation: scalar decisions -/\n")
    for nm in ("iRight", "facingMask", "leftCol", "facingCol", "cmaxUpdate"):
        lines += render_scalar(ag.kernels[nm])
        lines += golden_scalar(ag.kernels[nm], GOLDEN[nm])
        lines.append("")
    for site, crop, atoms in (("cvCrop", ag.cv_crop, [A_OFFSET]), ("writeBack", ag.write_back, [A_OFFSET])):
        for nm in ("Test", "RowLo", "RowHi", "ColLo", "ColHi"):
            lines += render_scalar(ag.kernels[f"{site}{nm}"])
        lines += crop_def(site, atoms)
    lines.append("/-! ## cost_volume_aggregation: the content of `agg` before the loop, and one iteration of the disparity loop -/\n")
    lines.append("/-- a cell of `agg` after the statements that precede the loop (`cell` = the cell of `np.swapaxes(cv_data, 0, 2)`) -/")
    lines.append("def aggInit (cell : Val) : Val :=")
    term = "(Val.num (0 : Rat))"
    for op, what, lit in ag.init_ops:
        arg = "cell" if what == "cvT" else f"(Val.num {pyexpr.lean_lit(lit, 'rat')})"
        term = f"(PyExpr.v{op} {term} {arg})"
    lines.append(f"  {term}\n")
    lines.append("/-- one iteration: `cvp` = `cv_data[:, :, dsp]`, `aggp` = `agg[dsp, :, :]` before it; the result is `agg[dsp, :, :]`")
    lines.append("    afterwards.  The loop is a map over the planes: the reader checked that an iteration stores into `agg[dsp, :, :]`")
    lines.append("    only and reads nothing another iteration assigned. -/")
    lines.append("def aggPlane (cvp : Int → Int → Val) (cvp_n0 cvp_n1 : Int) (aggp : Int → Int → Val) (aggp_n0 aggp_n1 : Int)")
    lines.append("    (cross_left : Int → Int → Int → Int) (cl_n0 cl_n1 cl_n2 : Int)")
    lines.append("    (cross_right : Int → Int → Int → Int → Int) (cr_n0 cr_n1 cr_n2 : Int → Int) (d : Rat) (subpix : Int) :")
    lines.append("    PyLoops.Res (PyArrays.Arr2 Val) :=")
    lines.append("  let sel : Int := iRight d subpix")
    lines.append("  let idx : List Int := whereIdx (fun x => facingMask x d (cr_n1 sel)) cvp_n1")
    lines.append("  let rc : Int → Int := fun t => leftCol (idx.getD t.toNat 0) d")
    lines.append("  let rcr : Int → Int := fun t => facingCol (idx.getD t.toNat 0) d")
    lines.append("  let n : Int := (idx.length : Int)")
    for ln in ag.plane.lines:
        lines.append("  " + ln)
    lines.append(f"  PyLoops.Res.ok ⟨{ag.aggp[0]}, {ag.aggp[1]}, {ag.aggp[2]}⟩\n")
    lines.append(WHOLE)
    lines.append("/-! ## computes_cross_supports -/\n")
    lines.append("/-- the preparation statements of the left image, in the order of the source -/")
    lines.append("def prepLeft : List PrepOp := [" + ", ".join("." + o for o in sup["prepLeft"]) + "]")
    lines.append("/-- the preparation statements of every shifted right image, in the order of the source -/")
    lines.append("def prepRight : List PrepOp := [" + ", ".join("." + o for o in sup["prepRight"]) + "]\n")
    lines.append("/-! what the preparation statements mean (read from their text, not pinned): guard and test of each mask store, the")
    lines.append("    window of the `as_strided` view of the shifted mask (offsets `(row, column)` of its cells, change of width), the size of")
    lines.append("    the median pre-filter, what `np.nan_to_num` (in place) writes for NaN -/\n")
    for nm in ("leftMaskGuard", "leftMaskTest", "rightMaskGuard", "rightMaskTest", "shiftMaskGuard", "shiftMaskTest"):
        if nm in sup["kernels"]:
            lines += render_scalar(sup["kernels"][nm])
            lines.append("")
    mean = sup["meaning"]
    if "shiftMaskOffsets" in mean:
        lines.append("def shiftMaskOffsets : List (Nat × Nat) := [" + ", ".join(f"({a}, {b})" for a, b in mean["shiftMaskOffsets"]) + "]")
        lines.append(f"def shiftMaskWidthDelta : Int := {mean['shiftMaskWidthDelta']}")
    lines.append(f"def prefilterSize : Nat := {mean['prefilterSize']}")
    lines.append(f"def nanReplacement : PyLoops.Fl := PyLoops.Fl.{mean['nanReplacement']}\n")
    ks = {}
    for site, atoms in (("leftCrop", [A_OFFSET]), ("rightCrop", [A_OFFSET, A_SHIFT])):
        kk = sup[site].kernels()
        ks.update(kk)
        for nm in ("Test", "RowLo", "RowHi", "ColLo", "ColHi"):
            lines += render_scalar(kk[f"{site}{nm}"])
        lines += crop_def(site, atoms)
    # what the evaluator computes, checked by evaluation in Lean
    allk = dict(ag.kernels)
    allk.update(ks)
    for site, atoms in (("cvCrop", (1,)), ("writeBack", (2,)), ("leftCrop", (1,)), ("leftCrop", (0,)), ("rightCrop", (1, 0)), ("rightCrop", (1, 2)), ("rightCrop", (3, 1))):
        for n0, n1 in ((5, 7), (4, 3)):
            box = evaluate_crop(allk, site, n0, n1, *atoms)
            a = " ".join(f"({x} : Int)" for x in atoms)
            lines.append(f"example : {site}Box {n0} {n1} {a} = ({', '.join(f'({v} : Int)' for v in box)}) := by decide +kernel")
    lines.append("\nend Pandora.Generated.KernelsCbcaGlue")
    return "\n".join(lines) + "\n"


def read_all():
    return aggregation(), supports()


def all_kernels(ag, sup):
    ks = dict(ag.kernels)
    for site in ("leftCrop", "rightCrop"):
        ks.update(sup[site].kernels())
    return ks


def generate():
    ag, sup = read_all()
    write_if_changed("KernelsCbcaGlue.lean", render(ag, sup))
    return {"T-cbca-glue": {"source": SRC, "digest": digest(SRC), "kernels": sorted(all_kernels(ag, sup)) + ["aggInit", "aggPlane"],
                            "prepLeft": sup["prepLeft"], "prepRight": sup["prepRight"], "meaning": {k: (list(map(list, v)) if isinstance(v, list) else v) for k, v in sup["meaning"].items()}}}
