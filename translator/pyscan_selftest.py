"""Self-test of translator/pyscan.py (array-state kernels) on constructs `cbca_step_1 … 4` do not all exercise.

`ACCEPTED`: small kernels inside the subset, read three ways on every run of C11 — CPython running the text itself on numpy
arrays, `pyscan.interpret` (imperative, mutable arrays), `pyscan.evaluate` (the tree, functional arrays).  (The Lean reading
of the tree is checked on the real kernels by the generated `example`s of Generated/KernelsCbcaSteps.lean.)
`REFUSED`: functions outside the subset — each must raise `Unsupported` (nothing is guessed).
"""
from __future__ import annotations

import ast
from fractions import Fraction

from . import pyscan
from .common import Unsupported
from .pyexpr import INT, VAL
from .pyloops import AParam
from .pyloops_selftest import canon, exact_args, run_python

ACCEPTED = {
    "s_neg": ([AParam("a", VAL, 2), AParam("w", INT, 1)], '''
def s_neg(a, w):
    """stores at NEGATIVE indices (wrap-around on writes), `-=` and `*=` on a cell, a scan that reads the cell written two
    iterations earlier, `break` inside a loop that carries an array, an integer local array, slices whose bounds are
    negative / beyond the array (clamped), a row assignment from a local array"""
    n0, n1 = a.shape
    out = np.zeros((n0, n1 + 2), dtype=np.float64)
    cnt = np.zeros((n0, 2), dtype=np.int64)
    acc = np.copy(a)
    for i in range(n0):
        for j in range(n1):
            out[i, j - n1 - 2] = out[i, j - 2] + a[i, j]
            out[-1 - i, -1] -= 1
            acc[i, j] *= 2
            cnt[i, 0] += w[j - 1]
            if a[i, j] > 3:
                break
            cnt[i, -1] = cnt[i, 1] + 1
        out[i, n1] += np.sum(acc[i - 1:w[0], 0]) + np.sum(a[-1:n0 + 3, -1])
    tmp = np.copy(out)
    out[0, :] = tmp[n0 - 1, :]
    return out, cnt
''', [(([[1, 2, 3], [4, 1, 6]], (2, 3)), ([2, 5, 3], (3,))), (([[Fraction(1, 2)]], (1, 1)), ([1], (1,))),
      (([[1, 1], [0, 9], [2, 2]], (3, 2)), ([-1, 7], (2,)))]),
}

REFUSED = {
    "alias": "def f(a):\n    b = np.zeros((2, 2), dtype=np.float64)\n    c = b\n    c[0, 0] = 1\n    return b\n",
    "store_param": "def f(a):\n    b = np.zeros((2, 2), dtype=np.float64)\n    a[0, 0] = 1\n    return b\n",
    "return_param": "def f(a):\n    return a\n",
    "alloc_in_loop": "def f(a):\n    for i in range(2):\n        b = np.zeros((2, 2), dtype=np.float64)\n    return b\n",
    "copy_in_if": "def f(a):\n    b = np.zeros((2, 2), dtype=np.float64)\n    if a[0, 0] > 1:\n        b = np.copy(a)\n    return b\n",
    "realloc": "def f(a):\n    b = np.zeros((2, 2), dtype=np.float64)\n    b = np.zeros((3, 3), dtype=np.float64)\n    return b\n",
    "zeros_like": "def f(a):\n    b = np.zeros_like(a)\n    return b\n",
    "empty": "def f(a):\n    b = np.empty((2, 2), dtype=np.float64)\n    return b\n",
    "zeros_1d": "def f(a):\n    b = np.zeros(3, dtype=np.float64)\n    return b\n",
    "zeros_nodtype": "def f(a):\n    b = np.zeros((2, 2))\n    return b\n",
    "sum_whole": "def f(a):\n    b = np.zeros((2, 2), dtype=np.float64)\n    b[0, 0] = np.sum(a)\n    return b\n",
    "sum_axis": "def f(a):\n    b = np.zeros((2, 2), dtype=np.float64)\n    b[0, 0] = np.sum(a[0:1, 0], axis=0)\n    return b\n",
    "sum_step": "def f(a):\n    b = np.zeros((2, 2), dtype=np.float64)\n    b[0, 0] = np.sum(a[0:2:2, 0])\n    return b\n",
    "sum_open": "def f(a):\n    b = np.zeros((2, 2), dtype=np.float64)\n    b[0, 0] = np.sum(a[:1, 0])\n    return b\n",
    "sum_row_slice": "def f(a):\n    b = np.zeros((2, 2), dtype=np.float64)\n    b[0, 0] = np.sum(a[0, 0:1])\n    return b\n",
    "slice_read": "def f(a):\n    b = np.zeros((2, 2), dtype=np.float64)\n    c = a[0:1, 0]\n    return b\n",
    "col_assign": "def f(a):\n    b = np.zeros((2, 2), dtype=np.float64)\n    b[:, 0] = a[:, 0]\n    return b\n",
    "row_scalar": "def f(a):\n    b = np.zeros((2, 2), dtype=np.float64)\n    b[0, :] = 1\n    return b\n",
    "row_part": "def f(a):\n    b = np.zeros((2, 2), dtype=np.float64)\n    b[0, 0:1] = a[0, 0:1]\n    return b\n",
    "row_aug": "def f(a):\n    b = np.zeros((2, 2), dtype=np.float64)\n    b[0, :] += a[0, :]\n    return b\n",
    "row_in_loop": "def f(a):\n    b = np.zeros((2, 2), dtype=np.float64)\n    for i in range(2):\n        b[i, :] = a[i, :]\n    return b\n",
    "row_self": "def f(a):\n    b = np.zeros((2, 2), dtype=np.float64)\n    b[0, :] = b[1, :]\n    return b\n",
    "shape_var_axis": "def f(a):\n    b = np.zeros((2, 2), dtype=np.float64)\n    k = 0\n    b[0, 0] = a.shape[k]\n    return b\n",
    "shape_neg_axis": "def f(a):\n    b = np.zeros((2, 2), dtype=np.float64)\n    b[0, 0] = a.shape[-1]\n    return b\n",
    "float_into_int": "def f(a):\n    b = np.zeros((2, 2), dtype=np.int64)\n    b[0, 0] = a[0, 0]\n    return b\n",
    "div_store": "def f(a):\n    b = np.zeros((2, 2), dtype=np.float64)\n    b[0, 0] /= 2\n    return b\n",
    "one_index": "def f(a):\n    b = np.zeros((2, 2), dtype=np.float64)\n    b[0] = 1\n    return b\n",
    "early_return": "def f(a):\n    b = np.zeros((2, 2), dtype=np.float64)\n    if a[0, 0] > 1:\n        return b\n    return b\n",
    "return_three": "def f(a):\n    b = np.zeros((2, 2), dtype=np.float64)\n    return b, b, b\n",
    "return_scalar": "def f(a):\n    b = np.zeros((2, 2), dtype=np.float64)\n    k = 1\n    return k\n",
    "while": "def f(a):\n    b = np.zeros((2, 2), dtype=np.float64)\n    while b[0, 0] < 1:\n        b[0, 0] += 1\n    return b\n",
    "extent_read": "def f(a):\n    b = np.zeros((a[0, 0], 2), dtype=np.float64)\n    return b\n",
    "py_name": "def f(a):\n    pyOk = np.zeros((2, 2), dtype=np.float64)\n    return pyOk\n",
    "dims_collide": "def f(a):\n    b_n0 = 1\n    b = np.zeros((2, 2), dtype=np.float64)\n    return b\n",
    "dims_collide_after": "def f(a):\n    b = np.zeros((2, 2), dtype=np.float64)\n    b_n1 = 7\n    b[0, 0] = b_n1\n    return b\n",
    "tuple_swap": "def f(a):\n    b = np.zeros((2, 2), dtype=np.float64)\n    x, y = 1, 2\n    return b\n",
    "array_in_expr": "def f(a):\n    b = np.zeros((2, 2), dtype=np.float64)\n    b[0, 0] = a\n    return b\n",
    "nested_store": "def f(a):\n    b = np.zeros((2, 2), dtype=np.float64)\n    b[0][0] = 1\n    return b\n",
}


def accepted_kernels():
    out = {}
    for name, (params, text, _) in ACCEPTED.items():
        fn = ast.parse(text.strip()).body[0]
        k = pyscan.translate_array_kernel(fn, name, params)
        k.fn = fn
        out[name] = k
    return out


def refused_problems():
    problems = []
    for name, text in REFUSED.items():
        fn = ast.parse(text).body[0]
        try:
            pyscan.translate_array_kernel(fn, "f", [AParam("a", VAL, 2)])
            problems.append(f"{name} was translated")
        except Unsupported:
            pass
        except Exception as exc:  # pylint: disable=broad-except
            problems.append(f"{name}: {type(exc).__name__}: {exc} (expected Unsupported)")
    return problems


def python_problems():
    problems = []
    for name, k in accepted_kernels().items():
        params, text, inputs = ACCEPTED[name]
        for args in inputs:
            py = run_python(text, name, params, args)
            py = [canon(x.tolist()) for x in (py if isinstance(py, tuple) else (py,))]
            ex = exact_args(params, args)
            whole = pyscan.interpret(k.fn, ex)
            whole = [canon(x.data) for x in (whole if isinstance(whole, tuple) else (whole,))]
            res, vals = pyscan.evaluate(k, exact_args(params, args))
            tree = [canon(v[0]) for v in vals] if res == "ok" else res
            if not py == whole == tree:
                problems.append(f"{name}{args}: CPython {py}, interpret {whole}, tree {tree}")
    return problems
